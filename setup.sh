#!/bin/sh
# setup_cmd: build the conformance harness offline (dev + release) and parse every specification module.
set -e
cd "$(dirname "$0")"
export CARGO_NET_OFFLINE=true
mkdir -p work evidence replays
(cd harness && RUSTFLAGS="-Awarnings" cargo build --offline --quiet && RUSTFLAGS="-Awarnings" cargo build --offline --quiet --release)
for m in spec/*.tla spec/mc/*.tla spec/trace/*.tla; do
  [ -f "$m" ] || continue
  java -DTLA-Library=spec:spec/mc:spec/trace:/opt/veriftools/tlapm/lib/tlapm/stdlib -cp /opt/veriftools/tla/tla2tools.jar:/opt/veriftools/tla/CommunityModules-deps.jar tla2sany.SANY "$m" > work/sany.log 2>&1 || { cat work/sany.log; exit 1; }
  if grep -q "\*\*\* Errors\|Fatal errors\|Could not parse" work/sany.log; then cat work/sany.log; exit 1; fi
done
echo "setup ok"
