#!/bin/sh
exit 0
