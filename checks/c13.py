"""C13 - concurrent use is safe, including first use and concurrent registration."""
import itertools
import core, tlc
import enginefam as eng

F1_SCENARIO = {"threads": [[{"op": "reg", "r": "func", "name": "g", "val": "h1", "ret": ["num", False, [1], 0]},
                            {"op": "exec", "r": "infix", "name": "+", "text": "g() + (2 + 3)", "classes": {"b": ["num", False, [6], 0], "h2": ["num", False, [2], 0]}}],
                           [{"op": "reg", "r": "infix", "name": "+", "val": "h2", "prec": 110, "assoc": "L", "arith": "sub"}]],
               "mode": "free", "sync": {"handler": "h1", "then_thread": 1}}

# first-use scenarios whose interleavings are forced at the yield points (init stages and every registry access)
SCHED_SCENARIOS = [
    [[{"op": "exec", "r": "func", "name": "min"}], [{"op": "reg", "r": "func", "name": "min", "val": "h1"}]],
    [[{"op": "reg", "r": "infix", "name": "+", "val": "h1", "prec": 110, "assoc": "L"}], [{"op": "exec", "r": "prefix", "name": "-"}]],
    [[{"op": "exec", "r": "postfix", "name": "++"}], [{"op": "exec", "r": "func", "name": "f"}, {"op": "reg", "r": "func", "name": "f", "val": "h2"}]],
    [[{"op": "reg", "r": "prefix", "name": "upre", "val": "h1"}], [{"op": "reg", "r": "postfix", "name": "upost", "val": "h2"}, {"op": "exec", "r": "prefix", "name": "upre"}]],
    # a first parse on one thread while another registers a NEW operator and uses it
    [[{"op": "exec", "r": "func", "name": "min"}], [{"op": "reg", "r": "prefix", "name": "upre", "val": "h1"}, {"op": "exec", "r": "prefix", "name": "upre"}]],
    [[{"op": "exec", "r": "infix", "name": "+"}], [{"op": "reg", "r": "postfix", "name": "upost", "val": "h1"}, {"op": "exec", "r": "postfix", "name": "upost"}]],
]

HAMMER = {"threads": [[{"op": "reg", "r": "infix", "name": "uin", "val": "h1", "prec": 115, "assoc": "L"}, {"op": "reg", "r": "prefix", "name": "upre", "val": "h2"}],
                      [{"op": "reg", "r": "func", "name": "f", "val": "h3"}, {"op": "reg", "r": "postfix", "name": "upost", "val": "h4"}],
                      [{"op": "exec", "r": "infix", "name": "uin"}, {"op": "exec", "r": "func", "name": "min"}],
                      [{"op": "exec", "r": "prefix", "name": "upre"}, {"op": "parse", "r": "infix", "name": "+"}],
                      [{"op": "exec", "r": "func", "name": "f"}, {"op": "exec", "r": "postfix", "name": "upost"}],
                      [{"op": "exec", "r": "infix", "name": "+"}, {"op": "exec", "r": "prefix", "name": "-"}]], "mode": "hammer", "repeat": 3000}


# rendez-vous scenarios: a handler of each kind, while it runs, waits until another thread has completed one engine call of each kind
# (C13: calls from other threads complete whatever a handler on this thread is doing; a lock held across the handler deadlocks them)
def sync_scenarios():
    kinds = [("func", "g", "g()"), ("prefix", "upre", "upre 1"), ("postfix", "upost", "1 upost"), ("infix", "uin", "1 uin 2")]
    others = [{"op": "exec", "r": "func", "name": "min"}, {"op": "exec", "r": "prefix", "name": "-"}, {"op": "exec", "r": "infix", "name": "+"}, {"op": "exec", "r": "postfix", "name": "++"},
              {"op": "reg", "r": "func", "name": "f2", "val": "h7"}, {"op": "reg", "r": "prefix", "name": "upre2", "val": "h7"}, {"op": "reg", "r": "infix", "name": "uin2", "val": "h7", "prec": 115, "assoc": "L"},
              {"op": "reg", "r": "postfix", "name": "upost2", "val": "h7"}, {"op": "parse", "text": "a beginWith b ++"}]
    out = []
    for r, name, text in kinds:
        reg = {"op": "reg", "r": r, "name": name, "val": "h1"}
        if r == "infix":
            reg.update(prec=115, assoc="L")
        for o in others:
            out.append({"threads": [[reg, {"op": "text", "text": text}], [o]], "mode": "free", "sync": {"handler": "h1", "then_thread": 1}})
    return out


# programs that need several registries within one evaluation (an operator applied to an operand built with operators of the
# other kinds, nested postfix, calls with operator arguments) against tokenizing threads and registrations: lock-order inversions
T = lambda text: {"op": "text", "text": text}
P = lambda text: {"op": "parse", "text": text}
HAMMER2 = {"threads": [[T("(- 2) ++"), T("(1 + - 2) ++"), T("(2 ++) ++")],
                       [P("alpha beginWith beta"), T("min(- 3 ++, 1 + 2)"), P("a ++ + - b")],
                       [T("! (1 < 2) && true"), T("x = - 1; x ++"), T("- (2 ++)")],
                       [{"op": "reg", "r": "prefix", "name": "upre", "val": "h1"}, {"op": "reg", "r": "postfix", "name": "upost", "val": "h2"}, T("upre (3 upost)")],
                       [T("max(1, 2) ++ * - 3"), P("not_an_op x y"), T("(upre 1) upost")],
                       [{"op": "reg", "r": "infix", "name": "uin", "val": "h3", "prec": 115, "assoc": "L"}, {"op": "reg", "r": "func", "name": "f", "val": "h4"}, T("f(1 uin 2) ++")]],
           "mode": "hammer", "repeat": 2000}


# registrations in different tables overlapping: a thread that has registered an operator (long name, own table) must find it in its
# own next evaluation whatever other threads register meanwhile in the other tables (anything shared between the tables is updated atomically)
HAMMER3 = {"threads": [[{"op": "reg", "r": "infix", "name": "divisibleByEleven", "val": "h1", "prec": 115, "assoc": "L"}, {"op": "exec", "r": "infix", "name": "divisibleByEleven", "expect": "h1"}],
                       [{"op": "reg", "r": "prefix", "name": "upre", "val": "h2"}, {"op": "exec", "r": "prefix", "name": "upre", "expect": "h2"}],
                       [{"op": "reg", "r": "postfix", "name": "squaredAndHalved", "val": "h3"}, {"op": "exec", "r": "postfix", "name": "squaredAndHalved", "expect": "h3"}],
                       [{"op": "reg", "r": "func", "name": "f", "val": "h4"}, {"op": "exec", "r": "func", "name": "f", "expect": "h4"}],
                       [{"op": "reg", "r": "prefix", "name": "negateTwiceOver", "val": "h5"}, {"op": "exec", "r": "prefix", "name": "negateTwiceOver", "expect": "h5"}],
                       [{"op": "reg", "r": "infix", "name": "uin", "val": "h6", "prec": 115, "assoc": "L"}, {"op": "exec", "r": "infix", "name": "uin", "expect": "h6"}]],
           "mode": "hammer", "repeat": 3000}


# an operator re-registered with precedence AND associativity changing together while others parse with it: whichever registration a
# parse sees, the witnesses group the same way (36 and 16); a (precedence, associativity) pair that belongs to neither does not
def _reg(name, prec, assoc, arith):
    return {"op": "reg", "r": "infix", "name": name, "val": "h1", "prec": prec, "assoc": assoc, "arith": arith}
V = lambda n: 'value:["num",false,[%d],0]' % n
HAMMER4 = {"setup": [_reg("times", 10, "L", "mul"), _reg("over", 20, "L", "mul"), _reg("glue", 10, "L", "mul10add")],
           "threads": [[_reg("glue", 20, "R", "mul10add"), _reg("glue", 10, "L", "mul10add")]] +
                      [[{"op": "text", "text": "1 glue 2 times 3", "expect": V(36)}, {"op": "text", "text": "1 glue 2 over 3", "expect": V(16)}] for _ in range(4)],
           "mode": "hammer", "repeat": 4000}


def apalache(run):
    """Inductive invariant of the once-cell protocol for 8 threads (Apalache, symbolic): initiation, consecution, and
    IndInv => NoPartialInit.  TLC explores 2-3 threads; this closes the gap for the initialisation protocol."""
    import os, subprocess, re
    d = os.path.join(tlc.WORK, "apalache")
    os.makedirs(d, exist_ok=True)
    spec = os.path.join(tlc.SPEC, "apalache", "OnceInit.tla")
    obligations = [("initiation", ["--init=Init", "--inv=IndInv", "--length=0"]), ("consecution", ["--init=IndInit", "--inv=IndInv", "--length=1"]),
                   ("implies-NoPartialInit", ["--init=IndInit", "--inv=NoPartialInit", "--length=0"])]
    ok = 0
    for name, args in obligations:
        try:
            p = subprocess.run(["apalache-mc", "check", "--cinit=ConstInit", "--out-dir=" + d] + args + [spec], cwd=d, stdout=subprocess.PIPE, stderr=subprocess.STDOUT, text=True, timeout=900)
        except subprocess.TimeoutExpired:
            raise tlc.ToolError("apalache timed out on " + name)
        if "EXITCODE: OK" in p.stdout:
            ok += 1
        elif "EXITCODE: ERROR (12)" in p.stdout or "violat" in p.stdout.lower():
            run.violation("C13/model/OnceInit/" + name, "Apalache: inductive-invariant obligation %s fails for the once-cell protocol" % name, {"family": "apalache", "output": p.stdout[-3000:]})
        else:
            raise tlc.ToolError("apalache gave no verdict on %s:\n%s" % (name, p.stdout[-1500:]))
    run.extra["apalache_obligations"] = {"checked": len(obligations), "ok": ok, "threads": 8}
    run.leg("M:Apalache/OnceInit", obligations=len(obligations), ok=ok, threads=8)


def check(run):
    thorough = run.tier == "thorough"
    run.rules.append("leg M: the Engine model (once-cell with four built-in stages, one mutex per registry with separate acquire/release steps, evaluations as plans of lookups and handler "
                     "invocations, re-entrant handlers as nested frames) on first-use races of 2 and 3 threads, re-entrant configurations and the fine-grained F1 configuration: NoPartialInit, "
                     "BuiltinsComplete, OneLockAtATime, NoLockInHandler, TLC deadlock check, EvalReadsOnly, termination under fairness, and linearizability against the atomic engine "
                     "(LinearizableOrF1: the only non-linearizable histories are evaluations made of several critical sections overlapped by a conflicting call); "
                     "for the initialisation protocol alone, an inductive invariant implying NoPartialInit is discharged by Apalache for 8 threads (initiation, consecution, implication)")
    run.rules.append("rendez-vous: a handler of each kind (global function, prefix, infix, postfix operator) waits, while it runs, until another thread has completed an evaluation through "
                     "each registry, a registration in each registry, or a parse (36 scenarios, fresh process each): the other thread's call must complete (no engine lock may be held across a handler); "
                     "hammer runs: sustained concurrent registration and evaluation, also of programs that use several registries within one evaluation (deadlock, panic, impossible results)")
    run.rules.append("leg R: first-use scenarios executed in fresh child processes under forced schedules (every thread order over the first %d yield points: init stages and registry accesses, "
                     "controller releases one thread per step); the schedule drives, the recorded trace decides; "
                     "leg T: %d free-running stress runs (2-%d threads, registrations and evaluations of fresh names and built-in overrides, fresh process each so that first-use races are real); "
                     "every recorded event list (one atomic sequence counter) is validated by TLC against the atomic engine: some placement of linearization points between call and return must "
                     "explain every result, no registry access before the fourth built-in stage except by the initialiser, handler = resolved handler; "
                     "non-trivial = run with >= 2 threads and a registration" % (8 if thorough else 6, 1500 if thorough else 150, 8 if thorough else 6))
    eng.model(run)
    apalache(run)
    # R: forced schedules
    k = 8 if thorough else 6
    scenarios = []
    for threads in SCHED_SCENARIOS:
        nt = len(threads)
        for order in itertools.product(range(nt), repeat=k):
            scenarios.append({"threads": threads, "mode": "sched", "schedule": list(order)})
    eng.run_many(run, "forced-schedules", scenarios, "C13", "C13")
    # T: stress
    eng.run_many(run, "stress", eng.free_scenarios(run.seed, 1500 if thorough else 150, 8 if thorough else 6), "C13", "C13")
    # sustained load: registrars and evaluators hammering the engine in one process; not validated event by event - only
    # deadlock (watchdog), panics and results that no registration could explain are reported
    for k in range(8 if thorough else 3):
        evs, summ = eng.run_scenario(dict(HAMMER, repeat=(20000 if thorough else 3000) + k), timeout=120)
        run.traces += 1
        if summ.get("deadlock") or summ.get("hung") or "aborted" in summ:
            run.violation("C13/deadlock", "sustained concurrent registration and evaluation did not finish: %s" % {k2: v for k2, v in summ.items() if k2 != "stderr"}, {"family": "engine", "scenario": HAMMER, "summary": summ})
        elif summ.get("panics") or summ.get("impossible_results"):
            run.violation("C13/hammer", "under sustained load %d calls panicked and %d returned results no registration explains" % (summ.get("panics", 0), summ.get("impossible_results", 0)),
                          {"family": "engine", "scenario": HAMMER, "summary": summ})
    for k in range(4 if thorough else 2):
        evs, summ = eng.run_scenario(dict(HAMMER2, repeat=(10000 if thorough else 2000) + k), timeout=120)
        run.traces += 1
        if summ.get("deadlock") or summ.get("hung") or "aborted" in summ:
            run.violation("C13/deadlock", "sustained concurrent evaluation of programs that use several registries at once did not finish: %s" % {k2: v for k2, v in summ.items() if k2 != "stderr"},
                          {"family": "engine", "scenario": HAMMER2, "summary": summ})
        elif summ.get("panics"):
            run.violation("C13/hammer", "under sustained load %d calls panicked" % summ.get("panics", 0), {"family": "engine", "scenario": HAMMER2, "summary": summ})
    for k in range(4 if thorough else 2):
        evs, summ = eng.run_scenario(dict(HAMMER3, repeat=(15000 if thorough else 3000) + k), timeout=120)
        run.traces += 1
        if summ.get("deadlock") or summ.get("hung") or "aborted" in summ:
            run.violation("C13/deadlock", "overlapping registrations in different tables did not finish: %s" % {k2: v for k2, v in summ.items() if k2 != "stderr"}, {"family": "engine", "scenario": HAMMER3, "summary": summ})
        elif summ.get("panics") or summ.get("impossible_results"):
            run.violation("C13/hammer", "with registrations overlapping in different tables, %d calls panicked and %d evaluations did not find the operator their own thread had just registered"
                          % (summ.get("panics", 0), summ.get("impossible_results", 0)), {"family": "engine", "scenario": HAMMER3, "summary": summ})
    for k in range(4 if thorough else 2):
        evs, summ = eng.run_scenario(dict(HAMMER4, repeat=(20000 if thorough else 4000) + k), timeout=120)
        run.traces += 1
        if summ.get("deadlock") or summ.get("hung") or "aborted" in summ:
            run.violation("C13/deadlock", "re-registration of precedence and associativity together under load did not finish: %s" % {k2: v for k2, v in summ.items() if k2 != "stderr"}, {"family": "engine", "scenario": HAMMER4, "summary": summ})
        elif summ.get("panics") or summ.get("impossible_results"):
            run.violation("C13/hammer", "while an operator alternated between (10, LEFT) and (20, RIGHT), %d evaluations grouped in a way neither registration gives (%d panics)"
                          % (summ.get("impossible_results", 0), summ.get("panics", 0)), {"family": "engine", "scenario": HAMMER4, "summary": summ})
    run.leg("R:hammer", runs=(8 if thorough else 3) + 3 * (4 if thorough else 2), threads=6)
    nsync = 0
    for sc in sync_scenarios():
        evs, summ = eng.run_scenario(sc, timeout=60)
        run.traces += 1
        nsync += 1
        if summ.get("deadlock") or summ.get("hung") or "aborted" in summ or summ.get("sync_timeouts") or summ.get("panics"):
            run.violation("C13/deadlock", "while the %s handler ran on one thread, %s on another thread did not complete (or the run aborted): %s"
                          % (sc["threads"][0][0]["r"], sc["threads"][1][0], {k2: v for k2, v in summ.items() if k2 != "stderr"}), {"family": "engine", "scenario": sc, "summary": summ})
    run.leg("R:rendez-vous", scenarios=nsync)
    # the directed F1 scenario: a known finding on the unchanged tree (non-atomic evaluation), anything else is a violation
    evs, summ = eng.run_scenario(F1_SCENARIO)
    if summ.get("deadlock") or "aborted" in summ:
        run.violation("C13/deadlock", "directed F1 scenario did not finish: %s" % summ, {"family": "engine", "scenario": F1_SCENARIO, "summary": summ})
    else:
        rej = eng.validate_traces(run, "directed-F1", [(F1_SCENARIO, evs)], "C13", "C13/directed")
        run.violations = [v for v in run.violations if not v[0].startswith("C13/directed")]
        if rej:
            ev = rej[0][2].get("event", {})
            if ev.get("ev") == "ret" and str(ev.get("res", "")).startswith("other:"):
                run.violation("C13/nonatomic-eval/reregister-overlaps-multi-lookup",
                              "execute(\"g() + (2 + 3)\") overlapped (inside g) by register_infix_op(\"+\", subtract) returned %s; the two sequential orders give 6 and 2" % ev["res"],
                              {"family": "engine", "scenario": F1_SCENARIO, "events": evs})
            else:
                run.violation("C13/directed-F1/%s" % ev.get("ev"), "directed scenario rejected at %s" % ev, {"family": "engine", "scenario": F1_SCENARIO, "events": evs})
    run.exhaustive = False
    run.assumptions += ["std Mutex / OnceCell / Arc are trusted; the model assumes a non-re-entrant mutex and a blocking once-cell",
                        "schedules can be forced only at the hook's yield points (before a registry mutex is taken, between the built-in stages) and at harness handlers",
                        "a thread that does not reach its next yield point within 30 ms is taken to be blocked and left free-running (the model's InitPass / Acquire being disabled)",
                        "results are projected onto the identity of the handler that produced them (marker handlers)"]


def replay(path, seed):
    return eng.replay(path, seed)
