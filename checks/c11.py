"""C11 - whitespace and redundant parentheses never change the parse."""
import os
import core, tlc
import prattfam as pf

INV = "PrattAgreesWithGrammar ParensRedundant"


def layout_leg(run, name, recs, layouts):
    path = os.path.join(tlc.WORK, "layout-replay-%s.ndjson" % name)
    tpath = os.path.join(tlc.WORK, "layout-trace-%s.ndjson" % name)
    core.write_ndjson(path, recs)
    out, _ = core.run_vh(["layout-replay", path, "--seed", run.seed, "--layouts", layouts, "--trace-out", tpath])
    summ = [o for o in out if "summary" in o]
    if not summ:
        raise tlc.ToolError("layout-replay produced no summary (%s)" % name)
    s = summ[0]["summary"]
    run.traces += s["variants"]
    run.evaluations += s["variants"]
    run.nontrivial += s["checked"]
    for o in out:
        if "mismatch" in o:
            run.violation("C11/layout", "%s: %r vs %r" % (o["why"], o["text"], o["base"]), {"family": "layout", "text": o["text"], "base": o["base"], "why": o["why"]})
    run.leg("R:layout/" + name, programs=s["checked"], variants=s["variants"], mismatches=s["mismatches"], skipped=s["skipped"])
    trecs = core.read_ndjson(tpath)
    if trecs:
        run.sample({"leg": "R", "config": name, "layout": trecs[len(trecs) // 2]["text"]})
    return trecs


def paren_leg(run, name, wraps, mult, single):
    path = os.path.join(tlc.WORK, "paren-replay-%s.ndjson" % name)
    core.write_ndjson(path, wraps)
    out, _ = core.run_vh(["paren-replay", path, "--seed", run.seed, "--mult", mult] + (["--single"] if single else []))
    summ = [o for o in out if "summary" in o]
    if not summ or summ[0]["summary"]["checked"] != len(wraps):
        raise tlc.ToolError("paren-replay did not process every record (%s)" % name)
    s = summ[0]["summary"]
    run.traces += s["checked"]
    run.evaluations += s["checked"]
    for o in out:
        if "mismatch" in o:
            run.violation("C11/parens", "%s: %r" % (o["why"], o["text"][:300]), {"family": "parens", "text": o["text"], "why": o["why"], "mult": mult, "single": single})
    # inputs beyond the grammar's TokenFloor may be refused by the nesting budget (see known-findings: C11/nesting-budget)
    run.leg("R:parens/%s/x%d%s" % (name, mult, "-single" if single else ""), checked=s["checked"], mismatches=s["mismatches"], beyond_budget=s["beyond_budget"])
    return s["beyond_budget"]


def check(run):
    thorough = run.tier == "thorough"
    layouts = 16 if thorough else 4
    run.rules.append("leg M: for every tree the Pratt machine returns (all token strings <= 4 tokens over the operator alphabet, all operator pairs, all decorations): "
                     "RefParse(Wrap(t, k)) = t for k = 1, 2 redundant parentheses around every sub-expression; "
                     "leg R: every accepted program of those configurations and of the delimiter alphabet in %d seeded layouts (whitespace strings over space/tab/CR/LF at every token "
                     "boundary, no whitespace next to delimiters) must give the same token kinds/texts and the same tree; the wrapped token strings parsed by the real parser with every "
                     "redundant parenthesis written 1, 2 and 5 times and one seeded pair written 64 times; non-trivial = accepted program" % layouts)
    run.rules.append("leg T: random programs under random layouts parsed by the real parser, judged by TLC with RefParse on the reported tokens (string payloads contain spaces and newlines)")
    budget_hits = 0
    trace_recs = []
    for name, kw in (("exh-ops", dict(lazy=True, maxlen=4, alphabet="OpsAlpha")), ("decor", dict(lazy=False, source="DecorSource", firstset="DecorSet")),
                     ("pairs", dict(lazy=False, source="PairSource", firstset="PairSet"))):
        res = tlc.run("mc/MCPratt.tla", pf.pratt_cfg("c11-" + name, inv=INV, report="EmitRender" if name != "exh-ops" else "EmitJson", **kw), workers=16, timeout=2400)
        run.tlc("M:Parens/" + name, res)
        if res.violation:
            run.model_violation("Parens/" + name, res)
            continue
        recs = core.tlc_printed_records(res)
        if name == "exh-ops":
            trace_recs += layout_leg(run, name, [r for r in recs if r["ok"]], layouts)
            continue
        renders = [r for r in recs if r.get("src") == "render"]
        wraps = [r for r in recs if r.get("src") == "wrap1"]
        trace_recs += layout_leg(run, name, renders, layouts)
        pf._replay(run, "wrap1-" + name, wraps, "C11", None, [run.seed])
        for mult, single in ((2, False), (5, False), (64, True)):
            budget_hits += paren_leg(run, name, wraps, mult, single)
    # delimiter-heavy accepted programs: layouts only
    res = tlc.run("mc/MCPratt.tla", pf.pratt_cfg("c11-delims", lazy=True, maxlen=4, alphabet="DelAlpha"), workers=16, timeout=2400)
    run.tlc("M:Pratt/exh-delims4", res)
    trace_recs += layout_leg(run, "exh-delims", [r for r in core.tlc_printed_records(res) if r["ok"]], layouts)
    # the first layout of every program, validated by TLC against the reference grammar on the reported tokens
    pf.validate_records(run, "layouts", trace_recs[:4000 if not thorough else 40000], "C11", "C11")
    pf.trace_validate(run, "random-layout", 10000 if thorough else 1500, run.seed, 0, "C11", "C11", extra_args=["--layout"])
    # directed probe of the documented limit: 300 redundant pairs around one name
    out, _ = core.run_vh(["parse-one", "(" * 300 + "x" + ")" * 300])
    if out and out[0]["panic"]:
        run.violation("C11/parens", "300 redundant parentheses: panic", {"family": "parens", "text": "(" * 300 + "x" + ")" * 300, "why": "panic"})
    elif out and not out[0]["ok"]:
        budget_hits += 1
    elif out and out[0]["ast"] != ["ref", "x"]:
        run.violation("C11/parens", "300 redundant parentheses change the tree", {"family": "parens", "text": "(" * 300 + "x" + ")" * 300, "why": "tree changed"})
    run.traces += 1
    if budget_hits:
        # documented limit of the C01 repair: beyond the nesting budget (and only beyond the grammar's TokenFloor) extra parentheses are refused
        run.violation("C11/nesting-budget", "%d wrapped programs longer than 200 tokens were refused by the nesting budget" % budget_hits, {"family": "parens", "count": budget_hits})
    run.exhaustive = False
    run.assumptions += ["names are not operator words", "an empty gap is only generated next to a delimiter token (elsewhere tokens may fuse)",
                        "TLC, hook H1, the JSON encodings and the harness's comparison code are trusted"]


def replay(path, seed):
    import json
    case = json.load(open(path))["case"]
    if case["family"] == "layout":
        out, _ = core.run_vh(["parse-one", core_esc(case["text"])])
        out2, _ = core.run_vh(["parse-one", core_esc(case["base"])])
        print(json.dumps({"layout": out, "base": out2}, indent=1))
        return 0 if out == out2 and out and out[0]["ok"] else 1
    if case["family"] == "parens":
        if "text" not in case:
            print(json.dumps(case)); return 0
        out, _ = core.run_vh(["parse-one", core_esc(case["text"])])
        print(json.dumps(out)[:2000])
        return 0 if out and out[0]["ok"] else 1
    return pf.replay(path, seed)


def core_esc(s):
    return "".join(c if (" " <= c <= "~" and c != "\\") else "\\u{%X}" % ord(c) for c in s)
