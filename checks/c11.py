"""C11 - whitespace and redundant parentheses never change the parse."""
import os
import core, tlc
import prattfam as pf, lexfam

INV = "PrattAgreesWithGrammar ParensRedundant"


def layout_leg(run, name, recs, layouts, ops_file=None):
    path = os.path.join(tlc.WORK, "layout-replay-%s.ndjson" % name)
    tpath = os.path.join(tlc.WORK, "layout-trace-%s.ndjson" % name)
    core.write_ndjson(path, recs)
    tight = os.path.join(tlc.WORK, "layout-tight-%s.ndjson" % name)
    out, _ = core.run_vh(["layout-replay", path, "--seed", run.seed, "--layouts", layouts, "--trace-out", tpath, "--tight-out", tight] + (["--ops-file", ops_file] if ops_file else []))
    summ = [o for o in out if "summary" in o]
    if not summ:
        raise tlc.ToolError("layout-replay produced no summary (%s)" % name)
    s = summ[0]["summary"]
    run.traces += s["variants"]
    run.evaluations += s["variants"]
    run.nontrivial += s["checked"]
    for o in out:
        if "mismatch" in o:
            run.violation("C11/layout", "%s: %r vs %r" % (o["why"], o["text"], o["base"]), {"family": "layout", "text": o["text"], "base": o["base"], "why": o["why"]})
    run.leg("R:layout/" + name, programs=s["checked"], variants=s["variants"], mismatches=s["mismatches"], skipped=s["skipped"])
    trecs = core.read_ndjson(tpath)
    if trecs:
        run.sample({"leg": "R", "config": name, "layout": trecs[len(trecs) // 2]["text"]})
    if not ops_file:
        spec_tight(run, name, core.read_ndjson(tight))      # (the Lexer configurations of the trace leg use the built-in operator set)
    return trecs


def spec_tokens(run, name, texts):
    """Token sequence (kind, text) the Lexer SPECIFICATION assigns to each text, None for a lexical error: the real tokenizer's report where
    TraceLexer accepts it, the specification's own tokens where it does not."""
    tp = os.path.join(tlc.WORK, "tight-texts-%s.ndjson" % name)
    core.write_ndjson(tp, [{"text": t} for t in texts])
    op = os.path.join(tlc.WORK, "tight-obs-%s.ndjson" % name)
    core.run_vh(["lex-observe", tp, "--out", op])
    recs = core.read_ndjson(op)
    parts, k = core.shard(recs, 16)
    files = []
    for i, part in enumerate(parts):
        p = os.path.join(tlc.WORK, "tight-obs-%s-%d.ndjson" % (name, i))
        core.write_ndjson(p, part)
        files.append(p)
    cfg = lexfam.trace_cfg("tight-" + name, "BuiltinOps")
    results = core.parallel([(lambda p=p: tlc.run("trace/TraceLexer.tla", cfg, workers=1, env={"TRACE": p}, deque=True, xmx="2g", timeout=1800)) for p in files])
    spec = {}
    for i, res in enumerate(results):
        run.tlc("T:TraceLexer/tight-%s/%d" % (name, i), res)
        if res.violation:
            raise tlc.ToolError("TraceLexer: %s on the tight layouts" % res.violation)
        prs = core.tlc_printed_records(res)
        if not any(p.get("done") == len(parts[i]) for p in prs):
            raise tlc.ToolError("TraceLexer did not consume every tight layout (%s/%d)" % (name, i))
        over = {p["mismatch"]: p["spec"] for p in prs if "mismatch" in p}
        for j, rec in enumerate(parts[i]):
            text = lexfam.chars_str(rec["chars"])
            if j in over:
                spec[text] = [(t[0], tuple(t[3])) for t in over[j]["toks"]] if over[j]["ok"] else None
            else:
                spec[text] = [(t[0], tuple(t[3])) for t in rec["toks"]] if rec["ok"] else None
    return spec


def unesc(s):
    import re
    return re.sub(r"\\u\{([0-9A-Fa-f]+)\}", lambda m: chr(int(m.group(1), 16)), s)


def spec_tight(run, name, pairs):
    """White space dropped blindly; the Lexer specification decides which variants are still the same token sequence, and those must parse
    exactly like the spaced base (h11-b: `2--3` against `2-- 3`)."""
    if not pairs:
        return
    for p in pairs:
        p["base"], p["tight"] = unesc(p["base"]), unesc(p["tight"])
    texts = sorted(set([p["base"] for p in pairs] + [p["tight"] for p in pairs]))
    spec = spec_tokens(run, name, texts)
    same = bad = 0
    for p in pairs:
        a, b = spec.get(p["base"]), spec.get(p["tight"])
        # number tokens carry their source text: equal kinds and texts means the same program
        if a is None or b is None or a != b:
            continue
        same += 1
        if not p["same_parse"]:
            bad += 1
            run.violation("C11/layout", "%s: %r vs %r" % ("panic" if p["tight_panic"] else "the Lexer specification gives both layouts the same tokens, but they parse differently", p["tight"], p["base"]),
                          {"family": "layout", "text": p["tight"], "base": p["base"], "why": "same tokens by the Lexer specification, different parse"})
    run.traces += same
    run.evaluations += same
    run.leg("R:tight-by-spec/" + name, variants=len(pairs), same_tokens_by_spec=same, mismatches=bad)


def paren_leg(run, name, wraps, mult, single):
    path = os.path.join(tlc.WORK, "paren-replay-%s.ndjson" % name)
    core.write_ndjson(path, wraps)
    out, _ = core.run_vh(["paren-replay", path, "--seed", run.seed, "--mult", mult] + (["--single"] if single else []))
    summ = [o for o in out if "summary" in o]
    if not summ or summ[0]["summary"]["checked"] != len(wraps):
        raise tlc.ToolError("paren-replay did not process every record (%s)" % name)
    s = summ[0]["summary"]
    run.traces += s["checked"]
    run.evaluations += s["checked"]
    for o in out:
        if "mismatch" in o:
            run.violation("C11/parens", "%s: %r" % (o["why"], o["text"][:300]), {"family": "parens", "text": o["text"], "why": o["why"], "mult": mult, "single": single})
    # inputs beyond the grammar's TokenFloor may be refused by the nesting budget (see known-findings: C11/nesting-budget)
    run.leg("R:parens/%s/x%d%s" % (name, mult, "-single" if single else ""), checked=s["checked"], mismatches=s["mismatches"], beyond_budget=s["beyond_budget"])
    return s["beyond_budget"]


def check(run):
    thorough = run.tier == "thorough"
    layouts = 16 if thorough else 4
    run.rules.append("leg M: for every tree the Pratt machine returns (all token strings <= 4 tokens over the operator alphabet, all operator pairs, all decorations): "
                     "RefParse(Wrap(t, k)) = t for k = 1, 2 redundant parentheses around every sub-expression; "
                     "leg R: every accepted program of those configurations and of the delimiter alphabet in %d seeded layouts (whitespace strings over space/tab/CR/LF at every token "
                     "boundary, no whitespace next to delimiters) must give the same token kinds/texts and the same tree; the wrapped token strings parsed by the real parser with every "
                     "redundant parenthesis written 1, 2 and 5 times and one seeded pair written 64 times; non-trivial = accepted program" % layouts)
    run.rules.append("(thorough tier) user operators: all ordered pairs over the 28 registered word operators (adjacent and extreme precedences) and 7 built-in representatives in 6 shapes: bare rendering, fully "
                     "parenthesised form and seeded layouts of each must give the specified tree")
    run.rules.append("tight layouts: every accepted program also with white space dropped (a) greedily wherever hook H1 still reports the same tokens and (b) blindly at all / at half of the "
                     "boundaries, where the Lexer SPECIFICATION (TraceLexer on the real tokenizer's report, the specification's own tokens where it disagrees) decides whether the variant is still the same "
                     "token sequence: those variants must parse exactly like the spaced program; the bare rendering of every specified tree must parse to that tree, like its fully parenthesised twin")
    run.rules.append("leg T: random programs under random layouts parsed by the real parser, judged by TLC with RefParse on the reported tokens (string payloads contain spaces and newlines)")
    budget_hits = 0
    trace_recs = []
    for name, kw in (("exh-ops", dict(lazy=True, maxlen=4, alphabet="OpsAlpha")), ("decor", dict(lazy=False, source="DecorSource", firstset="DecorSet")),
                     ("pairs", dict(lazy=False, source="PairSource", firstset="PairSet"))):
        res = tlc.run("mc/MCPratt.tla", pf.pratt_cfg("c11-" + name, inv=INV, report="EmitRender" if name != "exh-ops" else "EmitJson", **kw), workers=16, timeout=2400)
        run.tlc("M:Parens/" + name, res)
        if res.violation:
            run.model_violation("Parens/" + name, res)
            continue
        recs = core.tlc_printed_records(res)
        if name == "exh-ops":
            trace_recs += layout_leg(run, name, [r for r in recs if r["ok"]], layouts)
            continue
        renders = [r for r in recs if r.get("src") == "render"]
        wraps = [r for r in recs if r.get("src") == "wrap1"]
        trace_recs += layout_leg(run, name, renders, layouts)
        pf._replay(run, "wrap1-" + name, wraps, "C11", None, [run.seed])
        for mult, single in ((2, False), (5, False), (64, True)):
            budget_hits += paren_leg(run, name, wraps, mult, single)
    # user-registered operators at adjacent and extreme precedences: the bare rendering and the fully parenthesised form of every pair sentence, in seeded layouts
    ops_file = os.path.join(tlc.SPEC, "mc", "bigtable.json")
    res = None if not thorough else tlc.run("mc/MCPratt.tla", pf.pratt_cfg("c11-upairs", inv=INV, report="EmitRender", lazy=False, source="UPairSource", firstset="UPairSet", table="BigTable"), workers=16, timeout=2400)
    if res is not None:
        run.tlc("M:Parens/user-pairs", res)
    if res is None:
        pass
    elif res.violation:
        run.model_violation("Parens/user-pairs", res)
    else:
        recs = core.tlc_printed_records(res)
        layout_leg(run, "user-pairs", [r for r in recs if r.get("src") == "render"], 2, ops_file=ops_file)
        pf._replay(run, "wrap1-user-pairs", [r for r in recs if r.get("src") == "wrap1"], "C11", ops_file, [run.seed])
    # delimiter-heavy accepted programs: layouts only
    res = tlc.run("mc/MCPratt.tla", pf.pratt_cfg("c11-delims", lazy=True, maxlen=4, alphabet="DelAlpha"), workers=16, timeout=2400)
    run.tlc("M:Pratt/exh-delims4", res)
    trace_recs += layout_leg(run, "exh-delims", [r for r in core.tlc_printed_records(res) if r["ok"]], layouts)
    # the first layout of every program, validated by TLC against the reference grammar on the reported tokens
    pf.validate_records(run, "layouts", trace_recs[:4000 if not thorough else 40000], "C11", "C11")
    pf.trace_validate(run, "random-layout", 10000 if thorough else 1500, run.seed, 0, "C11", "C11", extra_args=["--layout"])
    # directed probe of the documented limit: 300 redundant pairs around one name
    out, _ = core.run_vh(["parse-one", "(" * 300 + "x" + ")" * 300])
    if out and out[0]["panic"]:
        run.violation("C11/parens", "300 redundant parentheses: panic", {"family": "parens", "text": "(" * 300 + "x" + ")" * 300, "why": "panic"})
    elif out and not out[0]["ok"]:
        budget_hits += 1
    elif out and out[0]["ast"] != ["ref", "x"]:
        run.violation("C11/parens", "300 redundant parentheses change the tree", {"family": "parens", "text": "(" * 300 + "x" + ")" * 300, "why": "tree changed"})
    run.traces += 1
    # directed: many parenthesised groups side by side (each group is closed: nothing may add up across them)
    for bare, grouped in ((", ".join(["a + 1"] * 300), ", ".join(["( a + 1 )"] * 300)), ("; ".join(["x = x + 1"] * 300), "; ".join(["( x = x + 1 )"] * 300))):
        a, _ = core.run_vh(["parse-one", "[ " + bare + " ]" if "," in bare else bare])
        b, _ = core.run_vh(["parse-one", "[ " + grouped + " ]" if "," in grouped else grouped])
        run.traces += 2
        if not (a and b and a[0]["ok"] and b[0]["ok"] and a[0]["ast"] == b[0]["ast"]):
            run.violation("C11/parens", "300 parenthesised groups side by side parse differently from the bare form (%s / %s)" % (a[0]["ok"] if a else None, b[0]["ok"] if b else None),
                          {"family": "parens", "text": ("[ " + grouped + " ]" if "," in grouped else grouped), "why": "groups side by side"})
    if budget_hits:
        # documented limit of the C01 repair: beyond the nesting budget (and only beyond the grammar's TokenFloor) extra parentheses are refused
        run.violation("C11/nesting-budget", "%d wrapped programs longer than 200 tokens were refused by the nesting budget" % budget_hits, {"family": "parens", "count": budget_hits})
    run.exhaustive = False
    run.assumptions += ["names are not operator words", "in the seeded layouts an empty gap is only generated next to a delimiter token (elsewhere tokens may fuse); the tight layouts drop white space everywhere and are judged where the token sequence is unchanged",
                        "TLC, hook H1, the JSON encodings and the harness's comparison code are trusted"]


def replay(path, seed):
    import json
    case = json.load(open(path))["case"]
    if case["family"] == "layout":
        out, _ = core.run_vh(["parse-one", core_esc(case["text"])])
        out2, _ = core.run_vh(["parse-one", core_esc(case["base"])])
        print(json.dumps({"layout": out, "base": out2}, indent=1))
        return 0 if out == out2 and out and out[0]["ok"] else 1
    if case["family"] == "parens":
        if "text" not in case:
            print(json.dumps(case)); return 0
        out, _ = core.run_vh(["parse-one", core_esc(case["text"])])
        print(json.dumps(out)[:2000])
        return 0 if out and out[0]["ok"] else 1
    return pf.replay(path, seed)


def core_esc(s):
    return "".join(c if (" " <= c <= "~" and c != "\\") else "\\u{%X}" % ord(c) for c in s)
