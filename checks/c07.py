"""C07 - each subexpression runs once, left to right; conditionals are lazy."""
import evalfam as ef


def check(run):
    thorough = run.tier == "thorough"
    run.rules.append("leg M/R: every program shape of depth 1 over all node kinds (calls, bare references, variables, prefix/postfix/infix built-in and user operators, plain / compound / "
                     "user assignment, assignment to a non-name and to a function-bound name, conditionals, lists, maps, statement chains, global / unknown / variable-shadowed calls) and every "
                     "depth-2 composition over 7 representative children, whose leaves are distinct logging context functions (reached as f(), by bare name, or alternating), crossed with boolean "
                     "scripts and an error or panic injected at every invocation position: the small-step machine must agree with the denotation (value, final context, log), leaves in source order, "
                     "each at most once, nothing after the fault; every behaviour is rebuilt as an ExprAST and executed by the real evaluator; non-trivial = at least two observable invocations")
    run.rules.append("leg T: random programs (depth <= 4, up to 5 statements, wide value domain, scripted faults) executed by the real evaluator, every observable validated by TLC against Den")
    ef.eval_model_and_replay(run, "shapes-d1", ef.mceval_cfg("c07-d1", depth=1, full_faults=True), "C07")
    # handlers that write to the context they are evaluated in (later reads must see the write, each still exactly once)
    ef.eval_model_and_replay(run, "mutators-d1", ef.mceval_cfg("c07-mut", depth=1, full_faults=False, mutators=True), "C07")
    ef.eval_model_and_replay(run, "shapes-d2", ef.mceval_cfg("c07-d2", depth=2, full_faults=thorough, modes=("call", "bare", "mixed") if thorough else ("mixed",)), "C07")
    # the same name several times in one program (call and bare forms mixed): each occurrence is its own invocation
    run.rules.append("repeated names: 9 programs in which one context function occurs two or three times (as operands, list elements, map key and value, call arguments, statements, "
                     "condition and branches; called and by bare name), with the fault at every invocation: the engine may not remember an earlier result for a name")
    ef.eval_model_and_replay(run, "dup", ef.mceval_cfg("c07-dup", family="dup"), "C07")
    ef.eval_trace(run, "random", 20000 if thorough else 3000, run.seed, "C07")
    run.exhaustive = False
    run.assumptions += ["programs are built directly as ExprAST values (the enum is public), so the check does not depend on the parser",
                        "handlers are harness closures that log (handler, arguments, lock bits) and follow the script; an error value is obtained from a failing accessor",
                        "TLC, the JSON encodings and the harness comparison are trusted"]


def replay(path, seed):
    return ef.replay(path, seed)
