"""C03 - built-in operators and functions compute the documented values."""
import evalfam as ef


def check(run):
    thorough = run.tier == "thorough"
    idx = "AllIdx" if thorough else "CoreIdx"
    run.rules.append("leg M/R: every built-in infix operator (32), prefix operator (6), postfix operator (2) and aggregate (4, with 0-3 arguments) applied to every tuple of a "
                     "%s-value universe (numbers incl. negative, fractional, zero, equal pairs with different scales, i64 and 96-bit extremes; booleans; strings incl. empty and multi-byte; "
                     "lists; maps; None): TLC computes the reference outcome with exact limb arithmetic (Builtins/Decimal/BigNum), the real engine evaluates the same application with operands "
                     "bound in the context and, where possible, written as literals; non-trivial = the reference outcome is a value (not a type error)" % ("52" if thorough else "37"))
    run.rules.append("leg T: random applications over the wide domain (28-digit mantissas, scales 0-28, i64 extremes, nested lists/maps, multi-byte strings) recorded from the engine and validated by TLC")
    ef.builtins_model_and_replay(run, "bin", "bin", idx, "C03")
    ef.builtins_model_and_replay(run, "un", "un", "AllIdx", "C03")
    ef.builtins_model_and_replay(run, "post", "post", "AllIdx", "C03")
    ef.builtins_model_and_replay(run, "fn", "fn", "CoreIdx" if not thorough else "AllIdx", "C03")
    # the conditional: its value is the selected branch's; the other branch (failing, assigning) plays no part; a non-boolean condition is an error
    run.rules.append("the conditional operator: 8 programs whose unselected branch fails or assigns, nested, with a non-boolean and a None condition: value and final context from the denotation")
    ef.eval_model_and_replay(run, "cond", ef.mceval_cfg("c03-cond", family="cond"), "C03", sample_filter=lambda r: True)
    ef.builtins_trace(run, "wide", 40000 if thorough else 6000, run.seed, "C03")
    run.exhaustive = False
    run.assumptions += ["don't-care classes: results that are in range but not representable in 96 bits / 28 places (rust_decimal rounds), `%` whose operand alignment exceeds 96 bits, "
                        "AND/OR with an ill-typed element after the deciding one, sum()/mul() of nothing, << that shifts bits out",
                        "inexact quotients are accepted within relative error 1e-26 or absolute error 1e-28", "TLC, the value encodings and the harness comparison are trusted"]


def replay(path, seed):
    return ef.replay(path, seed)
