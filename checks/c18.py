"""C18 - describe() renders each node with exactly the descriptor registered for it."""
import json, os
import core, tlc


def mcd_cfg(name, maxsets, keys, emit=True, deep=False):
    path = os.path.join(tlc.WORK, "MCDescribe-%s.cfg" % name)
    os.makedirs(tlc.WORK, exist_ok=True)
    with open(path, "w") as f:
        f.write("SPECIFICATION Spec\nCONSTANTS MaxSets = %d\n KeyUniverse <- %s\n Emit = %s\n Deep = %s\n BinaryKeyIsUnary = FALSE\nCHECK_DEADLOCK FALSE\nINVARIANT MachineIsReference%s\nPROPERTY NonInterference\n"
                % (maxsets, keys, str(emit).upper(), str(deep).upper(), " EmitOnce" if emit else ""))
    return path


def model_and_replay(run, name, k, keys, deep=False):
    res = tlc.run("mc/MCDescribe.tla", mcd_cfg(name, k, keys, deep=deep), workers=16, timeout=1800, xss="1g")
    run.tlc("M:Describe/" + name, res)
    if res.violation:
        run.model_violation("Describe/" + name, res)
        return
    recs = core.tlc_printed_records(res)
    path = os.path.join(tlc.WORK, "describe-replay-%s.ndjson" % name)
    core.write_ndjson(path, recs)
    out, _ = core.run_vh(["describe-replay", path], timeout=1800)
    summ = [o for o in out if "summary" in o]
    if not summ or summ[0]["summary"]["histories"] != len(recs):
        raise tlc.ToolError("describe-replay did not run every history")
    run.traces += len(recs)
    run.evaluations += summ[0]["summary"]["renderings"]
    run.nontrivial += sum(1 for r in recs if r["sets"])
    if not deep:
        pick = [r for r in recs if len(r["sets"]) == k][0]
        run.sample({"leg": "M/R", "registrations": pick["sets"], "expected_describe": pick["expected"][:3]})
    for o in out:
        if "mismatch" in o:
            rec = recs[o["mismatch"]]
            run.violation("C18/describe/replay", "after registering %s, describe() of program #%d gives %r, specification %r" % (rec["sets"], o["program"], str(o["actual"])[:300], str(o["expected"])[:300]),
                          {"family": "describe", "record": rec, "program": o["program"], "actual": o["actual"]})
    run.leg("R:Describe/" + name, histories=len(recs), renderings=summ[0]["summary"]["renderings"], mismatches=summ[0]["summary"]["mismatches"])


def check(run):
    thorough = run.tier == "thorough"
    k = 3 if thorough else 2
    run.rules.append("leg M/R: every sequence of <= %d descriptor registrations over 14 keys (all nine kinds; `-` as unary and as binary, f as function and as reference; a second identity "
                     "replacing an earlier registration), reached through the specification's SetDescriptor action: in every state the code-shaped lookups (key construction, variant match, "
                     "fallback) agree with the reference rendering D on 10 programs containing every kind (empty list, empty map and a call without arguments included), and a registration changes only nodes with its own key (action property); each "
                     "reachable history is replayed in a fresh process of the real engine (the store is process-global) with marker descriptors and describe() compared string for string; "
                     "non-trivial = history with at least one registration" % k)
    run.rules.append("leg T: random registration histories x random parsed programs (strings excluded), each in a fresh process, validated by TLC against D")
    model_and_replay(run, "exh", k, "AllKeys")
    run.rules.append("deep trees: `x not in x not in ...` with 127, 129 and 200 operators (two tree levels each) and lists nested 255 and 300 deep, under every sequence of <= 2 registrations "
                     "over the four keys they use: every node, however deep, is rendered with its own descriptor")
    model_and_replay(run, "deep", 2, "DeepKeys", deep=True)
    # T
    tpath = os.path.join(tlc.WORK, "describe-trace.ndjson")
    core.run_vh(["describe-record", "--seed", run.seed, "--n", 2000 if thorough else 300, "--out", tpath], timeout=1800)
    recs = core.read_ndjson(tpath)
    parts, n = core.shard(recs, 8)
    files = []
    for i, part in enumerate(parts):
        p = os.path.join(tlc.WORK, "describe-trace-%d.ndjson" % i)
        core.write_ndjson(p, part)
        files.append(p)
    results = core.parallel([(lambda p=p: tlc.run("trace/TraceDescribe.tla", "trace/TraceDescribe.cfg", workers=1, env={"TRACE": p}, xmx="2g", timeout=1800)) for p in files])
    nm = 0
    for i, res in enumerate(results):
        run.tlc("T:TraceDescribe/%d" % i, res)
        if res.violation:
            run.violation("C18/describe/trace-invariant", "a recorded registration history drives the store into a state violating %s" % res.violation, {"family": "describe-trace", "tlc_error": res.error_text[:3000]})
            continue
        prs = core.tlc_printed_records(res)
        if not any(p.get("done") == len(parts[i]) for p in prs):
            raise tlc.ToolError("TraceDescribe did not consume every record")
        for p in prs:
            if "mismatch" in p:
                nm += 1
                rec = parts[i][p["mismatch"]]
                run.violation("C18/describe/trace", "after registering %s, describe() gives %r, specification %r" % (rec["sets"], rec["actual"][p["program"]] if p["program"] < len(rec["actual"]) else None, p["expected"]),
                              {"family": "describe", "record": {"sets": rec["sets"], "programs": [rec["programs"][p["program"]]], "expected": [p["expected"]]}, "program": 0})
    run.traces += len(recs)
    run.evaluations += sum(len(r["programs"]) for r in recs)
    run.nontrivial += sum(1 for r in recs if r["sets"])
    run.sample({"leg": "T", "registrations": recs[0]["sets"], "describe": recs[0]["actual"][:2]})
    run.leg("T:TraceDescribe", histories=len(recs), mismatches=nm)
    run.exhaustive = False
    run.assumptions += ["hook H3 re-exports DescriptorManager (its module is private)", "literals in the programs are numbers and booleans (how expr() quotes strings is C12's)",
                        "TLC's string concatenation and the harness's marker closures are trusted"]


def replay(path, seed):
    case = json.load(open(path))["case"]
    p = os.path.join(tlc.WORK, "describe-one.ndjson")
    rec = case["record"]
    core.write_ndjson(p, [rec])
    out, _ = core.run_vh(["describe-replay", p])
    bad = [o for o in out if "mismatch" in o]
    print(json.dumps({"sets": rec["sets"], "mismatch": bad}, indent=1))
    return 1 if bad else 0
