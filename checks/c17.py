"""C17 - value conversions preserve the value."""
import json, os
import core, tlc
import evalfam as ef


def check(run):
    thorough = run.tier == "thorough"
    run.rules.append("leg M/R: the accessor x variant matrix (decimal, integer, float, string, bool, list x every value of the 52-value universe): each accessor succeeds exactly on the variant "
                     "it names and returns the payload, integer() accepts exactly the integral numbers inside i64 whatever their scale (TLC: matrix total, IntegerIgnoresScale), every cell executed "
                     "on the real Value; non-trivial = cell on the accessor's own variant")
    run.rules.append("leg T: Value::from for i8..i128, u8..u128 on MIN, MAX, +-1 around 2^63, 2^64, 2^95, 2^96, 2^97 and random values, given to TLC as exact limb arrays (the same number, and no number at all "
                     "beyond 96 bits); integer() and float() on random decimals of every scale 0..28; f32/f64 incl. NaN, infinities, subnormals and values around the decimal range, given as exact "
                     "(mantissa, exponent) pairs (within 1e-14 / 1e-6 relative or 1e-28 absolute; non-finite or out-of-range must not become a number); round trips for strings, booleans, decimals, lists")
    res = tlc.run("mc/MCConv.tla", "mc/MCConv.cfg", workers=8, timeout=900)
    run.tlc("M:Conv/matrix", res)
    if res.violation:
        run.model_violation("Conv/matrix", res)
    else:
        recs = core.tlc_printed_records(res)
        path = os.path.join(tlc.WORK, "conv-replay.ndjson")
        core.write_ndjson(path, recs)
        out, _ = core.run_vh(["conv-replay", path])
        summ = [o for o in out if "summary" in o]
        if not summ or summ[0]["summary"]["cells"] != len(recs):
            raise tlc.ToolError("conv-replay did not run every cell")
        run.traces += len(recs)
        run.evaluations += len(recs)
        run.nontrivial += sum(1 for r in recs if r["out"][0] != "err")
        run.sample({"leg": "M/R", "cell": "%s(%s)" % (recs[60]["acc"], ef.show(recs[60]["v"])), "spec": ef.show_out(recs[60]["out"])})
        for o in out:
            if "mismatch" in o:
                run.violation("C17/accessor/%s" % o["acc"], "%s() on %s: spec %s, engine %s" % (o["acc"], ef.show(o["v"]), ef.show_out(o["expected"]), o["actual"]),
                              {"family": "conv", "record": recs[o["mismatch"]], "actual": o["actual"]})
        run.leg("R:Conv/matrix", cells=len(recs), mismatches=summ[0]["summary"]["mismatches"])
    tpath = os.path.join(tlc.WORK, "conv-trace.ndjson")
    core.run_vh(["conv-record", "--seed", run.seed, "--n", 400 if thorough else 40, "--out", tpath])
    recs = core.read_ndjson(tpath)
    parts, n = core.shard(recs, 16)
    files = []
    for i, part in enumerate(parts):
        p = os.path.join(tlc.WORK, "conv-trace-%d.ndjson" % i)
        core.write_ndjson(p, part)
        files.append(p)
    results = core.parallel([(lambda p=p: tlc.run("trace/TraceConv.tla", "trace/TraceConv.cfg", workers=1, env={"TRACE": p}, xmx="2g", timeout=1800)) for p in files])
    classes, nm = {}, 0
    for i, res in enumerate(results):
        run.tlc("T:TraceConv/%d" % i, res)
        if res.violation:
            raise tlc.ToolError("TraceConv failed: %s" % res.error_text[:1500])
        prs = core.tlc_printed_records(res)
        if not any(p.get("done") == len(parts[i]) for p in prs):
            raise tlc.ToolError("TraceConv did not consume every record")
        for p in prs:
            if "rec" in p:
                classes[p["class"]] = classes.get(p["class"], 0) + 1
            if "mismatch" in p:
                nm += 1
                rec = parts[i][p["mismatch"]]
                if p["class"] == "int-too-big":
                    key = "C17/from_int/%s/out-of-decimal-range" % rec["ty"]
                    desc = "Value::from(%s %s%d) is %s: the integer does not fit 96 bits and From cannot report it" % (rec["ty"], "-" if rec["n"][0] else "", sum(x * 10000 ** j for j, x in enumerate(rec["n"][1])),
                                                                                                               "a panic" if rec["actual"][0] == "panic" else "Number(%s)" % ef.show(rec["actual"]))
                elif p["class"] == "float-no-number":
                    key = "C17/from_float/%s/non-finite-or-out-of-range" % rec["ty"]
                    desc = "Value::from(%s %s) is %s: not representable, and From cannot report it" % (rec["ty"], rec.get("text", rec["class"]), "Number(%s)" % ef.show(rec["actual"]) if rec["actual"][0] == "num" else rec["actual"][0])
                else:
                    key = "C17/%s/%s" % (rec["kind"], rec.get("ty", rec.get("acc", "")))
                    desc = "conversion %s: engine result %s is not what the specification allows" % (json.dumps({k: v for k, v in rec.items() if k != "actual"})[:300], json.dumps(rec.get("actual", rec.get("back")))[:200])
                run.violation(key, desc, {"family": "conv-trace", "record": rec, "class": p["class"]})
    run.traces += len(recs)
    run.evaluations += len(recs)
    run.nontrivial += len(recs) - classes.get("accessor", 0)
    run.sample({"leg": "T", "record": {k: v for k, v in recs[5].items()}})
    run.leg("T:TraceConv", recorded=len(recs), classes=classes, mismatches=nm)
    run.exhaustive = False
    run.assumptions += ["floats are decomposed exactly into (sign, mantissa, exponent) by the harness", "f32 values are compared with the f32's own exact value",
                        "TLC, the limb encodings and the harness are trusted"]


def replay(path, seed):
    case = json.load(open(path))["case"]
    print(json.dumps(case, indent=1)[:3000])
    if case["family"] == "conv":
        p = os.path.join(tlc.WORK, "conv-one.ndjson")
        core.write_ndjson(p, [case["record"]])
        out, _ = core.run_vh(["conv-replay", p])
        return 1 if any("mismatch" in o for o in out) else 0
    # a recorded conversion: execute it again and let TLC judge the fresh result
    p = os.path.join(tlc.WORK, "conv-one.ndjson")
    core.write_ndjson(p, [case["record"]])
    out, _ = core.run_vh(["conv-one", p])
    core.write_ndjson(p, out)
    res = tlc.run("trace/TraceConv.tla", "trace/TraceConv.cfg", workers=1, env={"TRACE": p})
    bad = [x for x in core.tlc_printed_records(res) if "mismatch" in x]
    print("now:", json.dumps(out)[:600], "-> still violates" if bad else "-> conforms")
    return 1 if bad else 0
