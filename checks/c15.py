"""C15 - a failing or panicking handler is contained."""
import evalfam as ef


def faulted(r):
    return r["fault"][0] > 0 and r["st"] in ("err", "panic")


def check(run):
    thorough = run.tier == "thorough"
    run.rules.append("leg M/R: the program shapes of C07 (depth 1 all kinds, depth 2 compositions) with an error AND a panic injected at every invocation position of every handler kind (context "
                     "function by call and by bare name, global function, user prefix / infix / postfix / assignment operator): the machine stops at the fault (no later invocation), the context "
                     "lock is free and unpoisoned in every final state, the context equals the denotation at the fault point; the real evaluator is run on each and afterwards the same context is "
                     "used again (set / get / a fresh evaluation), an evaluation runs on another thread, a registration is made, and all five global mutexes are probed; the dispatch configurations of C08 (a name bound in the context, globally, both, as a variable, a built-in shadowed or replaced) with the fault at the first and second invocation; non-trivial = the fault fired")
    run.rules.append("leg T: random programs with random fault positions, same follow-ups, validated by TLC")
    # (the second pass runs every case through execute(text) on a second handle of the context: a panic must still reach the caller as an unwind there)
    ef.eval_model_and_replay(run, "faults-d1", ef.mceval_cfg("c15-d1", depth=1, full_faults=True), "C15", acts=[None, "noop+text"], sample_filter=faulted)
    ef.eval_model_and_replay(run, "faults-d2", ef.mceval_cfg("c15-d2", depth=2, full_faults=True, modes=("bare",) if not thorough else ("call", "bare", "mixed")), "C15", sample_filter=faulted)
    # a failing context function must not fall through to a registered function of the same name (nor a failing global to anything else)
    ef.eval_model_and_replay(run, "dispatch", ef.mceval_cfg("c15-dispatch", family="dispatch"), "C15", sample_filter=faulted)
    ef.eval_trace(run, "random", 20000 if thorough else 3000, run.seed + 9, "C15")
    run.exhaustive = False
    run.assumptions += ["a panic is observed with catch_unwind in the harness; 'no further handler' is observed through the harness's own log",
                        "programs are built directly as ExprAST values", "TLC, the JSON encodings and the harness comparison are trusted"]


def replay(path, seed):
    return ef.replay(path, seed)
