"""Evaluator family legs: operator tables (Builtins) shared by C03, C04, C06, C09."""
import json, os
import core, tlc


def mcb_cfg(name, family, idxset):
    path = os.path.join(tlc.WORK, "MCBuiltins-%s.cfg" % name)
    os.makedirs(tlc.WORK, exist_ok=True)
    with open(path, "w") as f:
        f.write('SPECIFICATION Spec\nCONSTANTS Family = "%s"\n IdxSet <- %s\nCHECK_DEADLOCK FALSE\nINVARIANT Total\n' % (family, idxset))
    return path


def show(v):
    """Compact rendering of a JSON-encoded value for samples and messages."""
    t = v[0]
    if t == "num":
        m = sum(x * 10000 ** i for i, x in enumerate(v[2]))
        s = str(m)
        if v[3] > 0:
            s = s.rjust(v[3] + 1, "0")
            s = s[:-v[3]] + "." + s[-v[3]:]
        return ("-" if v[1] else "") + s
    if t == "bool":
        return "true" if v[1] else "false"
    if t == "str":
        return "'" + "".join(chr(c) for c in v[1]) + "'"
    if t == "list":
        return "[" + ",".join(show(x) for x in v[1]) + "]"
    if t == "map":
        return "{" + ",".join(show(k) + ":" + show(x) for k, x in v[1]) + "}"
    return "None"


def rem_alignment_overflows(rec):
    """The input class of the known finding in rust_decimal 1.31's remainder (its `rem_full` path): `a % b` / `a %= b` where the
    dividend has the smaller scale, cannot be scaled up to the divisor's scale within 96 bits, and the divisor's mantissa does
    not fit 32 bits.  (Other remainders - small divisors, equal scales - take other code paths and are exact.)"""
    if rec.get("op") not in ("%", "%=") or len(rec["args"]) != 2 or any(a[0] != "num" for a in rec["args"]):
        return False
    m = [sum(x * 10000 ** i for i, x in enumerate(a[2])) for a in rec["args"]]
    sc = [a[3] for a in rec["args"]]
    return sc[0] < sc[1] and m[1] >= 2 ** 32 and m[0] * 10 ** (sc[1] - sc[0]) > 2 ** 96 - 1


def builtin_key(pid, rec, kind, actual):
    if kind == "value" and actual[0] == "ok" and rem_alignment_overflows(rec):
        return "%s/rem/alignment-exceeds-96-bits" % pid
    return "%s/builtins/%s/%s" % (pid, kind, rec["op"])


def show_case(r):
    a = [show(x) for x in r["args"]]
    if r["kind"] == "bin":
        return "%s %s %s" % (a[0], r["op"], a[1])
    if r["kind"] == "un":
        return "%s %s" % (r["op"], a[0])
    if r["kind"] == "post":
        return "%s %s" % (a[0], r["op"])
    return "%s(%s)" % (r["op"], ",".join(a))


def show_out(o):
    if o[0] == "ok":
        return "Ok(" + show(o[1]) + ")"
    if o[0] == "any":
        return "one of {" + ", ".join(show_out(x) for x in o[1]) + "}"
    if o[0] == "div":
        return "approx " + show(o[1]) + "/" + show(o[2])
    return {"err": "Err", "dc": "don't care", "panic": "PANIC"}.get(o[0], str(o))


def builtins_model_and_replay(run, name, family, idxset, pid, profiles=("dev",), nontrivial=None):
    res = tlc.run("mc/MCBuiltins.tla", mcb_cfg(name, family, idxset), workers=16, timeout=2400)
    run.tlc("M:Builtins/" + name, res)
    if res.violation:
        run.model_violation("Builtins/" + name, res)
        return []
    recs = core.tlc_printed_records(res)
    if not recs:
        raise tlc.ToolError("Builtins/%s printed nothing" % name)
    path = os.path.join(tlc.WORK, "builtins-replay-%s.ndjson" % name)
    tpath = os.path.join(tlc.WORK, "builtins-divtrace-%s.ndjson" % name)
    core.write_ndjson(path, recs)
    nt = nontrivial or (lambda r: r["out"][0] in ("ok", "any", "div"))
    run.nontrivial += sum(1 for r in recs if nt(r))
    picks = [r for r in recs if nt(r)]
    for r in picks[:: max(1, len(picks) // 2)][:2]:
        run.sample({"leg": "M/R", "config": name, "case": show_case(r), "spec": show_out(r["out"])})
    for prof in profiles:
        out, _ = core.run_vh(["builtins-replay", path, "--trace-out", tpath], profile=prof, timeout=1800)
        summ = [o for o in out if "summary" in o]
        if not summ:
            raise tlc.ToolError("builtins-replay gave no summary (%s)" % name)
        s = summ[0]["summary"]
        run.traces += s["applications"]
        run.evaluations += s["applications"]
        run.dontcare += s["dontcare"]
        for o in out:
            if "mismatch" in o:
                rec = recs[o["mismatch"]]
                kind = "panic" if o["actual"][0] == "panic" else ("err-expected" if o["expected"][0] == "err" else "value")
                run.violation(builtin_key(pid, rec, kind, o["actual"]),
                              "%s [%s build%s]: spec %s, engine %s (%s)" % (show_case(rec), prof, ", operands as literals" if o["literals"] else "", show_out(o["expected"]), show_out(o["actual"]), o["why"]),
                              {"family": "builtins", "record": rec, "actual": o["actual"], "profile": prof, "literals": o["literals"]})
        run.leg("R:Builtins/%s/%s" % (name, prof), applications=s["applications"], mismatches=s["mismatches"], dontcare=s["dontcare"], expected_err=s["expected_err"])
    # inexact quotients: the numeric check is TLC's
    if os.path.exists(tpath) and os.path.getsize(tpath) > 0:
        validate_builtins_trace(run, "div-" + name, core.read_ndjson(tpath), pid, shards=4)
    return recs


def validate_builtins_trace(run, name, recs, pid, shards=16):
    parts, k = core.shard(recs, shards)
    files = []
    for i, part in enumerate(parts):
        p = os.path.join(tlc.WORK, "builtins-trace-%s-%d.ndjson" % (name, i))
        core.write_ndjson(p, part)
        files.append(p)
    results = core.parallel([(lambda p=p: tlc.run("trace/TraceBuiltins.tla", "trace/TraceBuiltins.cfg", workers=1, env={"TRACE": p}, xmx="2g", timeout=2400)) for p in files])
    nm = 0
    classes = {}
    for i, res in enumerate(results):
        run.tlc("T:TraceBuiltins/%s/%d" % (name, i), res)
        if res.violation:
            raise tlc.ToolError("TraceBuiltins failed: %s\n%s" % (res.violation, res.error_text[:2000]))
        prs = core.tlc_printed_records(res)
        if not any(p.get("done") == len(parts[i]) for p in prs):
            raise tlc.ToolError("TraceBuiltins did not consume every record (%s/%d)" % (name, i))
        for p in prs:
            if "rec" in p:
                classes[p["class"]] = classes.get(p["class"], 0) + 1
            if "mismatch" in p:
                nm += 1
                rec = parts[i][p["mismatch"]]
                kind = "panic" if rec["actual"][0] == "panic" else ("err-expected" if p["expected"][0] == "err" else "value")
                run.violation(builtin_key(pid, rec, kind, rec["actual"]), "%s: spec %s, engine %s" % (show_case(rec), show_out(p["expected"]), show_out(rec["actual"])),
                              {"family": "builtins-trace", "record": rec, "expected": p["expected"]})
    run.traces += len(recs)
    run.dontcare += classes.get("dc", 0)
    run.leg("T:TraceBuiltins/" + name, recorded=len(recs), classes=classes, mismatches=nm)
    return classes


def builtins_trace(run, name, n, seed, pid, extra=None):
    path = os.path.join(tlc.WORK, "builtins-trace-%s.ndjson" % name)
    core.run_vh(["builtins-record", "--seed", seed, "--n", n, "--out", path] + (extra or []))
    recs = core.read_ndjson(path)
    classes = validate_builtins_trace(run, name, recs, pid)
    run.evaluations += len(recs)
    run.nontrivial += len({json.dumps([r["kind"], r["op"], r["args"]]) for r in recs}) - classes.get("err", 0) // 2
    for r in recs[:2]:
        run.sample({"leg": "T", "case": show_case(r), "engine": show_out(r["actual"])})


def replay(path, seed):
    case = json.load(open(path))["case"]
    if case["family"] in ("builtins", "builtins-trace"):
        rec = dict(case["record"])
        if "out" not in rec:
            rec["out"] = case["expected"]
        p = os.path.join(tlc.WORK, "builtins-replay-one.ndjson")
        core.write_ndjson(p, [rec])
        out, _ = core.run_vh(["builtins-replay", p], profile=case.get("profile", "dev"))
        bad = [o for o in out if "mismatch" in o]
        print(json.dumps({"case": show_case(rec), "spec": show_out(rec["out"]), "mismatch": [{"why": b["why"], "engine": show_out(b["actual"])} for b in bad]}, indent=1))
        return 1 if bad else 0
    if case["family"] in ("eval", "eval-trace"):
        return eval_replay_one(path, seed)
    print("no replay for family", case["family"])
    return 2


# ---- programs with observable handlers (Eval machine / Den) -------------------------------------------

EVAL_INV = "MTypeOK AgreesWithDen NoLockAcrossHandler NoPoison NoDeadlock StopAtFault"


def mceval_cfg(name, family="shapes", depth=1, modes=("call", "bare", "mixed"), full_faults=True, emit=True, chain=2, switches=None, inv=None, mutators=False):
    sw = dict(BareRefHoldsLock=False, BothBranches=False, ContinueAfterErr=False)
    sw.update(switches or {})
    path = os.path.join(tlc.WORK, "MCEval-%s.cfg" % name)
    os.makedirs(tlc.WORK, exist_ok=True)
    extra = " LeftToRight AtMostOnce" if family == "shapes" else ""
    with open(path, "w") as f:
        f.write("SPECIFICATION Spec\nCONSTANTS Depth = %d\n LeafModes = {%s}\n FullFaults = %s\n Emit = %s\n Family = \"%s\"\n ChainLen = %d\n Mutators = %s\n"
                % (depth, ", ".join('"%s"' % m for m in modes), str(full_faults).upper(), str(emit).upper(), family, chain, str(mutators).upper()))
        for k, v in sw.items():
            f.write(" %s = %s\n" % (k, str(v).upper()))
        f.write("INVARIANT %s%s\n" % (inv or (EVAL_INV + extra), " EmitOnce" if emit else ""))
    return path


def show_prog(p):
    t = p[0]
    if t == "lit":
        return show(p[1])
    if t == "none":
        return "None"
    if t == "ref":
        return p[1]
    if t == "call":
        return "%s(%s)" % (p[1], ",".join(show_prog(a) for a in p[2]))
    if t == "un":
        return "%s %s" % (p[1], show_prog(p[2]))
    if t == "post":
        return "%s %s" % (show_prog(p[1]), p[2])
    if t == "bin":
        return "(%s %s %s)" % (show_prog(p[2]), p[1], show_prog(p[3]))
    if t == "tern":
        return "(%s ? %s : %s)" % tuple(show_prog(x) for x in p[1:4])
    if t == "list":
        return "[" + ",".join(show_prog(a) for a in p[1]) + "]"
    if t == "map":
        return "{" + ",".join(show_prog(k) + ":" + show_prog(v) for k, v in p[1]) + "}"
    if t == "stmt":
        return "; ".join(show_prog(a) for a in p[1])
    return str(p)


def eval_replay_supervised(run, name, path, total, pid, act=None, timeout=45, max_restarts=4):
    """Replay in a child process that announces each case before running it; a hang (no announcement for `timeout` seconds:
    deadlock in a re-entrant handler) or an abort is attributed to the announced case and the replay resumes after it."""
    import subprocess
    core.build_harness("dev")
    recs = core.read_ndjson(path)
    start, restarts = 0, 0
    ran = mism = dc = 0
    while start < total:
        cmd = [core.vh_path(), "eval-replay", path, "--from", str(start), "--to", str(total), "--progress"] + (["--act", act] if act else [])
        rc, out, timed, errtxt = core.run_stall_watchdog(cmd, stall_s=timeout)
        if timed:
            rc = -1
        if rc == 2:
            raise tlc.ToolError("eval-replay tool error: %s" % errtxt[-500:])
        lines = []
        for l in out.splitlines():
            if l.startswith("{"):
                try:
                    lines.append(json.loads(l))
                except Exception:
                    pass
        for l in lines:
            if "mismatch" in l:
                mism += 1
                rec = recs[l["mismatch"]]
                kinds = "; ".join(l["why"])
                key = "lock-held" if "lock held" in kinds else ("poison" if "poison" in kinds or "afterwards" in kinds else ("order" if "log differs" in kinds else "outcome"))
                run.violation("%s/eval/%s" % (pid, key), "%s  [fault %s%s]: %s" % (show_prog(rec["prog"]), rec["fault"], ", handlers " + act if act else "", kinds),
                              {"family": "eval", "record": rec, "act": act, "engine": l["engine"], "why": l["why"]})
        summ = [l for l in lines if "summary" in l]
        if rc == 0 and summ:
            ran += summ[0]["summary"]["cases"]
            dc += summ[0]["summary"]["dontcare"]
            break
        ats = [l["at"] for l in lines if "at" in l]
        culprit = ats[-1] if ats else start
        rec = recs[culprit]
        run.violation("%s/eval/%s" % (pid, "deadlock" if timed else "abort"), "%s [handlers %s]: the evaluation %s" % (show_prog(rec["prog"]), act or "plain", "never returned (deadlock)" if timed else "killed the process"),
                      {"family": "eval", "record": rec, "act": act, "outcome": "timeout" if timed else "abort"})
        ran += culprit - start + 1
        start = culprit + 1
        restarts += 1
        if restarts > max_restarts:
            run.leg("R:Eval/%s%s" % (name, "/" + act if act else ""), note="stopped after %d hangs/aborts; %d cases not examined" % (restarts, total - start))
            break
    run.traces += ran
    run.evaluations += ran
    run.dontcare += dc
    run.leg("R:Eval/%s%s" % (name, "/" + act if act else ""), cases=ran, mismatches=mism)


def eval_model_and_replay(run, name, cfg, pid, acts=(None,), timeout=2400, sample_filter=None):
    res = tlc.run("mc/MCEval.tla", cfg, workers=16, timeout=timeout)
    run.tlc("M:Eval/" + name, res)
    if res.violation:
        run.model_violation("Eval/" + name, res)
        return []
    recs = core.tlc_printed_records(res)
    if not recs:
        raise tlc.ToolError("Eval/%s printed nothing" % name)
    path = os.path.join(tlc.WORK, "eval-replay-%s.ndjson" % name)
    core.write_ndjson(path, recs)
    nt = [r for r in recs if len(r["log"]) >= 2 or (sample_filter and sample_filter(r))]
    run.nontrivial += len(nt)
    for r in (nt or recs)[:: max(1, len(nt or recs) // 2)][:2]:
        run.sample({"leg": "M/R", "config": name, "program": show_prog(r["prog"]), "fault": r["fault"], "spec_status": r["st"], "spec_log": [e[0] for e in r["log"]]})
    for act in acts:
        eval_replay_supervised(run, name, path, len(recs), pid, act)
    return recs


def eval_trace(run, name, n, seed, pid, depth=4, shards=16, threads=1):
    path = os.path.join(tlc.WORK, "eval-trace-%s.ndjson" % name)
    core.run_vh(["eval-record", "--seed", seed, "--n", n, "--depth", depth, "--out", path] + (["--threads", threads] if threads > 1 else []), timeout=1800)
    recs = core.read_ndjson(path)
    # a worker thread that died (a panic outside the guarded evaluation, e.g. on a poisoned engine lock) leaves its cases without a record
    lost = sum(1 for r in recs if r.get("lost"))
    if lost:
        run.violation("%s/eval/lost" % pid, "%d recorded evaluations never produced an outcome: the thread evaluating them died (an engine lock poisoned or held?)" % lost,
                      {"family": "eval-trace", "lost": lost})
        recs = [r for r in recs if not r.get("lost")]
    parts, k = core.shard(recs, shards)
    files = []
    for i, part in enumerate(parts):
        p = os.path.join(tlc.WORK, "eval-trace-%s-%d.ndjson" % (name, i))
        core.write_ndjson(p, part)
        files.append(p)
    results = core.parallel([(lambda p=p: tlc.run("trace/TraceEval.tla", "trace/TraceEval.cfg", workers=1, env={"TRACE": p}, xmx="2g", timeout=2400)) for p in files])
    nm = 0
    sts = {}
    for i, res in enumerate(results):
        run.tlc("T:TraceEval/%s/%d" % (name, i), res)
        if res.violation:
            raise tlc.ToolError("TraceEval failed: %s\n%s" % (res.violation, res.error_text[:2000]))
        prs = core.tlc_printed_records(res)
        if not any(p.get("done") == len(parts[i]) for p in prs):
            raise tlc.ToolError("TraceEval did not consume every record (%s/%d)" % (name, i))
        for p in prs:
            if "rec" in p:
                sts[p["st"]] = sts.get(p["st"], 0) + 1
                if p["calls"] >= 2:
                    run.nontrivial += 1
            if "mismatch" in p:
                nm += 1
                rec = parts[i][p["mismatch"]]
                probs = p["problems"]
                key = "lock-held" if "lock-held-in-handler" in probs else ("poison" if ("poisoned" in probs or "followup" in probs) else ("order" if "log" in probs else "outcome"))
                run.violation("%s/eval/%s" % (pid, key), "%s [fault %s]: engine %s, spec %s (%s)" % (show_prog(rec["prog"])[:300], rec["fault"], rec["obs"]["st"], p["spec"]["st"], ",".join(probs)),
                              {"family": "eval-trace", "record": rec, "problems": probs, "spec": p["spec"]})
    run.traces += len(recs)
    run.evaluations += len(recs)
    run.dontcare += sts.get("dc", 0)
    run.sample({"leg": "T", "program": show_prog(recs[0]["prog"])[:200], "engine_status": recs[0]["obs"]["st"], "engine_log": [e[0] for e in recs[0]["obs"]["log"]]})
    run.leg("T:TraceEval/" + name, recorded=len(recs), spec_status=sts, mismatches=nm)


def eval_replay_one(path, seed):
    case = json.load(open(path))["case"]
    rec = dict(case["record"])
    rec.pop("obs", None)
    if "st" not in rec:
        rec.update({"st": case["spec"]["st"], "val": case["spec"]["val"], "log": case["spec"]["log"], "ctx": case["record"].get("obs", {}).get("ctx", {})})
    p = os.path.join(tlc.WORK, "eval-replay-one.ndjson")
    core.write_ndjson(p, [rec])
    import subprocess
    core.build_harness("dev")
    try:
        q = subprocess.run([core.vh_path(), "eval-replay", p] + (["--act", case["act"]] if case.get("act") else []), stdout=subprocess.PIPE, stderr=subprocess.PIPE, text=True, timeout=60)
    except subprocess.TimeoutExpired:
        print("TIMEOUT (deadlock)")
        return 1
    print(q.stdout[-3000:])
    return 1 if ('"mismatch"' in q.stdout or q.returncode != 0) else 0
