"""Evaluator family legs: operator tables (Builtins) shared by C03, C04, C06, C09."""
import json, os
import core, tlc


def mcb_cfg(name, family, idxset):
    path = os.path.join(tlc.WORK, "MCBuiltins-%s.cfg" % name)
    os.makedirs(tlc.WORK, exist_ok=True)
    with open(path, "w") as f:
        f.write('SPECIFICATION Spec\nCONSTANTS Family = "%s"\n IdxSet <- %s\nCHECK_DEADLOCK FALSE\nINVARIANT Total\n' % (family, idxset))
    return path


def show(v):
    """Compact rendering of a JSON-encoded value for samples and messages."""
    t = v[0]
    if t == "num":
        m = sum(x * 10000 ** i for i, x in enumerate(v[2]))
        s = str(m)
        if v[3] > 0:
            s = s.rjust(v[3] + 1, "0")
            s = s[:-v[3]] + "." + s[-v[3]:]
        return ("-" if v[1] else "") + s
    if t == "bool":
        return "true" if v[1] else "false"
    if t == "str":
        return "'" + "".join(chr(c) for c in v[1]) + "'"
    if t == "list":
        return "[" + ",".join(show(x) for x in v[1]) + "]"
    if t == "map":
        return "{" + ",".join(show(k) + ":" + show(x) for k, x in v[1]) + "}"
    return "None"


def show_case(r):
    a = [show(x) for x in r["args"]]
    if r["kind"] == "bin":
        return "%s %s %s" % (a[0], r["op"], a[1])
    if r["kind"] == "un":
        return "%s %s" % (r["op"], a[0])
    if r["kind"] == "post":
        return "%s %s" % (a[0], r["op"])
    return "%s(%s)" % (r["op"], ",".join(a))


def show_out(o):
    if o[0] == "ok":
        return "Ok(" + show(o[1]) + ")"
    if o[0] == "any":
        return "one of {" + ", ".join(show_out(x) for x in o[1]) + "}"
    if o[0] == "div":
        return "approx " + show(o[1]) + "/" + show(o[2])
    return {"err": "Err", "dc": "don't care", "panic": "PANIC"}.get(o[0], str(o))


def builtins_model_and_replay(run, name, family, idxset, pid, profiles=("dev",), nontrivial=None):
    res = tlc.run("mc/MCBuiltins.tla", mcb_cfg(name, family, idxset), workers=16, timeout=2400)
    run.tlc("M:Builtins/" + name, res)
    if res.violation:
        run.model_violation("Builtins/" + name, res)
        return []
    recs = core.tlc_printed_records(res)
    if not recs:
        raise tlc.ToolError("Builtins/%s printed nothing" % name)
    path = os.path.join(tlc.WORK, "builtins-replay-%s.ndjson" % name)
    tpath = os.path.join(tlc.WORK, "builtins-divtrace-%s.ndjson" % name)
    core.write_ndjson(path, recs)
    nt = nontrivial or (lambda r: r["out"][0] in ("ok", "any", "div"))
    run.nontrivial += sum(1 for r in recs if nt(r))
    picks = [r for r in recs if nt(r)]
    for r in picks[:: max(1, len(picks) // 2)][:2]:
        run.sample({"leg": "M/R", "config": name, "case": show_case(r), "spec": show_out(r["out"])})
    for prof in profiles:
        out, _ = core.run_vh(["builtins-replay", path, "--trace-out", tpath], profile=prof, timeout=1800)
        summ = [o for o in out if "summary" in o]
        if not summ:
            raise tlc.ToolError("builtins-replay gave no summary (%s)" % name)
        s = summ[0]["summary"]
        run.traces += s["applications"]
        run.evaluations += s["applications"]
        run.dontcare += s["dontcare"]
        for o in out:
            if "mismatch" in o:
                rec = recs[o["mismatch"]]
                kind = "panic" if o["actual"][0] == "panic" else ("err-expected" if o["expected"][0] == "err" else "value")
                run.violation("%s/builtins/%s/%s" % (pid, kind, o["op"]),
                              "%s [%s build%s]: spec %s, engine %s (%s)" % (show_case(rec), prof, ", operands as literals" if o["literals"] else "", show_out(o["expected"]), show_out(o["actual"]), o["why"]),
                              {"family": "builtins", "record": rec, "actual": o["actual"], "profile": prof, "literals": o["literals"]})
        run.leg("R:Builtins/%s/%s" % (name, prof), applications=s["applications"], mismatches=s["mismatches"], dontcare=s["dontcare"], expected_err=s["expected_err"])
    # inexact quotients: the numeric check is TLC's
    if os.path.exists(tpath) and os.path.getsize(tpath) > 0:
        validate_builtins_trace(run, "div-" + name, core.read_ndjson(tpath), pid, shards=4)
    return recs


def validate_builtins_trace(run, name, recs, pid, shards=16):
    parts, k = core.shard(recs, shards)
    files = []
    for i, part in enumerate(parts):
        p = os.path.join(tlc.WORK, "builtins-trace-%s-%d.ndjson" % (name, i))
        core.write_ndjson(p, part)
        files.append(p)
    results = core.parallel([(lambda p=p: tlc.run("trace/TraceBuiltins.tla", "trace/TraceBuiltins.cfg", workers=1, env={"TRACE": p}, xmx="2g", timeout=2400)) for p in files])
    nm = 0
    classes = {}
    for i, res in enumerate(results):
        run.tlc("T:TraceBuiltins/%s/%d" % (name, i), res)
        if res.violation:
            raise tlc.ToolError("TraceBuiltins failed: %s\n%s" % (res.violation, res.error_text[:2000]))
        prs = core.tlc_printed_records(res)
        if not any(p.get("done") == len(parts[i]) for p in prs):
            raise tlc.ToolError("TraceBuiltins did not consume every record (%s/%d)" % (name, i))
        for p in prs:
            if "rec" in p:
                classes[p["class"]] = classes.get(p["class"], 0) + 1
            if "mismatch" in p:
                nm += 1
                rec = parts[i][p["mismatch"]]
                kind = "panic" if rec["actual"][0] == "panic" else ("err-expected" if p["expected"][0] == "err" else "value")
                run.violation("%s/builtins/%s/%s" % (pid, kind, rec["op"]), "%s: spec %s, engine %s" % (show_case(rec), show_out(p["expected"]), show_out(rec["actual"])),
                              {"family": "builtins-trace", "record": rec, "expected": p["expected"]})
    run.traces += len(recs)
    run.dontcare += classes.get("dc", 0)
    run.leg("T:TraceBuiltins/" + name, recorded=len(recs), classes=classes, mismatches=nm)
    return classes


def builtins_trace(run, name, n, seed, pid, extra=None):
    path = os.path.join(tlc.WORK, "builtins-trace-%s.ndjson" % name)
    core.run_vh(["builtins-record", "--seed", seed, "--n", n, "--out", path] + (extra or []))
    recs = core.read_ndjson(path)
    classes = validate_builtins_trace(run, name, recs, pid)
    run.evaluations += len(recs)
    run.nontrivial += len({json.dumps([r["kind"], r["op"], r["args"]]) for r in recs}) - classes.get("err", 0) // 2
    for r in recs[:2]:
        run.sample({"leg": "T", "case": show_case(r), "engine": show_out(r["actual"])})


def replay(path, seed):
    case = json.load(open(path))["case"]
    if case["family"] in ("builtins", "builtins-trace"):
        rec = dict(case["record"])
        if "out" not in rec:
            rec["out"] = case["expected"]
        p = os.path.join(tlc.WORK, "builtins-replay-one.ndjson")
        core.write_ndjson(p, [rec])
        out, _ = core.run_vh(["builtins-replay", p], profile=case.get("profile", "dev"))
        bad = [o for o in out if "mismatch" in o]
        print(json.dumps({"case": show_case(rec), "spec": show_out(rec["out"]), "mismatch": [{"why": b["why"], "engine": show_out(b["actual"])} for b in bad]}, indent=1))
        return 1 if bad else 0
    print("no replay for family", case["family"])
    return 2
