"""Concurrency family legs (C13, C08 histories, C16): Engine model configurations, scenarios run in fresh processes,
recorded event lists validated by TLC against the atomic engine (TraceEngine)."""
import itertools, json, os, random, subprocess
import core, tlc

ENGINE_INV = "TypeOK NoPartialInit BuiltinsComplete OneLockAtATime NoLockInHandler LinearizableOrF1"
CELLS = [("func", "f"), ("func", "g2"), ("func", "min"), ("prefix", "upre"), ("prefix", "-"), ("infix", "uin"), ("infix", "+"), ("postfix", "upost"), ("postfix", "++")]


def engine_cfg(name, threads, progs, scripts="NoScripts", sw=None, inv=ENGINE_INV, spec="Spec", props="EvalReadsOnly"):
    s = dict(FlagBeforeFill=False, EntryWithoutInit=False, HandlerUnderLock=False)
    s.update(sw or {})
    p = os.path.join(tlc.WORK, "MCEngine-%s.cfg" % name)
    os.makedirs(tlc.WORK, exist_ok=True)
    with open(p, "w") as f:
        f.write("SPECIFICATION %s\nCONSTANTS Threads <- %s\n Progs <- %s\n Names <- NM\n Scripts <- %s\n" % (spec, threads, progs, scripts))
        for k, v in s.items():
            f.write(" %s = %s\n" % (k, str(v).upper()))
        if inv:
            f.write("INVARIANT %s\n" % inv)
        if props:
            f.write("PROPERTY %s\n" % props)
    return p


MODEL_CONFIGS = [("initA", "T2", "PInitA", {}), ("initB", "T3", "PInitB", {}), ("initC", "T2", "PInitC", {}),
                 ("reent", "T2", "PReent", {"scripts": "ScriptsR"}), ("reent2", "T2", "PReent2", {"scripts": "ScriptsR"}), ("fine-F1", "T2", "PF1", {}),
                 ("termination", "T2", "PInitA", {"spec": "FairSpec", "props": "Terminates", "inv": "TypeOK"})]


def model(run, which=None):
    for name, th, pr, kw in MODEL_CONFIGS:
        if which and name not in which:
            continue
        res = tlc.run("mc/MCEngine.tla", engine_cfg(name, th, pr, **kw), workers=8, timeout=900)
        run.tlc("M:Engine/" + name, res)
        if res.violation:
            run.model_violation("Engine/" + name, res)


def run_scenario(sc, timeout=60):
    """One fresh process.  Returns (events, summary) or raises ToolError; an abort of the process is reported as summary {"aborted": rc}."""
    core.build_harness("dev")
    path = os.path.join(tlc.WORK, "scenario-%d-%d.json" % (os.getpid(), random.getrandbits(30)))
    json.dump(sc, open(path, "w"))
    try:
        p = subprocess.run([core.vh_path(), "engine-run", path], cwd=core.VERIF, stdout=subprocess.PIPE, stderr=subprocess.PIPE, text=True, timeout=timeout)
    except subprocess.TimeoutExpired:
        os.remove(path)
        return [], {"deadlock": True, "hung": True}
    os.remove(path)
    if p.returncode == 2:
        raise tlc.ToolError("engine-run tool error: %s" % p.stderr[-500:])
    lines = [json.loads(l) for l in p.stdout.splitlines() if l.startswith("{")]
    summ = [l for l in lines if "summary" in l]
    evs = [l for l in lines if "summary" not in l]
    if p.returncode != 0 or not summ:
        return evs, {"aborted": p.returncode, "stderr": p.stderr[-300:]}
    return evs, summ[0]["summary"]


def validate_traces(run, name, traces, pid, key_prefix, per_file=12):
    """traces: list of (scenario, events).  Several runs per file, separated by reset events; TLC (one worker, depth-first queue)
    must find linearization points that explain every result of every run."""
    # runs that re-register an operator at another precedence often are F1 instances: validate those one per file
    def is_pin(sc):
        return any(c.get("name") == "pin" for th in sc["threads"] for c in th)
    plain = [t for t in traces if not is_pin(t[0])]
    groups = [plain[i:i + per_file] for i in range(0, len(plain), per_file)] + [[t] for t in traces if is_pin(t[0])]
    files = []
    for gi, g in enumerate(groups):
        p = os.path.join(tlc.WORK, "engine-trace-%s-%d.ndjson" % (name, gi))
        recs = []
        for k, (sc, evs) in enumerate(g):
            if k > 0:
                recs.append({"ev": "reset", "seq": 0, "t": "t1"})
            recs += evs
        core.write_ndjson(p, recs)
        files.append(p)
    results = core.parallel([(lambda p=p: tlc.run("trace/TraceEngine.tla", "trace/TraceEngine.cfg", workers=1, env={"TRACE": p}, deque=True, xmx="2g", timeout=900)) for p in files])
    rejected = []
    suspects = []
    for gi, res in enumerate(results):
        run.tlc("T:TraceEngine/%s/%d" % (name, gi), res)
        if res.violation and res.violation != "NotDone":
            raise tlc.ToolError("TraceEngine failed: %s\n%s" % (res.violation, res.error_text[:1500]))
        prs = core.tlc_printed_records(res)
        rej = [p for p in prs if "rejected_at" in p]
        if res.violation != "NotDone" and not rej:
            raise tlc.ToolError("TraceEngine gave no verdict for %s" % files[gi])
        if rej and len(groups[gi]) == 1:
            rejected.append((groups[gi][0][0], groups[gi][0][1], rej[0]))
        elif rej:
            suspects += groups[gi]
    # runs of rejected files are validated one by one, in parallel (at most 48 of them: enough to report)
    skipped = max(0, len(suspects) - 48)
    suspects = suspects[:48]

    def single(k):
        p1 = os.path.join(tlc.WORK, "engine-trace-%s-single-%d.ndjson" % (name, k))
        core.write_ndjson(p1, suspects[k][1])
        return tlc.run("trace/TraceEngine.tla", "trace/TraceEngine.cfg", workers=1, env={"TRACE": p1}, deque=True, xmx="2g", timeout=900)
    for (sc, evs), r1 in zip(suspects, core.parallel([(lambda k=k: single(k)) for k in range(len(suspects))])):
        run.tlc("T:TraceEngine/%s/single" % name, r1)
        rj = [p for p in core.tlc_printed_records(r1) if "rejected_at" in p] if r1.violation != "NotDone" else []
        if rj:
            rejected.append((sc, evs, rj[0]))
    if skipped:
        run.leg("T:TraceEngine/%s/note" % name, note="%d further runs of rejected files were not examined individually" % skipped)
    run.traces += len(traces)
    run.evaluations += len(traces)
    # is a rejected run a behaviour of the FINE-GRAINED engine (an evaluation = several critical sections)?  Then it is an instance
    # of the known finding F1, not a new violation.  (validated in parallel, one TLC per run)
    def fine(k):
        p2 = os.path.join(tlc.WORK, "engine-trace-fine-%s-%d.ndjson" % (name, k))
        core.write_ndjson(p2, rejected[k][1])
        return tlc.run("trace/TraceEngine.tla", "trace/TraceEngineFine.cfg", workers=1, env={"TRACE": p2}, deque=True, xmx="2g", timeout=900)
    fines = core.parallel([(lambda k=k: fine(k)) for k in range(len(rejected))])
    for (sc, evs, rj), r2 in zip(rejected, fines):
        ev = rj.get("event", {})
        run.tlc("T:TraceEngineFine/%s" % name, r2)
        if r2.violation == "NotDone":
            run.violation("%s/nonatomic-eval/reregister-overlaps-multi-lookup" % key_prefix.split("/")[0],
                          "a run is explained by the fine-grained engine only: an evaluation read the precedence of `pin` before and its handler after an overlapping re-registration (result %s)" % ev.get("res"),
                          {"family": "engine", "scenario": sc, "events": evs, "rejected": rj})
            continue
        kind = "partial-init" if ev.get("site") == "access" else ("panic" if str(ev.get("res", "")).startswith("panic") else "not-linearizable")
        run.violation("%s/%s" % (key_prefix, kind), "recorded run is not a behaviour of the atomic engine: rejected at event %s" % json.dumps(ev)[:300],
                      {"family": "engine", "scenario": sc, "events": evs, "rejected": rj})
    run.leg("T:TraceEngine/" + name, runs=len(traces), rejected=len(rejected))
    return rejected


# an infix operator re-registered with *different precedences*: the probe program 2 * 3 pin 4 tells the handler and the grouping
# apart (handler k returns the odd number k: (2*3) pin 4 = k at low precedence, 2 * (3 pin 4) = 2k at high precedence)
PIN_CLASSES = {"none": ["num", False, [4], 0]}
for _k in (1, 3, 5, 7):
    PIN_CLASSES["p%dlo" % _k] = ["num", False, [_k], 0]
    PIN_CLASSES["p%dhi" % _k] = ["num", False, [2 * _k], 0]


def pin_reg(k, hi):
    return {"op": "reg", "r": "infix", "name": "pin", "val": "p%d%s" % (k, "hi" if hi else "lo"), "prec": 130 if hi else 100, "assoc": "L", "ret": ["num", False, [k], 0]}


PIN_EXEC = {"op": "exec", "r": "infix", "name": "pin", "text": "2 * 3 pin 4", "classes": PIN_CLASSES,
            "parts": {"p%d%s" % (k, c): ["p%d" % k, c] for k in (1, 3, 5, 7) for c in ("lo", "hi")},
            "compose": {"p%d" % k: {"lo": "p%dlo" % k, "hi": "p%dhi" % k} for k in (1, 3, 5, 7)}}


def free_scenarios(seed, n, max_threads):
    rnd = random.Random(seed)
    out = []
    for k in range(n):
        nt = rnd.randint(2, max_threads)
        cells = rnd.sample(CELLS, rnd.randint(1, 3))
        hid = itertools.count(1)
        threads = []
        for t in range(nt):
            calls = []
            for c in range(rnd.randint(1, 3)):
                r, nm = rnd.choice(cells)
                if rnd.random() < 0.45:
                    call = {"op": "reg", "r": r, "name": nm, "val": "h%d" % next(hid)}
                    if r == "infix":
                        call.update({"prec": 110 if nm == "+" else 115, "assoc": "L"})
                    calls.append(call)
                else:
                    calls.append({"op": "exec", "r": r, "name": nm})
            threads.append(calls)
        if k % 5 == 4:
            # every fifth run: one thread keeps re-registering `pin` at alternating precedences while the others evaluate with it
            threads = [[pin_reg(kk, (kk // 2) % 2 == 0) for kk in (1, 3, 5, 7)][: rnd.randint(2, 4)]] + [[dict(PIN_EXEC) for _ in range(rnd.randint(1, 2))] for _ in range(min(nt, 4) - 1)]
            threads[0].append(dict(PIN_EXEC))
        out.append({"threads": threads, "mode": "free"})
    return out


def run_many(run, name, scenarios, pid, key_prefix):
    results = core.parallel([(lambda sc=sc: run_scenario(sc)) for sc in scenarios], max_workers=6)
    traces = []
    for sc, (evs, summ) in zip(scenarios, results):
        if summ.get("deadlock") or summ.get("hung"):
            run.violation("%s/deadlock" % key_prefix, "threads did not finish within the watchdog; parked at %s" % summ.get("parked"), {"family": "engine", "scenario": sc, "summary": summ, "events": evs})
            continue
        if "aborted" in summ:
            run.violation("%s/abort" % key_prefix, "the process died: %s" % summ, {"family": "engine", "scenario": sc, "summary": summ})
            continue
        traces.append((sc, evs))
    if traces:
        run.nontrivial += sum(1 for sc, evs in traces if sum(1 for th in sc["threads"] for c in th if c["op"] == "reg") >= 1 and len(sc["threads"]) >= 2)
        sc, evs = traces[0]
        run.sample({"leg": name, "threads": sc["threads"], "events": ["%s:%s:%s" % (e.get("t"), e["ev"], e.get("site", e.get("res", e.get("op", e.get("h", ""))))) for e in evs][:24]})
        return validate_traces(run, name, traces, pid, key_prefix)
    return []


def replay(path, seed):
    case = json.load(open(path))["case"]
    evs, summ = run_scenario(case["scenario"])
    print(json.dumps({"summary": summ, "events": evs}, indent=0)[:4000])
    p1 = os.path.join(tlc.WORK, "engine-replay.ndjson")
    core.write_ndjson(p1, evs)
    if summ.get("deadlock") or "aborted" in summ:
        return 1
    r1 = tlc.run("trace/TraceEngine.tla", "trace/TraceEngine.cfg", workers=1, env={"TRACE": p1}, deque=True, xmx="2g", timeout=900)
    pr = core.tlc_printed_records(r1)
    print("accepted" if r1.violation == "NotDone" else pr)
    return 0 if r1.violation == "NotDone" else 1
