"""Concurrency family legs (C13, C08 histories, C16): Engine model configurations, scenarios run in fresh processes,
recorded event lists validated by TLC against the atomic engine (TraceEngine)."""
import itertools, json, os, random, subprocess
import core, tlc

ENGINE_INV = "TypeOK NoPartialInit BuiltinsComplete OneLockAtATime NoLockInHandler LinearizableOrF1"
CELLS = [("func", "f"), ("func", "g2"), ("func", "min"), ("prefix", "upre"), ("prefix", "-"), ("infix", "uin"), ("infix", "+"), ("postfix", "upost"), ("postfix", "++")]


def engine_cfg(name, threads, progs, scripts="NoScripts", sw=None, inv=ENGINE_INV, spec="Spec", props="EvalReadsOnly"):
    s = dict(FlagBeforeFill=False, EntryWithoutInit=False, HandlerUnderLock=False)
    s.update(sw or {})
    p = os.path.join(tlc.WORK, "MCEngine-%s.cfg" % name)
    os.makedirs(tlc.WORK, exist_ok=True)
    with open(p, "w") as f:
        f.write("SPECIFICATION %s\nCONSTANTS Threads <- %s\n Progs <- %s\n Names <- NM\n Scripts <- %s\n" % (spec, threads, progs, scripts))
        for k, v in s.items():
            f.write(" %s = %s\n" % (k, str(v).upper()))
        if inv:
            f.write("INVARIANT %s\n" % inv)
        if props:
            f.write("PROPERTY %s\n" % props)
    return p


MODEL_CONFIGS = [("initA", "T2", "PInitA", {}), ("initB", "T3", "PInitB", {}), ("initC", "T2", "PInitC", {}),
                 ("reent", "T2", "PReent", {"scripts": "ScriptsR"}), ("reent2", "T2", "PReent2", {"scripts": "ScriptsR"}), ("fine-F1", "T2", "PF1", {}),
                 ("termination", "T2", "PInitA", {"spec": "FairSpec", "props": "Terminates", "inv": "TypeOK"})]


def model(run, which=None):
    for name, th, pr, kw in MODEL_CONFIGS:
        if which and name not in which:
            continue
        res = tlc.run("mc/MCEngine.tla", engine_cfg(name, th, pr, **kw), workers=8, timeout=900)
        run.tlc("M:Engine/" + name, res)
        if res.violation:
            run.model_violation("Engine/" + name, res)


def run_scenario(sc, timeout=60):
    """One fresh process.  Returns (events, summary) or raises ToolError; an abort of the process is reported as summary {"aborted": rc}."""
    core.build_harness("dev")
    path = os.path.join(tlc.WORK, "scenario-%d-%d.json" % (os.getpid(), random.getrandbits(30)))
    json.dump(sc, open(path, "w"))
    try:
        p = subprocess.run([core.vh_path(), "engine-run", path], cwd=core.VERIF, stdout=subprocess.PIPE, stderr=subprocess.PIPE, text=True, timeout=timeout)
    except subprocess.TimeoutExpired:
        os.remove(path)
        return [], {"deadlock": True, "hung": True}
    os.remove(path)
    if p.returncode == 2:
        raise tlc.ToolError("engine-run tool error: %s" % p.stderr[-500:])
    lines = [json.loads(l) for l in p.stdout.splitlines() if l.startswith("{")]
    summ = [l for l in lines if "summary" in l]
    evs = [l for l in lines if "summary" not in l]
    if p.returncode != 0 or not summ:
        return evs, {"aborted": p.returncode, "stderr": p.stderr[-300:]}
    return evs, summ[0]["summary"]


def validate_traces(run, name, traces, pid, key_prefix, per_file=12):
    """traces: list of (scenario, events).  Several runs per file, separated by reset events; TLC (one worker, depth-first queue)
    must find linearization points that explain every result of every run."""
    groups = [traces[i:i + per_file] for i in range(0, len(traces), per_file)]
    files = []
    for gi, g in enumerate(groups):
        p = os.path.join(tlc.WORK, "engine-trace-%s-%d.ndjson" % (name, gi))
        recs = []
        for k, (sc, evs) in enumerate(g):
            if k > 0:
                recs.append({"ev": "reset", "seq": 0, "t": "t1"})
            recs += evs
        core.write_ndjson(p, recs)
        files.append(p)
    results = core.parallel([(lambda p=p: tlc.run("trace/TraceEngine.tla", "trace/TraceEngine.cfg", workers=1, env={"TRACE": p}, deque=True, xmx="2g", timeout=900)) for p in files])
    rejected = []
    for gi, res in enumerate(results):
        run.tlc("T:TraceEngine/%s/%d" % (name, gi), res)
        if res.violation:
            raise tlc.ToolError("TraceEngine failed: %s\n%s" % (res.violation, res.error_text[:1500]))
        prs = core.tlc_printed_records(res)
        acc = [p for p in prs if "accepted" in p]
        rej = [p for p in prs if "rejected_at" in p]
        if not acc and not rej:
            raise tlc.ToolError("TraceEngine gave no verdict for %s" % files[gi])
        if rej:
            # locate the run inside the file, then re-validate the remaining runs of the group one by one
            for k, (sc, evs) in enumerate(groups[gi]):
                p1 = os.path.join(tlc.WORK, "engine-trace-%s-%d-%d.ndjson" % (name, gi, k))
                core.write_ndjson(p1, evs)
                r1 = tlc.run("trace/TraceEngine.tla", "trace/TraceEngine.cfg", workers=1, env={"TRACE": p1}, deque=True, xmx="2g", timeout=900)
                run.tlc("T:TraceEngine/%s/%d.%d" % (name, gi, k), r1)
                pr1 = core.tlc_printed_records(r1)
                rj = [p for p in pr1 if "rejected_at" in p]
                if rj:
                    rejected.append((sc, evs, rj[0]))
    run.traces += len(traces)
    run.evaluations += len(traces)
    for sc, evs, rj in rejected:
        ev = rj.get("event", {})
        kind = "partial-init" if ev.get("site") == "access" else ("panic" if str(ev.get("res", "")).startswith("panic") else "not-linearizable")
        run.violation("%s/%s" % (key_prefix, kind), "recorded run is not a behaviour of the atomic engine: rejected at event %s" % json.dumps(ev)[:300],
                      {"family": "engine", "scenario": sc, "events": evs, "rejected": rj})
    run.leg("T:TraceEngine/" + name, runs=len(traces), rejected=len(rejected))
    return rejected


def free_scenarios(seed, n, max_threads):
    rnd = random.Random(seed)
    out = []
    for k in range(n):
        nt = rnd.randint(2, max_threads)
        cells = rnd.sample(CELLS, rnd.randint(1, 3))
        hid = itertools.count(1)
        threads = []
        for t in range(nt):
            calls = []
            for c in range(rnd.randint(1, 3)):
                r, nm = rnd.choice(cells)
                if rnd.random() < 0.45:
                    call = {"op": "reg", "r": r, "name": nm, "val": "h%d" % next(hid)}
                    if r == "infix":
                        call.update({"prec": 110 if nm == "+" else 115, "assoc": "L"})
                    calls.append(call)
                else:
                    calls.append({"op": "exec", "r": r, "name": nm})
            threads.append(calls)
        out.append({"threads": threads, "mode": "free"})
    return out


def run_many(run, name, scenarios, pid, key_prefix):
    results = core.parallel([(lambda sc=sc: run_scenario(sc)) for sc in scenarios], max_workers=6)
    traces = []
    for sc, (evs, summ) in zip(scenarios, results):
        if summ.get("deadlock") or summ.get("hung"):
            run.violation("%s/deadlock" % key_prefix, "threads did not finish within the watchdog; parked at %s" % summ.get("parked"), {"family": "engine", "scenario": sc, "summary": summ, "events": evs})
            continue
        if "aborted" in summ:
            run.violation("%s/abort" % key_prefix, "the process died: %s" % summ, {"family": "engine", "scenario": sc, "summary": summ})
            continue
        traces.append((sc, evs))
    if traces:
        run.nontrivial += sum(1 for sc, evs in traces if sum(1 for th in sc["threads"] for c in th if c["op"] == "reg") >= 1 and len(sc["threads"]) >= 2)
        sc, evs = traces[0]
        run.sample({"leg": name, "threads": sc["threads"], "events": ["%s:%s:%s" % (e.get("t"), e["ev"], e.get("site", e.get("res", e.get("op", e.get("h", ""))))) for e in evs][:24]})
        return validate_traces(run, name, traces, pid, key_prefix)
    return []


def replay(path, seed):
    case = json.load(open(path))["case"]
    evs, summ = run_scenario(case["scenario"])
    print(json.dumps({"summary": summ, "events": evs}, indent=0)[:4000])
    p1 = os.path.join(tlc.WORK, "engine-replay.ndjson")
    core.write_ndjson(p1, evs)
    if summ.get("deadlock") or "aborted" in summ:
        return 1
    r1 = tlc.run("trace/TraceEngine.tla", "trace/TraceEngine.cfg", workers=1, env={"TRACE": p1}, deque=True, xmx="2g", timeout=900)
    pr = core.tlc_printed_records(r1)
    print(pr)
    return 1 if any("rejected_at" in p for p in pr) else 0
