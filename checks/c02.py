"""C02 - operators group exactly by the documented precedence and associativity."""
import prattfam as pf


def check(run):
    thorough = run.tier == "thorough"
    n = 5 if thorough else 4
    run.rules.append("leg M/R: (a) every token string of <= %d tokens over {n x - * = == not in ! ++ ? : ( )} explored lazily by TLC through the Pratt machine; "
                     "(b) sentence families: all 32x32 ordered pairs of built-in infix operators in 6 shapes (plain, negated, parenthesised), all triples over one "
                     "representative per level/associativity in 6 shapes (with `not` at each position), all chains of four operators over one operator per precedence level in 3 shapes "
                     "(and of five over every second level in the thorough tier), 20 decorations (prefix, postfix, conditionals, calls, lists, maps, chains) over "
                     "all representative pairs; the machine must agree with the stratified reference grammar, and every behaviour is replayed in the real parser; "
                     "non-trivial = accepted sentence with at least two operator tokens" % n)
    run.rules.append("leg T: random well-formed programs (up to ~200 tokens) parsed by the real parser, judged by TLC with RefParse on the token sequence the real tokenizer reported")
    pf.model_and_replay(run, "exh-ops", pf.pratt_cfg("exh-ops", lazy=True, maxlen=n, alphabet="OpsAlpha"), "C02", "C02")
    pf.model_and_replay(run, "pairs", pf.pratt_cfg("pairs", lazy=False, source="PairSource", firstset="PairSet"), "C02", "C02", seeds=[run.seed, run.seed + 1] if thorough else None)
    pf.model_and_replay(run, "triples", pf.pratt_cfg("triples", lazy=False, source="TripleSource", firstset="TripleSet"), "C02", "C02")
    pf.model_and_replay(run, "quads", pf.pratt_cfg("quads", lazy=False, source="QuadSource", firstset="QuadSet"), "C02", "C02")
    if thorough:
        pf.model_and_replay(run, "quints", pf.pratt_cfg("quints", lazy=False, source="QuintSource", firstset="QuintSet"), "C02", "C02")
    pf.model_and_replay(run, "decor", pf.pratt_cfg("decor", lazy=False, source="DecorSource", firstset="DecorSet"), "C02", "C02")
    pf.trace_validate(run, "wf", 12000 if thorough else 1600, run.seed, 0, "C02", "C02")
    if thorough:
        pf.simulate(run)
    run.exhaustive = False
    run.assumptions += ["token strings are laid out with single spaces (other layouts: C11)", "hook H1 reports the token sequence the parser sees",
                        "TLC, the JSON encodings, the concretisation table and the harness's comparison code are trusted"]


def replay(path, seed):
    return pf.replay(path, seed)
