"""C01 - parsing is total: every string gives Ok or Err, never a panic, abort or hang."""
import json, os, subprocess, time
import core, tlc
import lexfam, prattfam as pf


def supervised_replay(run, name, path, kind, total, timeout=60, max_restarts=4):
    """Run total-replay in a child process that announces each input before running it; if the child dies (abort / stack
    exhaustion) or hangs, the announced input is the culprit and the replay resumes after it."""
    core.build_harness("dev")
    start, restarts, ran = 0, 0, 0
    recs = None
    while start < total:
        rc, out, timed, errtxt = core.run_stall_watchdog([core.vh_path(), "total-replay", path, "--kind", kind, "--seed", str(run.seed), "--from", str(start), "--to", str(total)], stall_s=timeout)
        if timed:
            rc = -1
        if rc == 2:
            raise tlc.ToolError("total-replay tool error: %s" % errtxt[-500:])
        last_at, done = None, False
        for l in out.splitlines():
            if not l.startswith("{"):
                continue
            try:
                o = json.loads(l)
            except Exception:
                continue
            if "at" in o:
                last_at = o["at"]
            elif "panic" in o:
                run.violation("C01/panic", "%s on input %r" % (o["what"], o["text"][:200]), {"family": "total", "text": o["text"], "what": o["what"]})
            elif "summary" in o:
                done = True
        if rc == 0 and done:
            ran += total - start
            break
        culprit = last_at if last_at is not None else start
        if recs is None:
            recs = core.read_ndjson(path)
        run.violation("C01/abort" if not timed else "C01/hang", "process %s on input #%d of %s" % ("hung" if timed else "aborted (signal/exit %s)" % rc, culprit, name),
                      {"family": "total", "record": recs[culprit], "kind": kind, "outcome": "timeout" if timed else "abort"})
        ran += culprit - start + 1
        start = culprit + 1
        restarts += 1
        if restarts > max_restarts:
            break
    run.traces += ran
    run.evaluations += ran
    run.leg("R:total/" + name, inputs=ran)


def pumps(run, sizes, timeout=120):
    core.build_harness("dev")
    fams, _ = core.run_vh(["pump-list"])
    fams = fams[0]
    jobs = []
    for f in fams:
        for n in sizes:
            # shapes on which the tokenizer is quadratic stay below the size where slow could be mistaken for a hang
            if f in ("multibyte-run", "ops-run", "string-long", "number-long") and n > 10000:
                continue
            jobs.append((f, n))

    def one(f, n):
        t0 = time.time()
        try:
            p = subprocess.run([core.vh_path(), "pump", f, str(n)], cwd=core.VERIF, stdout=subprocess.PIPE, stderr=subprocess.PIPE, text=True, timeout=timeout)
        except subprocess.TimeoutExpired:
            return (f, n, "timeout", None, time.time() - t0)
        try:
            o = json.loads(p.stdout.strip().splitlines()[-1])
        except Exception:
            o = None
        if p.returncode != 0 or o is None:
            return (f, n, "abort", "exit status %s: %s" % (p.returncode, p.stderr.strip()[-200:]), time.time() - t0)
        return (f, n, o["outcome"], o.get("what"), time.time() - t0)

    results = core.parallel([(lambda f=f, n=n: one(f, n)) for f, n in jobs], max_workers=8)
    worst = 0
    for f, n, outcome, what, dt in results:
        worst = max(worst, dt)
        run.traces += 1
        run.evaluations += 1
        if outcome != "returned":
            run.violation("C01/pump/%s" % outcome, "pump %s x %d: %s %s" % (f, n, outcome, what or ""), {"family": "pump", "pump": f, "n": n, "outcome": outcome, "what": what})
    run.nontrivial += len(jobs)
    run.sample({"leg": "R", "pump": "paren x 100000", "text": "( ( ( ... 1 ... ) ) )"})
    run.leg("R:pumps", families=len(fams), sizes=sizes, runs=len(jobs), slowest_s=round(worst, 1))


def check(run):
    thorough = run.tier == "thorough"
    run.rules.append("leg M: Lexer machine (all inputs <= 4/5 characters, 1-4 byte characters, deadlock check on, StepBudget, OnBoundary) and Pratt machine (all token strings <= 4/5 "
                     "tokens, deadlock check on, StepBudget, DepthBounded; nesting budget exercised with MaxDepth = 3 on strings <= 7 tokens; termination under fairness on the small configuration); "
                     "leg R: every enumerated input run through parse_expression, execute, expr() and describe() in a supervised child process (panic, abort and hang are outcomes); "
                     "31 pump families read off the machines' recursion cycles and loops scaled to 10..10^5 (10^6 thorough); non-trivial = pump run or input with >= 2 tokens")
    run.rules.append("leg T: random UTF-8 inputs up to 2000 characters: outcome class must be `returned`, tokens validated against the Lexer machine and the parse verdict against the reference grammar")
    n = 5 if thorough else 4
    # M + R (characters)
    for name, alpha in (("A1", "A1"), ("A2", "A2"), ("A3", "A3")):
        res = tlc.run("mc/MCLexer.tla", lexfam.mc_cfg("c01-" + name, n, alpha, "OpsBuiltin"), workers=16, timeout=1800)
        run.tlc("M:Lexer/exh/" + name, res)
        if res.violation:
            run.model_violation("Lexer/exh/" + name, res)
            continue
        recs = core.tlc_printed_records(res)
        path = os.path.join(tlc.WORK, "total-chars-%s.ndjson" % name)
        core.write_ndjson(path, recs)
        run.nontrivial += sum(1 for r in recs if len(r["toks"]) >= 2 or not r["ok"])
        supervised_replay(run, "chars-" + name, path, "chars", len(recs))
    # M + R (tokens)
    for name, kw in (("exh-ops", dict(lazy=True, maxlen=n, alphabet="OpsAlpha")), ("exh-delims", dict(lazy=True, maxlen=n, alphabet="DelAlpha"))):
        cfg = pf.pratt_cfg("c01-" + name, inv="StepBudget DepthBounded PrattAgreesWithGrammar", **kw)
        res = tlc.run("mc/MCPratt.tla", cfg, workers=16, timeout=2400)
        run.tlc("M:Pratt/" + name, res)
        if res.violation:
            run.model_violation("Pratt/" + name, res)
            continue
        recs = core.tlc_printed_records(res)
        path = os.path.join(tlc.WORK, "total-toks-%s.ndjson" % name)
        core.write_ndjson(path, recs)
        run.nontrivial += sum(1 for r in recs if len(r["toks"]) >= 2)
        supervised_replay(run, "toks-" + name, path, "toks", len(recs))
    # nesting budget in the model: MaxDepth = 3, every string <= 7 tokens over a nesting alphabet
    res = tlc.run("mc/MCPratt.tla", pf.pratt_cfg("c01-depth", lazy=True, maxlen=7 if not thorough else 8, alphabet="NestAlpha", maxdepth=3, report="Silent",
                                                inv="StepBudget DepthBounded BudgetOnlyWhenDeep"), workers=16, timeout=2400)
    run.tlc("M:Pratt/depth-budget", res)
    if res.violation:
        run.model_violation("Pratt/depth-budget", res)
    # termination under weak fairness (liveness is only checked on the smallest configuration)
    res = tlc.run("mc/MCPratt.tla", pf.pratt_cfg("c01-live", lazy=True, maxlen=3, alphabet="OpsAlpha", report="Silent", inv=None, spec="FairSpec", props="Terminates"), workers=16, timeout=1800)
    run.tlc("M:Pratt/termination", res)
    if res.violation:
        run.model_violation("Pratt/termination", res)
    # pumps
    pumps(run, [10, 100, 1000, 10000, 100000] + ([1000000] if thorough else []))
    # T
    lpath = os.path.join(tlc.WORK, "total-lex.ndjson")
    ppath = os.path.join(tlc.WORK, "total-parse.ndjson")
    ntotal = 12000 if thorough else 1500
    skip, lrecs_all, precs_all = 0, [], []
    for attempt in range(5):
        cmd = [core.vh_path(), "total-record", "--seed", str(run.seed), "--n", str(ntotal), "--maxlen", "200", "--lex-out", lpath, "--parse-out", ppath, "--progress", "--skip", str(skip)]
        rc, outtxt, stalled, errtxt = core.run_stall_watchdog(cmd, stall_s=60)
        last = None
        for l in outtxt.splitlines():
            if not l.startswith("{"):
                continue
            try:
                o = json.loads(l)
            except Exception:
                continue
            if "at" in o:
                last = o
            elif "panic" in o:
                run.violation("C01/panic", "%s on random input %r" % (o["what"], o["text"][:200]), {"family": "total", "text": o["text"], "what": o["what"]})
        if os.path.exists(lpath):
            lrecs_all += core.read_ndjson(lpath, tolerant=True)   # a killed process may leave a cut last line
            precs_all += core.read_ndjson(ppath, tolerant=True)
        if rc == 0 and not stalled:
            break
        if rc == 2:
            raise tlc.ToolError("total-record tool error: %s" % errtxt[-400:])
        # the process hung or died on the announced input
        if last is None:
            raise tlc.ToolError("total-record died before its first input: %s" % errtxt[-400:])
        run.violation("C01/hang" if stalled else "C01/abort", "%s on random input %r" % ("no result within 60 s" if stalled else "process aborted (exit %s)" % rc, last["text"][:200]),
                      {"family": "total", "text": last["text"], "what": "hang" if stalled else "abort"})
        skip = last["at"] + 1
    core.write_ndjson(lpath, lrecs_all)
    core.write_ndjson(ppath, precs_all)
    lrecs = core.read_ndjson(lpath)
    validate_lex(run, lrecs)
    pf.validate_records(run, "total", core.read_ndjson(ppath), "C01", "C01")
    run.exhaustive = False
    run.assumptions += ["abort and hang are observed by process supervision (exit status, 120-300 s watchdogs for inputs that take milliseconds)",
                        "inputs on which the tokenizer is quadratic (separator-free runs) are kept <= 10^4 characters so that slow is not mistaken for non-terminating",
                        "pumps run on a 2 MiB thread stack in a debug build"]


def validate_lex(run, recs, shards=16):
    parts, k = core.shard(recs, shards)
    files = []
    for i, part in enumerate(parts):
        p = os.path.join(tlc.WORK, "total-lex-%d.ndjson" % i)
        core.write_ndjson(p, part)
        files.append(p)
    cfg = lexfam.trace_cfg("total", "BuiltinOps")
    results = core.parallel([(lambda p=p: tlc.run("trace/TraceLexer.tla", cfg, workers=1, env={"TRACE": p}, deque=True, xmx="2g", timeout=1800)) for p in files])
    for i, res in enumerate(results):
        run.tlc("T:TraceLexer/total/%d" % i, res)
        if res.violation:
            run.violation("C01/lex/trace-invariant/%s" % res.violation, "recorded tokenizer execution violates %s" % res.violation, {"family": "lex", "shard": files[i], "tlc_error": res.error_text[:3000]})
            continue
        for p in core.tlc_printed_records(res):
            if "mismatch" in p:
                rec = parts[i][p["mismatch"]]
                run.violation("C01/lex/trace", "tokenizer outcome on %r is not a behaviour of the Lexer spec" % lexfam.chars_str(rec["chars"])[:200],
                              {"family": "lex", "ops": "OpsBuiltin", "record": {"chars": rec["chars"], "ok": p["spec"]["ok"], "dc": False, "toks": p["spec"]["toks"]}})
    run.traces += len(recs)
    run.leg("T:TraceLexer/total", recorded=len(recs))


def replay(path, seed):
    case = json.load(open(path))["case"]
    core.build_harness("dev")
    if case["family"] == "pump":
        p = subprocess.run([core.vh_path(), "pump", case["pump"], str(case["n"])], stdout=subprocess.PIPE, stderr=subprocess.PIPE, text=True)
        print(p.stdout, p.stderr[-300:], "exit", p.returncode)
        return 0 if p.returncode == 0 and '"returned"' in p.stdout else 1
    if case["family"] == "total":
        rec = {"text": case["text"]} if "text" in case else case["record"]
        kind = "text" if "text" in case else case["kind"]
        fp = os.path.join(tlc.WORK, "total-one.ndjson")
        core.write_ndjson(fp, [rec])
        p = subprocess.run([core.vh_path(), "total-replay", fp, "--kind", kind, "--seed", str(seed)], stdout=subprocess.PIPE, stderr=subprocess.PIPE, text=True)
        print(p.stdout, p.stderr[-300:], "exit", p.returncode)
        return 0 if p.returncode == 0 and '"panics":0' in p.stdout.replace(" ", "") else 1
    return pf.replay(path, seed)
