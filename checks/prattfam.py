"""Parser family legs shared by C02, C05, C08 (tables), C11, C12, C01."""
import json, os
import core, tlc

GATES = dict(TernaryGate=True, NotGate=True, ExpectStrict=True, DoubledBP=True)
INV = "PrattAgreesWithGrammar StepBudget DepthBounded"


def pratt_cfg(name, lazy, maxlen=0, alphabet="{}", source="NoSource", firstset="One", chain=False, nruns="1", report="EmitJson",
              table="BuiltinTable", maxdepth=256, gates=None, inv=INV, spec="Spec", props=None):
    g = dict(GATES)
    g.update(gates or {})
    path = os.path.join(tlc.WORK, "Pratt-%s.cfg" % name)
    os.makedirs(tlc.WORK, exist_ok=True)
    alpha = (" Alphabet <- %s\n" % alphabet) if alphabet != "{}" else " Alphabet = {}\n"
    nr = (" NRuns = %s\n" % nruns) if str(nruns).isdigit() else (" NRuns <- %s\n" % nruns)
    with open(path, "w") as f:
        f.write("SPECIFICATION %s\nCONSTANTS Lazy = %s\n MaxLen = %d\n%s Source <- %s\n FirstSet <- %s\n Chain = %s\n%s Report <- %s\n Table <- %s\n MaxDepth = %d\n"
                % (spec, str(lazy).upper(), maxlen, alpha, source, firstset, str(chain).upper(), nr, report, table, maxdepth))
        for k, v in g.items():
            f.write(" %s = %s\n" % (k, str(v).upper()))
        f.write(" defaultInitValue = defaultInitValue\nCHECK_DEADLOCK FALSE\n")
        if inv:
            f.write("INVARIANT %s\n" % inv)
        if props:
            f.write("PROPERTY %s\n" % props)
    return path


def toks_text(toks):
    return " ".join(t[1] for t in toks)


def nontrivial(rec, pid):
    if pid in ("C05",):
        return rec["v"] == "MustReject" and len(rec["toks"]) >= 2
    ops = sum(1 for t in rec["toks"] if t[0] == "op")
    return rec["v"] in ("MustAccept", "MayAccept") and ops >= 2


def _replay(run, name, recs, pid_key, ops_file, seeds, pre_ops_file=None):
    path = os.path.join(tlc.WORK, "parse-replay-%s.ndjson" % name)
    core.write_ndjson(path, recs)
    total_bad = 0
    for sd in seeds:
        out, _ = core.run_vh(["parse-replay", path, "--seed", sd] + (["--ops-file", ops_file] if ops_file else []) + (["--pre-ops-file", pre_ops_file] if pre_ops_file else []))
        summ = [o for o in out if "summary" in o]
        if not summ or summ[0]["summary"]["replayed"] + summ[0]["summary"]["unrealizable"] != len(recs):
            raise tlc.ToolError("parse-replay did not process every record (%s)" % name)
        s = summ[0]["summary"]
        run.traces += s["replayed"]
        run.dontcare += s["unspecified"]
        for o in out:
            if "mismatch" in o:
                total_bad += 1
                rec = recs[o["mismatch"]]
                run.violation("%s/parse/replay/%s" % (pid_key, o["verdict"]),
                              "parse_expression(%r): %s; grammar verdict %s" % (o["text"], o["why"], o["verdict"]),
                              {"family": "parse", "ops_file": ops_file, "pre_ops_file": pre_ops_file, "seed": sd, "record": rec, "text": o["text"], "got_ok": o["got_ok"], "got_ast": o["got_ast"], "panic": o["panic"]})
        run.leg("R:Pratt/" + name, seed=sd, replayed=s["replayed"], unrealizable=s["unrealizable"], by_verdict=s["by_verdict"], mismatches=sum(1 for o in out if "mismatch" in o),
                error_variant_agree=s.get("variant_agree", 0), error_variant_drift=s.get("variant_differ", 0), error_variants=s.get("by_variant", {}),
                drift_examples=[{"text": o["text"], "spec": o["spec"], "impl": o["impl"]} for o in out if "variant_drift" in o][:3])
    return total_bad


def model_and_replay(run, name, cfg, pid, pid_key, ops_file=None, seeds=None, timeout=2400, pre_ops_file=None):
    """Leg M: TLC explores the Pratt machine and checks it against the reference grammar in every final state;
    leg R: every behaviour TLC printed is concretised and parsed by the real parser."""
    res = tlc.run("mc/MCPratt.tla", cfg, workers=16, timeout=timeout)
    run.tlc("M:Pratt/" + name, res)
    if res.violation:
        run.model_violation("Pratt/" + name, res)
        return []
    recs = core.tlc_printed_records(res)
    if not recs:
        raise tlc.ToolError("Pratt/%s printed no behaviours" % name)
    run.evaluations += len(recs)
    run.nontrivial += sum(1 for r in recs if nontrivial(r, pid))
    picks = [r for r in recs if nontrivial(r, pid)]
    for r in picks[:: max(1, len(picks) // 2)][:2]:
        run.sample({"leg": "M/R", "config": name, "tokens": toks_text(r["toks"]), "verdict": r["v"], "spec_tree": r["ast"] if r["ok"] else None})
    _replay(run, name, recs, pid_key, ops_file, seeds or [run.seed], pre_ops_file)
    return recs


def shape_independence(run, name, pid_key, ops_file, table="BigTable"):
    """Levels holding both associativities (grammar verdict Unspecified): whatever grouping the real parser uses for `x oa y ob z`, it must use
    the same one when an operand is replaced by a tighter-binding chain or parenthesised.  TLC generates the sentences (MixSource) and judges
    the recorded tree pairs (TraceShape)."""
    res = tlc.run("mc/MCPratt.tla", pratt_cfg(name, lazy=False, source="MixSource", firstset="MixSet", table=table, report="EmitMix"), workers=16, timeout=1200)
    run.tlc("M:Pratt/" + name, res)
    if res.violation:
        run.model_violation("Pratt/" + name, res)
        return
    recs = core.tlc_printed_records(res)
    if not recs:
        raise tlc.ToolError("Pratt/%s printed no sentences" % name)
    path = os.path.join(tlc.WORK, "parse-replay-%s.ndjson" % name)
    core.write_ndjson(path, recs)
    out, _ = core.run_vh(["parse-replay", path, "--seed", run.seed, "--emit-ast"] + (["--ops-file", ops_file] if ops_file else []))
    parsed = {o["parsed"]: o for o in out if "parsed" in o}
    if len(parsed) != len(recs):
        raise tlc.ToolError("parse-replay --emit-ast did not parse every sentence (%s)" % name)
    for o in out:
        if "mismatch" in o:      # the machine / grammar comparison of the ordinary replay leg still applies to these sentences
            run.violation("%s/parse/replay/%s" % (pid_key, o["verdict"]), "parse_expression(%r): %s; grammar verdict %s" % (o["text"], o["why"], o["verdict"]),
                          {"family": "parse", "ops_file": ops_file, "seed": run.seed, "record": recs[o["mismatch"]], "text": o["text"], "got_ok": o["got_ok"], "got_ast": o["got_ast"], "panic": o["panic"]})
    base = {r["pair"]: i for i, r in enumerate(recs) if r["kind"] == 0}
    pairs = []
    for i, r in enumerate(recs):
        if r["kind"] == 0:
            continue
        b = parsed[base[r["pair"]]]
        v = parsed[i]
        pairs.append({"pair": r["pair"], "kind": r["kind"], "tight": r["tight"], "base_ok": b["ok"], "base": b["ast"] if b["ok"] else [], "var_ok": v["ok"], "var": v["ast"] if v["ok"] else [],
                      "base_text": b["text"], "var_text": v["text"], "spec_base": recs[base[r["pair"]]]["ast"], "spec_var": r["ast"]})
    tpath = os.path.join(tlc.WORK, "shape-%s.ndjson" % name)
    core.write_ndjson(tpath, pairs)
    tres = tlc.run("trace/TraceShape.tla", "trace/TraceShape.cfg", workers=1, env={"TRACE": tpath}, timeout=900)
    run.tlc("T:TraceShape/" + name, tres)
    prs = core.tlc_printed_records(tres)
    if not any(p.get("done") == len(pairs) for p in prs):
        raise tlc.ToolError("TraceShape did not consume every record")
    bad = 0
    for p in prs:
        if "mismatch" in p:
            bad += 1
            r = pairs[p["mismatch"]]
            run.violation("%s/parse/shape" % pid_key, "grouping depends on the operand's shape: %r parses as %s but %r as %s" % (r["base_text"], json.dumps(r["base"]), r["var_text"], json.dumps(r["var"])),
                          {"family": "shape", "ops_file": ops_file, "pair": r})
    run.traces += len(recs)
    run.evaluations += len(pairs)
    run.nontrivial += len(pairs)
    # the specification's own machine satisfies the same law (checked here on its printed trees)
    spec_pairs = [dict(p, base_ok=True, var_ok=True, base=p["spec_base"], var=p["spec_var"]) for p in pairs]
    spath = os.path.join(tlc.WORK, "shape-spec-%s.ndjson" % name)
    core.write_ndjson(spath, spec_pairs)
    sres = tlc.run("trace/TraceShape.tla", "trace/TraceShape.cfg", workers=1, env={"TRACE": spath}, timeout=900)
    if any("mismatch" in p for p in core.tlc_printed_records(sres)):
        run.violation("%s/model/shape" % pid_key, "the Pratt machine of the specification is itself not operand-shape independent", {"family": "model"})
    run.leg("T:shape/" + name, sentences=len(recs), pairs=len(pairs), mismatches=bad)


def simulate(run, maxlen=16, num=20000, depth=800, alphabet="AllAlpha"):
    """Thorough tier: random walks of the Pratt machine over the union of the alphabets with up to maxlen tokens, checked against the grammar."""
    res = tlc.run("mc/MCPratt.tla", pratt_cfg("sim", lazy=True, maxlen=maxlen, alphabet=alphabet, report="Silent"), workers=16, simulate=num, depth=depth, timeout=1800)
    run.tlc("M:Pratt/sim", res)
    if res.violation:
        run.model_violation("Pratt/sim", res)


def trace_validate(run, name, n, seed, corrupt, pid, pid_key, ops_file=None, table="BuiltinTable", shards=16, extra_args=None):
    """Leg T: random (and corrupted) programs parsed by the real parser; TLC judges every recorded execution against the
    reference grammar applied to the token sequence the real tokenizer reported, and runs the Pratt machine alongside."""
    path = os.path.join(tlc.WORK, "parse-trace-%s.ndjson" % name)
    core.run_vh(["parse-record", "--seed", seed, "--n", n, "--corrupt", corrupt, "--out", path] + (["--ops-file", ops_file] if ops_file else []) + (extra_args or []))
    recs = core.read_ndjson(path)
    return validate_records(run, name, recs, pid, pid_key, table, shards, ops_file)


def validate_records(run, name, recs, pid, pid_key, table="BuiltinTable", shards=16, ops_file=None):
    parts, k = core.shard(recs, shards)
    files = []
    for i, part in enumerate(parts):
        p = os.path.join(tlc.WORK, "parse-trace-%s-%d.ndjson" % (name, i))
        core.write_ndjson(p, part)
        files.append(p)
    cfg = pratt_cfg("trace-" + name, lazy=False, source="TraceSource", firstset="One", chain=True, nruns="TraceN", report="TraceReport", table=table, inv=None)
    results = core.parallel([(lambda p=p: tlc.run("trace/TracePratt.tla", cfg, workers=1, env={"TRACE": p}, deque=True, xmx="3g", timeout=2400)) for p in files])
    nm = nd = 0
    verdicts = {}
    for i, res in enumerate(results):
        run.tlc("T:TracePratt/%s/%d" % (name, i), res)
        if res.violation:
            raise tlc.ToolError("TracePratt failed on shard %d: %s\n%s" % (i, res.violation, res.error_text[:2000]))
        prs = core.tlc_printed_records(res)
        if not any("done" in p and p["done"] == len(parts[i]) for p in prs) or sum(1 for p in prs if "rec" in p or "mismatch" in p and p.get("kind") == "lexical-error-accepted") < sum(1 for r in parts[i] if r["lex_ok"]):
            raise tlc.ToolError("TracePratt did not consume every record of shard %d" % i)
        for p in prs:
            if "rec" in p:
                verdicts[p["verdict"]] = verdicts.get(p["verdict"], 0) + 1
                rec = parts[i][p["rec"]]
                if (p["verdict"] == "MustReject" and len(rec["toks"]) >= 2) if pid == "C05" else (p["verdict"] in ("MustAccept", "MayAccept") and sum(1 for t in rec["toks"] if t[0] == "op") >= 2):
                    run.nontrivial += 1
            if "drift" in p:
                nd += 1
            if "mismatch" in p:
                nm += 1
                rec = parts[i][p["mismatch"]]
                run.violation("%s/parse/trace/%s" % (pid_key, p["verdict"]),
                              "parse_expression(%r) %s but the grammar verdict on its tokens is %s" % (rec["text"], "panicked" if rec["panic"] else ("returned Ok" if rec["ok"] else "returned Err"), p["verdict"]),
                              {"family": "parse-trace", "ops_file": ops_file, "record": rec, "verdict": p["verdict"], "spec_ok": p["spec_ok"], "spec_ast": p["spec_ast"]})
    run.traces += len(recs)
    run.evaluations += len(recs)
    run.dontcare += verdicts.get("Unspecified", 0)
    for r in recs[:2]:
        run.sample({"leg": "T", "program": r["text"][:120], "impl_ok": r["ok"]})
    run.leg("T:TracePratt/" + name, recorded=len(recs), verdicts=verdicts, mismatches=nm, machine_drift=nd)
    return nm


def replay(path, seed):
    case = json.load(open(path))["case"]
    if case["family"] == "parse":
        p = os.path.join(tlc.WORK, "parse-replay-one.ndjson")
        core.write_ndjson(p, [case["record"]])
        out, _ = core.run_vh(["parse-replay", p, "--seed", case.get("seed", seed)] + (["--ops-file", case["ops_file"]] if case.get("ops_file") else []) + (["--pre-ops-file", case["pre_ops_file"]] if case.get("pre_ops_file") else []))
        bad = [o for o in out if "mismatch" in o]
        print(json.dumps({"record": case["record"], "mismatch": bad}, indent=1))
        return 1 if bad else 0
    if case["family"] == "parse-trace":
        import core as c
        out, _ = c.run_vh(["parse-one", case["record"]["text"]] + (["--ops-file", case["ops_file"]] if case.get("ops_file") else []))
        print(json.dumps({"program": case["record"]["text"], "now": out, "verdict": case["verdict"], "spec_ast": case["spec_ast"]}, indent=1))
        r = out[0]
        v = case["verdict"]
        okk = (not r["panic"]) and ((v == "MustReject" and not r["ok"]) or (v == "MustAccept" and r["ok"] and r["ast"] == case["spec_ast"]) or
                                    (v == "MayAccept" and (not r["ok"] or r["ast"] == case["spec_ast"])) or v == "Unspecified")
        return 0 if okk else 1
    if case["family"] == "lex":
        import lexfam
        return lexfam.replay(path, seed)
    if case["family"] == "shape":
        # the whole leg is a few seconds: run it again and look for the same operator pair
        r = core.Run("C08", "quick", seed)
        shape_independence(r, "c08-mix-replay", "C08", case.get("ops_file"))
        again = [v for v in r.violations if v[2].get("pair", {}).get("pair") == case["pair"]["pair"]]
        print(json.dumps({"pair": case["pair"]["pair"], "base": case["pair"]["base_text"], "variant": case["pair"]["var_text"], "still_differs": bool(again)}, indent=1))
        return 1 if again else 0
    print("no replay for family", case["family"])
    return 2
