"""./check --selftest : vacuity and binding self-tests (not part of any quick command).
1. model negative controls - each switch that restores a pinned-tree behaviour must make TLC report a violation;
2. trace negative controls - corrupting one recorded field / dropping one event must make the trace specs reject."""
import copy, json, os
import core, tlc
import lexfam, prattfam as pf, evalfam as ef, enginefam as eng

results = []


def expect(name, cond, detail=""):
    results.append((name, bool(cond), detail))
    print("%-58s %s %s" % (name, "ok" if cond else "FAILED", detail), flush=True)


def main(seed):
    # ---- 1. model negative controls -------------------------------------------------------------------
    r = tlc.run("mc/MCLexer.tla", lexfam.mc_cfg("neg-slice", 3, "A1", "OpsBuiltin", slice_mode="byte+1", emit=False), workers=8)
    expect("Lexer SliceMode=byte+1 violates OnBoundary", r.violation == "OnBoundary", str(r.violation))
    for gate, fam in (("TernaryGate", dict(lazy=False, source="DecorSource", firstset="DecorSet")), ("NotGate", dict(lazy=False, source="PairSource", firstset="PairSet")),
                      ("ExpectStrict", dict(lazy=True, maxlen=4, alphabet="ListAlpha")), ("DoubledBP", dict(lazy=False, source="UPairSource", firstset="UPairSet", table="BigTable"))):
        r = tlc.run("mc/MCPratt.tla", pf.pratt_cfg("neg-" + gate, report="Silent", gates={gate: False}, **fam), workers=16, timeout=1200)
        expect("Pratt %s=FALSE violates PrattAgreesWithGrammar" % gate, r.violation == "PrattAgreesWithGrammar", str(r.violation))
    for sw, inv in (("BareRefHoldsLock", "NoLockAcrossHandler"), ("BothBranches", "AgreesWithDen"), ("ContinueAfterErr", "AgreesWithDen")):
        r = tlc.run("mc/MCEval.tla", ef.mceval_cfg("neg-" + sw, depth=1, emit=False, switches={sw: True}), workers=8)
        expect("Eval %s=TRUE violates %s" % (sw, inv), r.violation == inv, str(r.violation))
    r = tlc.run("mc/MCEval.tla", ef.mceval_cfg("neg-deadlock", depth=1, emit=False, switches={"BareRefHoldsLock": True}, inv="NoDeadlock"), workers=8)
    expect("Eval BareRefHoldsLock=TRUE reaches a deadlock state", r.violation == "NoDeadlock", str(r.violation))
    for sw, inv, progs, scripts in (("FlagBeforeFill", "NoPartialInit", "PInitA", "NoScripts"), ("EntryWithoutInit", "NoPartialInit", "PInitA", "NoScripts"), ("HandlerUnderLock", "NoLockInHandler", "PReent", "ScriptsR")):
        r = tlc.run("mc/MCEngine.tla", eng.engine_cfg("neg-" + sw, "T2", progs, scripts=scripts, sw={sw: True}), workers=8)
        expect("Engine %s=TRUE violates %s" % (sw, inv), r.violation == inv, str(r.violation))
    r = tlc.run("mc/MCEngine.tla", eng.engine_cfg("neg-hul-deadlock", "T2", "PReent", scripts="ScriptsR", sw={"HandlerUnderLock": True}, inv="TypeOK", props=None), workers=8)
    expect("Engine HandlerUnderLock=TRUE deadlocks", r.violation == "deadlock", str(r.violation))
    r = tlc.run("mc/MCEngine.tla", eng.engine_cfg("neg-f1", "T2", "PF1", inv="TypeOK Linearizable", props=None), workers=8)
    expect("Engine fine-grained F1 violates Linearizable", r.violation == "Linearizable", str(r.violation))
    cfg = os.path.join(tlc.WORK, "neg-describe.cfg")
    open(cfg, "w").write("SPECIFICATION Spec\nCONSTANTS MaxSets = 2\n KeyUniverse <- AllKeys\n Emit = FALSE\n Deep = FALSE\n BinaryKeyIsUnary = TRUE\nCHECK_DEADLOCK FALSE\nINVARIANT MachineIsReference\n")
    r = tlc.run("mc/MCDescribe.tla", cfg, workers=4)
    expect("Describe BinaryKeyIsUnary=TRUE violates MachineIsReference", r.violation == "MachineIsReference", str(r.violation))

    # ---- 2. trace negative controls ---------------------------------------------------------------------
    def lex_rejects(mut):
        p = os.path.join(tlc.WORK, "self-lex.ndjson")
        core.run_vh(["lex-record", "--seed", seed, "--n", 40, "--maxlen", 30, "--out", p])
        recs = core.read_ndjson(p)
        i = next(k for k, r in enumerate(recs) if r["ok"] and len(r["toks"]) >= 2)
        mut(recs[i])
        core.write_ndjson(p, recs)
        res = tlc.run("trace/TraceLexer.tla", lexfam.trace_cfg("self", "BuiltinOps"), workers=1, env={"TRACE": p}, deque=True)
        return any("mismatch" in x and x["mismatch"] == i for x in core.tlc_printed_records(res))
    expect("TraceLexer rejects a shifted span end", lex_rejects(lambda r: r["toks"][1].__setitem__(2, r["toks"][1][2] + 1)))
    expect("TraceLexer rejects a dropped token", lex_rejects(lambda r: r["toks"].pop(0)))
    expect("TraceLexer rejects a changed token kind", lex_rejects(lambda r: r["toks"][0].__setitem__(0, "ref" if r["toks"][0][0] != "ref" else "num")))

    def pratt_rejects(mut):
        p = os.path.join(tlc.WORK, "self-parse.ndjson")
        core.run_vh(["parse-record", "--seed", seed, "--n", 40, "--out", p])
        recs = core.read_ndjson(p)
        i = next(k for k, r in enumerate(recs) if r["ok"] and r["ast"][0] == "bin")
        mut(recs[i])
        core.write_ndjson(p, recs)
        cfg = pf.pratt_cfg("self-trace", lazy=False, source="TraceSource", firstset="One", chain=True, nruns="TraceN", report="TraceReport", inv=None)
        res = tlc.run("trace/TracePratt.tla", cfg, workers=1, env={"TRACE": p}, deque=True)
        return any("mismatch" in x and x["mismatch"] == i for x in core.tlc_printed_records(res))
    expect("TracePratt rejects a changed operator in the tree", pratt_rejects(lambda r: r["ast"].__setitem__(1, "%%" if r["ast"][1] != "%%" else "+")))
    expect("TracePratt rejects swapped operands", pratt_rejects(lambda r: r["ast"].__setitem__(slice(2, 4), [r["ast"][3], r["ast"][2]]) if r["ast"][2] != r["ast"][3] else r["ast"].__setitem__(1, "??")))
    expect("TracePratt rejects an Ok turned into Err", pratt_rejects(lambda r: r.update({"ok": False, "ast": []})))

    def eval_rejects(mut, pick):
        p = os.path.join(tlc.WORK, "self-eval.ndjson")
        core.run_vh(["eval-record", "--seed", seed, "--n", 200, "--out", p])
        recs = core.read_ndjson(p)
        # only records whose specified outcome is definite (not a don't-care such as an inexact quotient) bind every observable
        res0 = tlc.run("trace/TraceEval.tla", "trace/TraceEval.cfg", workers=1, env={"TRACE": p})
        definite = {x["rec"] for x in core.tlc_printed_records(res0) if "rec" in x and x["st"] == "ok"}
        i = next(k for k, r in enumerate(recs) if k in definite and pick(r))
        mut(recs[i])
        core.write_ndjson(p, recs)
        res = tlc.run("trace/TraceEval.tla", "trace/TraceEval.cfg", workers=1, env={"TRACE": p})
        return any("mismatch" in x and x["mismatch"] == i for x in core.tlc_printed_records(res))
    two = lambda r: len(r["obs"]["log"]) >= 2 and r["obs"]["st"] == "ok"
    expect("TraceEval rejects a dropped handler invocation", eval_rejects(lambda r: r["obs"]["log"].pop(0), two))
    expect("TraceEval rejects reordered handler invocations", eval_rejects(lambda r: r["obs"]["log"].reverse(), lambda r: two(r) and r["obs"]["log"][0][0] != r["obs"]["log"][-1][0]))
    expect("TraceEval rejects a lock bit that is false", eval_rejects(lambda r: r["obs"]["log"][0].__setitem__(2, False), two))
    expect("TraceEval rejects a changed result", eval_rejects(lambda r: r["obs"].update({"val": ["str", [122]]}), lambda r: r["obs"]["st"] == "ok" and r["obs"]["val"][0] == "num"))

    def engine_rejects(mut):
        sc = {"threads": [[{"op": "reg", "r": "func", "name": "f", "val": "h1"}, {"op": "exec", "r": "func", "name": "f"}], [{"op": "exec", "r": "func", "name": "min"}]], "mode": "free"}
        evs, summ = eng.run_scenario(sc)
        evs = mut(evs)
        p = os.path.join(tlc.WORK, "self-engine.ndjson")
        core.write_ndjson(p, evs)
        res = tlc.run("trace/TraceEngine.tla", "trace/TraceEngine.cfg", workers=1, env={"TRACE": p}, deque=True)
        return res.violation != "NotDone"
    expect("TraceEngine accepts the unmodified run", not engine_rejects(lambda e: e))
    expect("TraceEngine rejects a changed result", engine_rejects(lambda e: [dict(x, res="h9") if x["ev"] == "ret" and x.get("res") == "h1" else x for x in e]))
    expect("TraceEngine rejects a missing init stage", engine_rejects(lambda e: [x for x in e if x.get("site") != "init:stage3"]))
    expect("TraceEngine rejects an access before stage 4 by another thread",
           engine_rejects(lambda e: (lambda own: [dict(x, t=("t2" if own == "t1" else "t1")) if x.get("site") == "access" and x["seq"] < next(y["seq"] for y in e if y.get("site") == "init:stage4") else x for x in e])(next(y["t"] for y in e if y.get("site") == "init:enter"))))
    # Context API: a corrupted recorded result is rejected and attributed by the last writer; a corrupted expected result is a replay mismatch
    import ctxfam
    tp = os.path.join(tlc.WORK, "self-ctxapi.ndjson")
    core.run_vh(["ctxapi-record", "--seed", seed, "--n", 30, "--len", 30, "--out", tp])
    hs = ctxfam.histories_of(core.read_ndjson(tp))

    def ctx_rejects(mut, pid):
        run = core.Run(pid, "quick", seed)
        ctxfam.validate(run, pid, "self", mut(copy.deepcopy(hs)))
        return len(run.violations)

    def corrupt(hists, op):
        for h in hists:
            for k, e in enumerate(h):
                if e["op"] == op and e["obs"][0] in ("ok", "some") and ctxfam.classify(h, k) == ("C08" if op == "get_func" else "C06"):
                    e["obs"] = [e["obs"][0], "v3" if e["obs"][1] != "v3" else "v1"]
                    return hists
        return hists
    expect("TraceContextApi accepts the unmodified histories", ctx_rejects(lambda h: h, "C06") == 0 and ctx_rejects(lambda h: h, "C08") == 0)
    expect("TraceContextApi rejects a changed variable read (C06)", ctx_rejects(lambda h: corrupt(h, "get_variable"), "C06") == 1 and ctx_rejects(lambda h: corrupt(h, "get_variable"), "C08") == 0)
    expect("TraceContextApi rejects a changed function lookup (C08)", ctx_rejects(lambda h: corrupt(h, "get_func"), "C08") == 1 and ctx_rejects(lambda h: corrupt(h, "get_func"), "C06") == 0)
    rp = os.path.join(tlc.WORK, "self-ctxapi-replay.ndjson")
    core.write_ndjson(rp, [{"hist": [{"op": "new", "h": 1, "a1": "", "a2": "", "obs": ["unit"]}, {"op": "set_variable", "h": 1, "a1": "n1", "a2": "v1", "obs": ["unit"]},
                                     {"op": "alias", "h": 2, "a1": "1", "a2": "", "obs": ["unit"]}, {"op": "get_variable", "h": 2, "a1": "n1", "a2": "", "obs": ["nothing"]}]}])
    out, _ = core.run_vh(["ctxapi-replay", rp])
    expect("ctxapi-replay reports a wrong expected result", any("mismatch" in o for o in out))
    # operand-shape independence: a variant tree that regroups the level operators is rejected by TraceShape
    sp = os.path.join(tlc.WORK, "self-shape.ndjson")
    x, y, z, y2 = ["ref", "x"], ["ref", "y"], ["ref", "z"], ["ref", "y2"]
    good = {"pair": 1, "kind": 1, "tight": "*", "base_ok": True, "base": ["bin", "b", ["bin", "a", x, y], z], "var_ok": True, "var": ["bin", "b", ["bin", "a", x, ["bin", "*", y, y2]], z]}
    regrouped = dict(good, var=["bin", "a", x, ["bin", "b", ["bin", "*", y, y2], z]])
    core.write_ndjson(sp, [good, regrouped, dict(good, var_ok=False, var=[])])
    r = tlc.run("trace/TraceShape.tla", "trace/TraceShape.cfg", workers=1, env={"TRACE": sp})
    mm = sorted(p["mismatch"] for p in core.tlc_printed_records(r) if "mismatch" in p)
    expect("TraceShape accepts a substituted operand, rejects a regrouping and a rejection", mm == [1, 2], str(mm))
    bad = [n for n, ok, _ in results if not ok]
    print("selftest: %d of %d passed" % (len(results) - len(bad), len(results)))
    return 1 if bad else 0
