"""C14 - handlers may re-enter the engine without deadlock."""
import evalfam as ef

ACTS = ["parse", "execute", "regfun", "regprefix", "reginfix", "regpostfix", "lockctx-blocking", "execute+text", "lockctx-blocking+text"]


def check(run):
    thorough = run.tier == "thorough"
    run.rules.append("leg M: in the evaluator machine every scripted handler locks the handle of the context it is evaluated in; TLC checks on all program shapes (depth 1 all kinds, depth 2 "
                     "compositions; handler kinds: context function by call / by bare name / as assignment target, global function, user prefix / infix / postfix / assignment operator) that no "
                     "handler is ever entered with the context lock held and that no state is a deadlock (negative control: BareRefHoldsLock); leg R: each depth-1 behaviour is executed by the real "
                     "evaluator 7 more times, every handler additionally performing one re-entrant action - parse_expression, execute, register_function / prefix / infix / postfix, and a "
                     "*blocking* lock of the evaluating context's handle - in a supervised child process (a deadlock is a watchdog time-out, bisected to the case); the outer evaluation must "
                     "complete with the normal result; two more passes run the OUTER evaluation through execute(text) on the rendered program, twice, with handlers that execute / lock the context "
                     "(what execute() keeps between calls is then in play while handlers re-enter); non-trivial = at least one handler invocation")
    run.rules.append("directed: a registered function whose handler evaluates a sub-program calling it again (4 / 16 / 40 levels, each under 40 prefix minuses) and a context function reached by "
                     "bare name that evaluates `[[..[again]..]]` on a context holding itself: the outermost evaluation must return the innermost value")
    run.rules.append("leg T: every handler entry of every recorded random evaluation logs try_lock() on the context handle and on the five global stores; TLC requires all free")
    ef.eval_model_and_replay(run, "reent-d1", ef.mceval_cfg("c14-d1", depth=1, full_faults=False), "C14", acts=[None] + ACTS, sample_filter=lambda r: len(r["log"]) >= 1)
    # handlers that lock the evaluating context AND write to it
    ef.eval_model_and_replay(run, "mutators-d1", ef.mceval_cfg("c14-mut", depth=1, full_faults=False, mutators=True), "C14", acts=[None, "lockctx-blocking"], sample_filter=lambda r: len(r["log"]) >= 1)
    if thorough:
        ef.eval_model_and_replay(run, "reent-d2", ef.mceval_cfg("c14-d2", depth=2, full_faults=False, modes=("mixed",)), "C14", acts=["lockctx-blocking", "execute", "reginfix"], sample_filter=lambda r: len(r["log"]) >= 1)
    else:
        res = ef.tlc.run("mc/MCEval.tla", ef.mceval_cfg("c14-d2", depth=2, full_faults=False, modes=("mixed",), emit=False), workers=16, timeout=2400)
        run.tlc("M:Eval/reent-d2", res)
        if res.violation:
            run.model_violation("Eval/reent-d2", res)
    # directed: re-entrancy at depth (a re-entrant evaluation is an ordinary evaluation; nothing may add up across the nested evaluations of one thread)
    import core
    for levels, pad in ((4, 40), (16, 40), (40, 40)) + (((80, 60),) if thorough else ()):
        try:
            out, _ = core.run_vh(["reent-depth", "--levels", levels, "--pad", pad], timeout=60)
        except Exception as e:
            if "timed out" not in str(e):
                raise
            # the probe did not return: a re-entrant evaluation is stuck (the run is bounded so that it can be reported)
            run.violation("C14/eval/depth", "nested re-entrant evaluation (%d levels) did not return within 60 s: deadlock" % levels, {"family": "reent-depth", "levels": levels, "pad": pad})
            continue
        run.traces += 2
        run.evaluations += 2
        for kind, prog in (("fn", "deepf(%d), each level under %d prefix minuses" % (levels, pad)), ("bare", "`again` by bare name inside %d list brackets, %d levels" % (min(pad, 30), levels))):
            if not out or out[0][kind][0] != "ok" or out[0][kind][1] != ["num", False, [1], 0]:
                run.violation("C14/eval/depth", "nested re-entrant evaluation (%s) gave %s instead of Ok(1)" % (prog, out[0][kind] if out else None), {"family": "reent-depth", "levels": levels, "pad": pad})
    run.leg("R:reent-depth", probes=3 + (1 if thorough else 0))
    ef.eval_trace(run, "random", 20000 if thorough else 3000, run.seed + 13, "C14")
    run.exhaustive = False
    run.assumptions += ["re-entrant registrations use fresh names (reent_*), so they do not change the outer evaluation's result",
                        "deadlock is observed by a 240 s watchdog on a batch that takes seconds; registry-level re-entrancy with concurrent threads is C13's model",
                        "TLC, the JSON encodings and the harness comparison are trusted"]


def replay(path, seed):
    import json, core
    case = json.load(open(path))["case"]
    if case.get("family") == "reent-depth":
        try:
            out, _ = core.run_vh(["reent-depth", "--levels", case["levels"], "--pad", case["pad"]], timeout=60)
        except Exception as e:
            print("did not return:", e)
            return 1
        print(json.dumps(out))
        return 0 if out and all(out[0][k] == ["ok", ["num", False, [1], 0]] for k in ("fn", "bare")) else 1
    return ef.replay(path, seed)
