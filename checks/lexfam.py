"""Lexer family legs shared by C10 (and the lexical halves of C01 / C05 / C11)."""
import json, os
import core, tlc
from core import log

LEX_INV = "TypeOK Tiling TailIsWs StrPayload MaximalMunch WholeWord ClassRules OnBoundary StepBudget ErrOnlyLexical"
ACTIONS = ["Extend", "Start", "Sym", "Num", "Str", "Probe", "Ident", "Look"]


def mc_cfg(name, maxlen, alphabet, ops, slice_mode="char", emit=True):
    path = os.path.join(tlc.WORK, "MCLexer-%s.cfg" % name)
    os.makedirs(tlc.WORK, exist_ok=True)
    with open(path, "w") as f:
        f.write("SPECIFICATION Spec\nCONSTANTS MaxLen = %d\n Alphabet <- %s\n Ops <- %s\n SliceMode = \"%s\"\n Lazy = TRUE\nINVARIANT %s%s\n"
                % (maxlen, alphabet, ops, slice_mode, LEX_INV, " EmitOnce" if emit else ""))
    return path


def ops_args(ops):
    return {"OpsExtended": ["--ops", "extended"], "OpsOdd": ["--ops", "odd"]}.get(ops, [])


def trace_cfg(name, ops):
    path = os.path.join(tlc.WORK, "TraceLexer-%s.cfg" % name)
    with open(path, "w") as f:
        f.write("SPECIFICATION TSpec\nCONSTANTS MaxLen = 0\n Alphabet = {}\n Ops <- %s\n SliceMode = \"char\"\n Lazy = FALSE\nCHECK_DEADLOCK FALSE\n"
                "INVARIANT TypeOK EndInv OnBoundary StepBudget ErrOnlyLexical\n" % ops)
    return path


def chars_str(chars):
    return "".join(chr(c) for c in chars)


def model_and_replay(run, configs, pid_key):
    """configs: list of (name, maxlen, alphabet, opsname). Leg M (TLC exhaustive over all inputs <= maxlen, all Lexer
    invariants in every state) + leg R (every complete behaviour replayed through hook H1 in the real tokenizer)."""
    cov = {}
    for name, maxlen, alphabet, ops in configs:
        res = tlc.run("mc/MCLexer.tla", mc_cfg(name, maxlen, alphabet, ops), workers=16, coverage=True, timeout=1800)
        run.tlc("M:Lexer/exh/" + name, res)
        for a, (d, t) in res.coverage.items():
            cov[a] = cov.get(a, 0) + t
        if res.violation:
            run.model_violation("Lexer/exh/" + name, res)
            continue
        recs = core.tlc_printed_records(res)
        if not recs:
            raise tlc.ToolError("Lexer/exh/%s printed no behaviours" % name)
        path = os.path.join(tlc.WORK, "lex-replay-%s.ndjson" % name)
        core.write_ndjson(path, recs)
        out, _ = core.run_vh(["lex-replay", path] + ops_args(ops))
        summ = [o for o in out if "summary" in o]
        if not summ or summ[0]["summary"]["replayed"] != len(recs):
            raise tlc.ToolError("lex-replay did not process every record (%s)" % name)
        run.traces += len(recs)
        run.evaluations += len(recs)
        run.nontrivial += sum(1 for r in recs if (not r["ok"]) or len(r["toks"]) >= 2)
        run.dontcare += summ[0]["summary"]["dontcare"]
        for r in recs[:: max(1, len(recs) // 3)][:3]:
            run.sample({"leg": "R", "config": name, "input": chars_str(r["chars"]), "spec_ok": r["ok"], "spec_tokens": [[t[0], t[1], t[2]] for t in r["toks"]]})
        for o in out:
            if "mismatch" in o:
                run.violation("%s/lex/replay" % pid_key, "tokenizer disagrees with Lexer spec on %r: %s" % (o["input"], o["why"]),
                              {"family": "lex", "ops": ops, "record": recs[o["mismatch"]], "got": o.get("got"), "why": o["why"]})
        run.leg("R:Lexer/exh/" + name, replayed=len(recs), mismatches=sum(1 for o in out if "mismatch" in o),
                error_variant_agree=summ[0]["summary"].get("variant_agree", 0), error_variant_drift=summ[0]["summary"].get("variant_differ", 0))
    for a in ACTIONS:
        if cov.get(a, 0) == 0:
            raise tlc.ToolError("vacuity guard: Lexer action %s never taken" % a)
    run.extra.setdefault("coverage_by_action", {}).update({"Lexer." + a: cov.get(a, 0) for a in ACTIONS})


def simulate(run, maxlen=16, num=20000, depth=120):
    """Thorough tier: random walks of the Lexer machine over the union of the alphabets, far beyond the exhaustive bound, all invariants on."""
    res = tlc.run("mc/MCLexer.tla", mc_cfg("sim", maxlen, "AllAlpha", "OpsBuiltin", emit=False), workers=16, simulate=num, depth=depth, timeout=1800)
    run.tlc("M:Lexer/sim", res)
    if res.violation:
        run.model_violation("Lexer/sim", res)


def histories(run, maxlen, pid_key, alphabet="A4"):
    """Registration histories: the three user operators (+++ prefix, --- postfix, hi infix) registered in each of the 6 orders,
    with every input <= maxlen of the alphabet tokenized before the first and after each registration; the expected tokens at each
    stage come from the Lexer machine run under exactly the operator set registered so far."""
    import itertools
    bit = {"prefix": 1, "postfix": 2, "infix": 4}
    opname = {"prefix": "+++", "postfix": "---", "infix": "hi"}
    files = {}
    for mask in range(8):
        res = tlc.run("mc/MCLexer.tla", mc_cfg("hist-S%d" % mask, maxlen, alphabet, "OpsS%d" % mask), workers=16, timeout=1800)
        run.tlc("M:Lexer/hist/S%d" % mask, res)
        if res.violation:
            run.model_violation("Lexer/hist/S%d" % mask, res)
            return
        recs = core.tlc_printed_records(res)
        path = os.path.join(tlc.WORK, "lex-hist-S%d.ndjson" % mask)
        core.write_ndjson(path, recs)
        files[mask] = (path, recs)
    nb = 0
    for order in itertools.permutations(["prefix", "postfix", "infix"]):
        mask = 0
        script = [{"replay": files[0][0], "stage": "S0"}]
        for k in order:
            mask |= bit[k]
            script.append({"reg": [k, opname[k]]})
            script.append({"replay": files[mask][0], "stage": "S%d" % mask})
        sp = os.path.join(tlc.WORK, "lex-hist-script.json")
        json.dump(script, open(sp, "w"))
        out, _ = core.run_vh(["lex-history", sp])
        summ = [o for o in out if "summary" in o]
        if len(summ) != 4:
            raise tlc.ToolError("lex-history did not run every stage")
        for s_ in summ:
            run.traces += s_["summary"]["replayed"]
            run.evaluations += s_["summary"]["replayed"]
        for o in out:
            if "mismatch" in o:
                nb += 1
                m = int(o["stage"][1:])
                run.violation("%s/lex/history" % pid_key, "after registering %s (in this order), tokenizer disagrees with the Lexer spec under that operator set on %r: %s"
                              % ([k for k in order if bit[k] & m], o["input"], o["why"]),
                              {"family": "lex-history", "order": list(order), "stage": o["stage"], "record": files[m][1][o["mismatch"]], "got": o.get("got"), "why": o["why"]})
    run.leg("R:Lexer/histories", orders=6, stages=4, mismatches=nb)


def trace_validate(run, n, maxlen, seed, ops, pid_key, shards=16):
    """Leg T: random UTF-8 inputs tokenized by the real code, each execution validated by TLC against the Lexer machine."""
    path = os.path.join(tlc.WORK, "lex-trace-%s.ndjson" % ops)
    core.run_vh(["lex-record", "--seed", seed, "--n", n, "--maxlen", maxlen, "--out", path] + ops_args(ops))
    recs = core.read_ndjson(path)
    parts, k = core.shard(recs, shards)
    files = []
    for i, part in enumerate(parts):
        p = os.path.join(tlc.WORK, "lex-trace-%s-%d.ndjson" % (ops, i))
        core.write_ndjson(p, part)
        files.append(p)
    cfg = trace_cfg(ops, "BuiltinOps" if ops == "OpsBuiltin" else "ExtendedOps")
    results = core.parallel([(lambda p=p: tlc.run("trace/TraceLexer.tla", cfg, workers=1, env={"TRACE": p}, deque=True, xmx="2g", timeout=1800)) for p in files])
    nm = 0
    for i, res in enumerate(results):
        run.tlc("T:TraceLexer/%s/%d" % (ops, i), res)
        if res.violation:
            run.violation("%s/lex/trace-invariant/%s" % (pid_key, res.violation), "a recorded tokenizer execution drives the Lexer machine into a state violating %s" % res.violation,
                          {"family": "lex", "ops": ops, "shard_file": files[i], "tlc_error": res.error_text[:4000]})
            continue
        prs = core.tlc_printed_records(res)
        done = [p for p in prs if "done" in p]
        if not done or done[0]["done"] != len(parts[i]):
            raise tlc.ToolError("TraceLexer did not consume every record of shard %d" % i)
        run.dontcare += done[0]["dontcare"]
        for p in prs:
            if "mismatch" in p:
                rec = parts[i][p["mismatch"]]
                nm += 1
                run.violation("%s/lex/trace" % pid_key, "recorded tokenizer execution on %r is not a behaviour of the Lexer spec" % chars_str(rec["chars"]),
                              {"family": "lex", "ops": ops, "record": {"chars": rec["chars"], "ok": p["spec"]["ok"], "dc": False, "toks": p["spec"]["toks"]},
                               "got": {"ok": rec["ok"], "panic": rec["panic"], "toks": rec["toks"]}})
    run.traces += len(recs)
    run.evaluations += len(recs)
    run.nontrivial += len({json.dumps(r["chars"]) for r in recs if (not r["ok"]) or len(r["toks"]) >= 2})
    for r in recs[:2]:
        run.sample({"leg": "T", "ops": ops, "input": chars_str(r["chars"])[:80], "impl_ok": r["ok"], "impl_tokens": len(r["toks"])})
    run.leg("T:TraceLexer/" + ops, recorded=len(recs), mismatches=nm)


def validate_texts(run, name, texts_path, pid_key, shards=16):
    """Tokenizer executions on the given program texts, validated against the Lexer machine (lexical clauses of C05)."""
    path = os.path.join(tlc.WORK, "lex-obs-%s.ndjson" % name)
    core.run_vh(["lex-observe", texts_path, "--out", path])
    recs = core.read_ndjson(path)
    parts, k = core.shard(recs, shards)
    files = []
    for i, part in enumerate(parts):
        p = os.path.join(tlc.WORK, "lex-obs-%s-%d.ndjson" % (name, i))
        core.write_ndjson(p, part)
        files.append(p)
    cfg = trace_cfg("obs-" + name, "BuiltinOps")
    results = core.parallel([(lambda p=p: tlc.run("trace/TraceLexer.tla", cfg, workers=1, env={"TRACE": p}, deque=True, xmx="2g", timeout=1800)) for p in files])
    nm = 0
    for i, res in enumerate(results):
        run.tlc("T:TraceLexer/%s/%d" % (name, i), res)
        if res.violation:
            run.violation("%s/lex/trace-invariant/%s" % (pid_key, res.violation), "recorded tokenizer execution violates %s" % res.violation, {"family": "lex", "ops": "OpsBuiltin", "tlc_error": res.error_text[:3000]})
            continue
        prs = core.tlc_printed_records(res)
        if not any(p.get("done") == len(parts[i]) for p in prs):
            raise tlc.ToolError("TraceLexer did not consume every record (%s/%d)" % (name, i))
        for p in prs:
            if "mismatch" in p:
                nm += 1
                rec = parts[i][p["mismatch"]]
                run.violation("%s/lex/trace" % pid_key, "tokenizer outcome on %r is not a behaviour of the Lexer spec (spec: %s)" % (chars_str(rec["chars"])[:200], "tokens" if p["spec"]["ok"] else "lexical error"),
                              {"family": "lex", "ops": "OpsBuiltin", "record": {"chars": rec["chars"], "ok": p["spec"]["ok"], "dc": False, "toks": p["spec"]["toks"]}})
    run.traces += len(recs)
    run.leg("T:TraceLexer/" + name, recorded=len(recs), mismatches=nm)


def replay(path, seed):
    payload = json.load(open(path))["case"]
    if payload.get("family") == "lex-history":
        # re-run the whole registration history up to the stage of the mismatch
        bit = {"prefix": 1, "postfix": 2, "infix": 4}
        opname = {"prefix": "+++", "postfix": "---", "infix": "hi"}
        one = os.path.join(tlc.WORK, "lex-hist-one.ndjson")
        core.write_ndjson(one, [payload["record"]])
        empty = os.path.join(tlc.WORK, "lex-hist-empty.ndjson")
        core.write_ndjson(empty, [])
        script, mask = [{"replay": one if payload["stage"] == "S0" else empty, "stage": "S0"}], 0
        # warm-up: tokenize the input once before anything is registered (what the history did)
        script[0] = {"replay": one if payload["stage"] == "S0" else empty, "stage": "S0"}
        warm = os.path.join(tlc.WORK, "lex-hist-warm.ndjson")
        core.write_ndjson(warm, [dict(payload["record"], dc=True)])
        script.insert(0, {"replay": warm, "stage": "warm"})
        for k in payload["order"]:
            mask |= bit[k]
            script.append({"reg": [k, opname[k]]})
            script.append({"replay": one if payload["stage"] == "S%d" % mask else warm, "stage": "S%d" % mask})
            if payload["stage"] == "S%d" % mask:
                break
        sp = os.path.join(tlc.WORK, "lex-hist-one.json")
        json.dump(script, open(sp, "w"))
        out, _ = core.run_vh(["lex-history", sp])
        bad = [o for o in out if "mismatch" in o]
        print(json.dumps({"input": chars_str(payload["record"]["chars"]), "order": payload["order"], "stage": payload["stage"], "mismatch": bad}, indent=1))
        return 1 if bad else 0
    rec = payload["record"]
    p = os.path.join(tlc.WORK, "lex-replay-one.ndjson")
    core.write_ndjson(p, [rec])
    out, _ = core.run_vh(["lex-replay", p] + ops_args(payload.get("ops")))
    bad = [o for o in out if "mismatch" in o]
    print(json.dumps({"input": chars_str(rec["chars"]), "spec": rec, "mismatch": bad}, indent=1))
    return 1 if bad else 0
