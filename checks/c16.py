"""C16 - evaluations are deterministic and isolated from one another."""
import json, os
import core, tlc
import evalfam as ef, enginefam as eng, prattfam as pf


def determinism(run, name, recs):
    path = os.path.join(tlc.WORK, "determinism-%s.ndjson" % name)
    core.write_ndjson(path, recs)
    out, _ = core.run_vh(["determinism-replay", path], timeout=1800)
    summ = [o for o in out if "summary" in o]
    if not summ or summ[0]["summary"]["cases"] < len(recs):
        raise tlc.ToolError("determinism-replay did not run every case")
    run.traces += 7 * len(recs)
    run.evaluations += 7 * len(recs)
    for o in out:
        if "mismatch" in o:
            rec = recs[o["mismatch"]]
            run.violation("C16/determinism", "%s: %s" % (ef.show_prog(rec["prog"]), "; ".join(o["why"])), {"family": "determinism", "record": rec, "neighbour": recs[(o["mismatch"] + 1) % len(recs)], "why": o["why"]})
    run.leg("R:determinism/" + name, cases=len(recs), mismatches=summ[0]["summary"]["mismatches"], text_path_cases=summ[0]["summary"].get("text_path", 0),
            text_path_skipped=summ[0]["summary"].get("text_path_skipped", 0))


def history_dependence(run, maxlen=3, alphabet="A4"):
    """Tokenization may depend on the registrations made so far, never on what was tokenized before them: for each user operator
    (+++ prefix, --- postfix, hi infix) every input <= maxlen characters is tokenized after the registration once in a process that
    tokenized all of them BEFORE the registration as well, and once in a process that did not.  A disagreement with the Lexer machine
    that only the first process shows is history dependence (a remembered answer that a registration did not invalidate)."""
    import lexfam
    bit = {"prefix": 1, "postfix": 2, "infix": 4}
    opname = {"prefix": "+++", "postfix": "---", "infix": "hi"}
    files = {}
    for mask in (0, 1, 2, 4):
        res = tlc.run("mc/MCLexer.tla", lexfam.mc_cfg("c16-hist-S%d" % mask, maxlen, alphabet, "OpsS%d" % mask), workers=16, timeout=1800)
        run.tlc("M:Lexer/c16-hist/S%d" % mask, res)
        if res.violation:
            run.model_violation("Lexer/c16-hist/S%d" % mask, res)
            return
        recs = core.tlc_printed_records(res)
        path = os.path.join(tlc.WORK, "c16-lex-hist-S%d.ndjson" % mask)
        core.write_ndjson(path, recs)
        files[mask] = (path, recs)
    nb = 0
    for k in ("prefix", "postfix", "infix"):
        m = bit[k]
        bad = {}
        for variant in ("history", "fresh"):
            script = ([{"replay": files[0][0], "stage": "S0"}] if variant == "history" else []) + [{"reg": [k, opname[k]]}, {"replay": files[m][0], "stage": "S%d" % m}]
            sp = os.path.join(tlc.WORK, "c16-lex-hist-script.json")
            json.dump(script, open(sp, "w"))
            out, _ = core.run_vh(["lex-history", sp])
            bad[variant] = {o["mismatch"]: o for o in out if "mismatch" in o and o["stage"] == "S%d" % m}
            run.traces += len(files[m][1])
            run.evaluations += len(files[m][1])
        for idx, o in bad["history"].items():
            if idx not in bad["fresh"]:
                nb += 1
                run.violation("C16/lex-history", "after register_%s_op(%r), tokenizing %r gives %s only when inputs had been tokenized before the registration (a fresh process gives the specified tokens)"
                              % (k, opname[k], o["input"], o["why"]), {"family": "lex-history", "order": [k], "stage": "S%d" % m, "record": files[m][1][idx], "got": o.get("got"), "why": o["why"]})
    run.leg("R:Lexer/history-dependence", operators=3, mismatches=nb)


def check(run):
    thorough = run.tier == "thorough"
    run.rules.append("leg M: in the specification an evaluation's result is a function of (program, context contents, registrations so far) by construction of Den and of the atomic engine, "
                     "so any execution that needs other state is rejected by the conformance legs; TLC checks the action property EvalReadsOnly on the Engine model (no parse/evaluation step changes a "
                     "registry) and machine = Den on the statement-chain family (programs that assign, fail midway and reuse names); leg R: every such behaviour is evaluated three times on equal fresh "
                     "contexts, interleaved with its neighbours' evaluations in the same process; outcomes must be identical and equal the denotation, the registry snapshot (hook H5: names, precedence, "
                     "associativity, type, handler identity) equal before and after every parse and evaluation, and parsing the rendered program twice (with an unrelated failing parse in between) must "
                     "give equal trees; records with the same program share ONE ExprAST value that is evaluated on each of their contexts in turn; every program is also rendered, copied into ONE line buffer "
                     "that is reused for all programs, parsed from there and evaluated, and where the text parses back to the specified tree the outcome must be the denotation; "
                     "non-trivial = every case (each is compared across 3 runs)")
    run.rules.append("leg T: %d random programs evaluated concurrently by 8 threads, each on its own contexts, no registrations: every recorded outcome validated by TLC against Den; "
                     "sequential histories in fresh processes interleaving evaluations of different registry cells validated against the atomic engine" % (16000 if thorough else 2400))
    run.rules.append("history dependence of the tokenizer: every input <= 3 characters tokenized after registering +++ / --- / hi, once in a process that had tokenized all of them before the registration "
                     "and once in a fresh one; expected tokens from the Lexer machine under the registered set; a disagreement only the first process shows is a violation")
    history_dependence(run)
    eng.model(run, which=["initA", "initC", "reent"])
    recs = ef.eval_model_and_replay(run, "assign", ef.mceval_cfg("c16-assign", family="assign", chain=2), "C16", sample_filter=lambda r: True)
    step = 1 if thorough else 6
    determinism(run, "assign", recs[::step])
    run.nontrivial += len(recs[::step])
    shapes = ef.eval_model_and_replay(run, "shapes-d1", ef.mceval_cfg("c16-d1", depth=1, full_faults=False, modes=("mixed",)), "C16", sample_filter=lambda r: True)
    determinism(run, "shapes-d1", shapes[::(1 if thorough else 2)])
    # every ordered pair of the dispatch configurations (the same name resolved globally, then through a shadowing context, ...)
    disp = ef.eval_model_and_replay(run, "dispatch", ef.mceval_cfg("c16-dispatch", family="dispatch"), "C16", sample_filter=lambda r: True)
    pairs = []
    for a in disp:
        for b in disp:
            pairs += [a, b]
    determinism(run, "dispatch-pairs", pairs)
    cond = ef.eval_model_and_replay(run, "cond", ef.mceval_cfg("c16-cond", family="cond"), "C16", sample_filter=lambda r: True)
    determinism(run, "cond", cond + cond)
    ef.eval_trace(run, "concurrent", 16000 if thorough else 2400, run.seed + 21, "C16", threads=8)
    run.exhaustive = False
    run.assumptions += ["handler identity in the registry snapshot is the Arc pointer; evaluations of the harness's own cases re-register their marker handlers, so across cases names and configuration are compared",
                        "with several evaluating threads the try_lock probes of the global stores are not used (another thread may legitimately be inside its critical section)",
                        "TLC, hooks H4/H5 and the encodings are trusted"]


def replay(path, seed):
    case = json.load(open(path))["case"]
    if case["family"] == "lex-history":
        import lexfam
        return lexfam.replay(path, seed)
    if case["family"] == "determinism":
        p = os.path.join(tlc.WORK, "determinism-one.ndjson")
        core.write_ndjson(p, [case["record"], case["neighbour"]])
        out, _ = core.run_vh(["determinism-replay", p])
        print(json.dumps(out, indent=1)[:2000])
        return 1 if any("mismatch" in o for o in out) else 0
    return ef.replay(path, seed)
