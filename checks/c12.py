"""C12 - expr() output re-parses to the same AST."""
import os
import core, tlc
import prattfam as pf

INV = "PrattAgreesWithGrammar RenderRoundTrip"
OPS_FILE = os.path.join(tlc.SPEC, "mc", "bigtable.json")
PRE_OPS_FILE = os.path.join(tlc.SPEC, "mc", "bigtable-pre.json")


def render_replay(run, name, recs, ops_file=None, table="BuiltinTable", pre_ops_file=None):
    path = os.path.join(tlc.WORK, "render-replay-%s.ndjson" % name)
    tpath = os.path.join(tlc.WORK, "render-trace-%s.ndjson" % name)
    core.write_ndjson(path, recs)
    out, _ = core.run_vh(["render-replay", path, "--seed", run.seed, "--trace-out", tpath] + (["--ops-file", ops_file] if ops_file else []) + (["--pre-ops-file", pre_ops_file] if pre_ops_file else []))
    finish(run, name, out, tpath, "replay", ops_file, table, pre_ops_file)


def finish(run, name, out, tpath, kind, ops_file=None, table="BuiltinTable", pre_ops_file=None):
    summ = [o for o in out if "summary" in o]
    if not summ:
        raise tlc.ToolError("render-%s produced no summary (%s)" % (kind, name))
    s = summ[0]["summary"]
    run.traces += s["checked"]
    run.evaluations += s["checked"]
    for o in out:
        if "mismatch" in o:
            run.violation("C12/render/%s" % kind, "%s (program %r)" % (o["why"], o["text"]), {"family": "render", "text": o["text"], "why": o["why"], "ops_file": ops_file, "pre_ops_file": pre_ops_file})
    run.leg("R:render/" + name, checked=s["checked"], mismatches=s["mismatches"], skipped=s["skipped"])
    # the rendered text must *mean* the tree: reference grammar on the tokens of expr()
    trecs = core.read_ndjson(tpath)
    if trecs:
        run.sample({"leg": "R/T", "config": name, "program": trecs[0]["from"], "expr()": trecs[0]["text"]})
        pf.validate_records(run, "render-" + name, trecs, "C12", "C12", table=table, ops_file=ops_file)


def check(run):
    thorough = run.tier == "thorough"
    run.rules.append("leg M: for every tree the Pratt machine returns on (a) all token strings <= 4 tokens over the operator alphabet, (b) all ordered pairs of built-in "
                     "infix operators in 6 shapes, (c) 20 decorations over representative pairs%s: RefParse(Render(t)) = t and Render idempotent "
                     "(validates where parentheses are needed); leg R: each such program parsed by the real parser, expr() re-parsed (must equal), "
                     "rendered again (must be the same string), and the token sequence of expr() given to TLC: RefParse(tokens) must be the tree; "
                     "non-trivial = tree with at least two operator tokens" % (", (d) all triples over representatives" if thorough else ""))
    run.rules.append("leg T: random programs (strings with either quote, calls, lists, maps, conditionals, chains), same checks")
    fams = [("exh-ops", dict(lazy=True, maxlen=4, alphabet="OpsAlpha")), ("pairs", dict(lazy=False, source="PairSource", firstset="PairSet")),
            ("decor", dict(lazy=False, source="DecorSource", firstset="DecorSet"))]
    if thorough:
        fams.append(("triples", dict(lazy=False, source="TripleSource", firstset="TripleSet")))
    run.rules.append("user operators: all ordered pairs over the 28 registered word operators (adjacent and extreme precedences, both associativities) and 7 built-in representatives in 6 shapes; "
                     "in the real engine the same names are FIRST registered with other precedences and flipped associativities, every program is parsed and rendered once under that table, "
                     "and only then the table under test is registered: expr() must follow the registrations in force")
    fams.append(("user-pairs", dict(lazy=False, source="UPairSource", firstset="UPairSet", table="BigTable")))
    for name, kw in fams:
        res = tlc.run("mc/MCPratt.tla", pf.pratt_cfg("c12-" + name, inv=INV, **kw), workers=16, timeout=2400)
        run.tlc("M:Render/" + name, res)
        if res.violation:
            run.model_violation("Render/" + name, res)
            continue
        recs = [r for r in core.tlc_printed_records(res) if r.get("ok")]
        run.nontrivial += sum(1 for r in recs if pf.nontrivial(r, "C12"))
        if name == "user-pairs":
            render_replay(run, name, recs, ops_file=OPS_FILE, table="BigTable", pre_ops_file=PRE_OPS_FILE)
        else:
            render_replay(run, name, recs)
    # directed: long chains, whose rendering nests differently from the source (`x not in x not in ...` renders as not (not (...)))
    run.rules.append("directed deep programs: chains of 100 / 127 / 128 / 200 `not in`, 200 prefix minuses, 120 parentheses, 100 right-nested subtractions: whatever the parser accepts must render to text it accepts again as the same tree")
    deep = [("x " + "not in x " * n).strip() for n in (100, 127, 128, 200)] + ["- " * 200 + "x", "(" * 120 + "x" + ")" * 120, "1 - (" * 100 + "1" + ")" * 100, "! " * 100 + "(a && b)"]
    for text in deep:
        out, _ = core.run_vh(["render-one", text])
        run.traces += 1
        run.evaluations += 1
        if out and out[0].get("parsed") and out[0].get("why"):
            run.violation("C12/render/deep", "%s (program %r...)" % (out[0]["why"][:200], text[:60]), {"family": "render", "text": text, "why": out[0]["why"][:300], "ops_file": None, "pre_ops_file": None})
    run.leg("R:render/deep", programs=len(deep))
    tpath = os.path.join(tlc.WORK, "render-trace-random.ndjson")
    out, _ = core.run_vh(["render-record", "--seed", run.seed, "--n", 10000 if thorough else 1500, "--trace-out", tpath])
    finish(run, "random", out, tpath, "record")
    run.exhaustive = False
    run.assumptions += ["names are not operator words", "the text of expr() is never compared with Render (spacing and redundant parentheses are free); only its meaning is",
                        "TLC, hook H1, the JSON encodings and the harness's comparison code are trusted"]


def replay(path, seed):
    import json
    case = json.load(open(path))["case"]
    if case["family"] == "render":
        out, _ = core.run_vh(["render-one", case["text"]] + (["--ops-file", case["ops_file"]] if case.get("ops_file") else []) + (["--pre-ops-file", case["pre_ops_file"]] if case.get("pre_ops_file") else []))
        print(json.dumps(out, indent=1))
        return 1 if any(o.get("why") for o in out) else 0
    return pf.replay(path, seed)
