"""C05 - malformed input is rejected, never silently repaired."""
import prattfam as pf


def check(run):
    thorough = run.tier == "thorough"
    run.rules.append("leg M/R: every token string of <= 5 tokens over {n f ( ) [ ] { } , : ; - ?} and of <= %d tokens over four focused 7-9 token alphabets "
                     "(calls, lists, maps, conditionals) explored lazily by TLC through the Pratt machine; an accepted string must be a sentence of the "
                     "reference grammar (with the same tree), a MustReject string must be rejected; every behaviour replayed in the real parser; "
                     "non-trivial = MustReject string of at least two tokens" % (7 if thorough else 6))
    run.rules.append("leg T: random programs with 1-2 token-level edits (delete / insert / replace / swap a delimiter or separator) and character-level "
                     "corruptions (unterminated strings, malformed numbers), parsed by the real parser and judged by TLC with Lexer-level failure => reject and RefParse on the tokens")
    pf.model_and_replay(run, "exh-delims", pf.pratt_cfg("exh-delims", lazy=True, maxlen=5, alphabet="DelAlpha"), "C05", "C05")
    k = 7 if thorough else 6
    for name, alpha, n in (("call", "CallAlpha", k), ("list", "ListAlpha", k), ("map", "MapAlpha", k), ("tern", "TernAlpha", k - 1)):
        pf.model_and_replay(run, "exh-" + name, pf.pratt_cfg("exh-" + name, lazy=True, maxlen=n, alphabet=alpha), "C05", "C05")
    pf.trace_validate(run, "tokcorrupt", 20000 if thorough else 1600, run.seed, 100, "C05", "C05")
    pf.trace_validate(run, "charcorrupt", 20000 if thorough else 1600, run.seed + 7, 0, "C05", "C05", extra_args=["--charcorrupt", "100"])
    # the same corrupted texts through the Lexer machine: an unterminated string or a malformed number must be a lexical error,
    # not silently tokenized as something else (the parser-level judgement above takes the tokens the engine reports as given)
    import lexfam, os, tlc
    lexfam.validate_texts(run, "charcorrupt", os.path.join(tlc.WORK, "parse-trace-charcorrupt.ndjson"), "C05")
    if thorough:
        pf.simulate(run, alphabet="DelCallMap")
    run.exhaustive = False
    run.assumptions += ["token strings are laid out with single spaces", "hook H1 reports the token sequence the parser sees",
                        "the lenient readings the property allows (`;` omitted or trailing, trailing comma in list/map) and an unregistered operator in prefix position are MayAccept",
                        "TLC, the JSON encodings, the concretisation table and the harness's comparison code are trusted"]


def replay(path, seed):
    return pf.replay(path, seed)
