"""C08 - names and operators dispatch to the handler and binding last registered."""
import itertools, json, os, subprocess
import core, tlc
import prattfam as pf, evalfam as ef, enginefam as eng, ctxfam

OPS_FILE = os.path.join(tlc.SPEC, "mc", "bigtable.json")


def tlaps(run):
    """Proof leg: the binding-power lemmas for ALL precedences (TLAPS)."""
    d = os.path.join(tlc.WORK, "tlaps")
    os.makedirs(d, exist_ok=True)
    import shutil
    shutil.copy(os.path.join(tlc.SPEC, "BindingPower.tla"), d)
    try:
        p = subprocess.run(["tlapm", "--threads", "4", "--cleanfp", "BindingPower.tla"], cwd=d, stdout=subprocess.PIPE, stderr=subprocess.STDOUT, text=True, timeout=600)
    except subprocess.TimeoutExpired:
        raise tlc.ToolError("tlapm timed out")
    import re
    m = re.search(r"All (\d+) obligations? proved", p.stdout)
    if not m:
        f = re.search(r"(\d+)/(\d+) obligations? failed", p.stdout)
        if f:
            run.violation("C08/model/BindingPower", "TLAPS could not prove %s of %s binding-power obligations" % (f.group(1), f.group(2)), {"family": "tlaps", "output": p.stdout[-3000:]})
            return
        raise tlc.ToolError("tlapm gave no verdict:\n%s" % p.stdout[-2000:])
    run.extra["tlaps_obligations_proved"] = int(m.group(1))
    run.leg("M:TLAPS/BindingPower", obligations=int(m.group(1)), proved=int(m.group(1)))


def histories(run, maxlen):
    """Sequential registration / evaluation histories, each in a fresh process (the registries cannot be reset): every sequence of
    <= maxlen calls over {register h1, register h2, evaluate} of one registry cell, for 9 cells (new names, built-in overrides,
    every operator kind); the first call of a process may be a registration (override before first use)."""
    scenarios = []
    for (r, nm) in eng.CELLS:
        def reg(h):
            c = {"op": "reg", "r": r, "name": nm, "val": h}
            if r == "infix":
                c.update({"prec": 110 if nm == "+" else 115, "assoc": "L"})
            return c
        alphabet = [reg("h1"), reg("h2"), {"op": "exec", "r": r, "name": nm}]
        for n in range(1, maxlen + 1):
            for seq in itertools.product(alphabet, repeat=n):
                if not any(c["op"] == "exec" for c in seq):
                    continue
                scenarios.append({"threads": [list(seq)], "mode": "free"})
    # two cells interleaved: a registration of one never affects the other
    for (a, b) in [(("func", "f"), ("func", "g2")), (("prefix", "upre"), ("postfix", "upost")), (("infix", "uin"), ("infix", "+")), (("func", "min"), ("prefix", "-"))]:
        ra = {"op": "reg", "r": a[0], "name": a[1], "val": "h1", "prec": 115, "assoc": "L"}
        rb = {"op": "reg", "r": b[0], "name": b[1], "val": "h2", "prec": 110 if b[1] == "+" else 115, "assoc": "L"}
        ea, eb = {"op": "exec", "r": a[0], "name": a[1]}, {"op": "exec", "r": b[0], "name": b[1]}
        for seq in itertools.permutations([ra, rb, ea, eb]):
            scenarios.append({"threads": [list(seq) + [ea, eb]], "mode": "free"})
    # an infix operator re-registered at another precedence: later parses use the new precedence
    for seq in itertools.product([eng.pin_reg(1, False), eng.pin_reg(3, True), eng.pin_reg(5, False), dict(eng.PIN_EXEC)], repeat=maxlen):
        if seq[-1].get("op") == "exec" and any(c["op"] == "reg" for c in seq):
            scenarios.append({"threads": [list(seq)], "mode": "free"})
    eng.run_many(run, "histories", scenarios, "C08", "C08/history")


def check(run):
    thorough = run.tier == "thorough"
    run.rules.append("dispatch - leg M/R: 12 binding configurations of a called name (context function, global function, both, context variable with and without a global, nothing, "
                     "built-in, built-in shadowed by the context, built-in replaced globally, a name that turns from function into variable mid-program) in the Eval machine vs Den, "
                     "replayed on the real evaluator with marker handlers; histories - every sequence of <= %d calls over {register h1, register h2, evaluate} for 9 registry cells (new "
                     "names and built-in overrides of every operator kind, the first call of the process possibly a registration) plus interleavings of two cells, each in a fresh process, "
                     "validated by TLC against the atomic engine (last writer wins); tables - 28 user operators at precedences 1,2,3,109..111,119..121,199..201,10^9-1,10^9 x {left,right} "
                     "registered together: all ordered pairs of them and of 7 built-in representatives in 6 shapes through the Pratt machine vs the reference grammar under that table, "
                     "replayed in the real parser; the binding-power arithmetic is proved by TLAPS for all precedences; non-trivial = accepted sentence with >= 2 operators / history with a registration" % (4 if thorough else 3))
    run.rules.append("leg T: random programs using the user operators, parsed by the real parser with the 28 operators registered, judged by TLC with RefParse under the extended table")
    tlaps(run)
    ef.eval_model_and_replay(run, "dispatch", ef.mceval_cfg("c08-dispatch", family="dispatch"), "C08", sample_filter=lambda r: True)
    histories(run, 4 if thorough else 3)
    run.rules.append("levels holding both associativities (every user level of the 28-operator table; 110 and 120 together with + - * / %): the grammar leaves the grouping of "
                     "`x L y R z` unspecified, but it may not depend on the operands' shape: for every ordered pair of such operators the tree of the base sentence and of the three variants "
                     "(one operand replaced by a chain of the next tighter operator, or parenthesised) are recorded from the real parser and judged by TLC (TraceShape: variant = base with the operand substituted)")
    pf.shape_independence(run, "c08-mix", "C08", OPS_FILE)
    # registration history: every user operator is FIRST registered at the same precedence with the opposite associativity, every sentence is parsed once, then the table under test is registered
    pf.model_and_replay(run, "user-pairs", pf.pratt_cfg("c08-upairs", lazy=False, source="UPairSource", firstset="UPairSet", table="BigTable"), "C08", "C08", ops_file=OPS_FILE,
                        pre_ops_file=os.path.join(tlc.SPEC, "mc", "bigtable-flip.json"))
    pf.trace_validate(run, "user-ops", 6000 if thorough else 800, run.seed, 0, "C08", "C08", ops_file=OPS_FILE, table="BigTable")
    run.rules.append("Context API (spec/ContextApi.tla): operation histories on real Contexts in both directions (see C06); here the mismatches whose name was last written as a function "
                     "entry (set_func, create_context! with a closure) or whose failing operation is a call / get_func")
    ctxfam.model_and_replay(run, "C08")
    ctxfam.trace(run, "C08", "hist", run.seed + 19, 3000 if thorough else 400, 60 if thorough else 40)
    run.exhaustive = False
    run.assumptions += ["two operators of equal precedence and different associativity: grouping unspecified (counted as don't-care)", "results are projected onto marker handler identities",
                        "TLAPS (Zenon / SMT back ends) is trusted for the arithmetic lemmas; TLC, hooks H1/H5 and the encodings for the rest"]


def replay(path, seed):
    case = json.load(open(path))["case"]
    if case["family"].startswith("ctxapi"):
        return ctxfam.replay(path, seed)
    if case["family"] == "engine":
        return eng.replay(path, seed)
    if case["family"] in ("eval", "eval-trace"):
        return ef.replay(path, seed)
    return pf.replay(path, seed)
