"""Context API family: spec/ContextApi.tla bound to src/context.rs + execute() in both directions.

A mismatch is attributed to exactly one property by the LAST WRITER of the name the failing operation touches:
  - the failing operation is exec_call / get_func / set_func, or the name's entry was last written as a function
    (set_func, a function pair of a create_context! template)                      -> C08 (names dispatch to the binding set last)
  - otherwise (variable bindings, reads of unbound names, handle creation)         -> C06 (bindings are exactly those made)
Each check reports only its own class; the other class is counted in the evidence ("other_property")."""
import json, os
import core, tlc

TEMPLATES = {1: [], 2: [("n1", "var")], 3: [("n1", "fn"), ("n2", "var")], 4: [("n1", "var"), ("n1", "fn")], 5: [("n2", "fn"), ("n1", "var"), ("n2", "var")]}
CFG = os.path.join(tlc.SPEC, "mc", "MCContextApi.cfg")
TCFG = os.path.join(tlc.SPEC, "trace", "TraceContextApi.cfg")


def classify(hist, k):
    """hist: events of one history; k: index of the event whose result is wrong."""
    e = hist[k]
    if e["op"] in ("exec_call", "get_func", "set_func"):
        return "C08"
    store, nxt, last = {}, 0, {}
    for ev in hist[:k]:
        op, h = ev["op"], ev["h"]
        if op == "new":
            nxt += 1
            store[h] = nxt
        elif op == "macro":
            nxt += 1
            store[h] = nxt
            for name, kind in TEMPLATES[int(ev["a1"])]:
                last[(nxt, name)] = kind
        elif op == "alias":
            store[h] = store.get(int(ev["a1"]))
        elif op in ("set_variable", "exec_assign"):
            last[(store.get(h), ev["a1"])] = "var"
        elif op == "set_func":
            last[(store.get(h), ev["a1"])] = "fn"
    if e["op"] in ("new", "macro", "alias"):
        return "C06"
    return "C08" if last.get((store.get(e["h"]), e["a1"])) == "fn" else "C06"


def show(hist, k):
    return "; ".join("%s(%s)" % (ev["op"], ", ".join(str(x) for x in (ev["h"], ev["a1"], ev["a2"]) if x != "")) for ev in hist[:k + 1])


def model_and_replay(run, pid):
    res = tlc.run("mc/MCContextApi.tla", CFG, workers=16, timeout=1200)
    run.tlc("M:ContextApi", res)
    if res.violation:
        run.model_violation("ContextApi", res)
        return
    recs = core.tlc_printed_records(res)
    if not recs:
        raise tlc.ToolError("ContextApi printed no histories")
    path = os.path.join(tlc.WORK, "ctxapi-replay.ndjson")
    core.write_ndjson(path, recs)
    out, _ = core.run_vh(["ctxapi-replay", path], timeout=1200)
    summ = [o for o in out if "summary" in o]
    if not summ or summ[0]["summary"]["histories"] != len(recs):
        raise tlc.ToolError("ctxapi-replay did not process every history")
    run.traces += len(recs)
    run.evaluations += summ[0]["summary"]["steps"]
    run.nontrivial += len(recs)
    other = 0
    for o in out:
        if "mismatch" in o:
            hist = recs[o["mismatch"]]["hist"]
            cls = classify(hist, o["step"])
            if cls != pid:
                other += 1
                continue
            run.violation("%s/context-api/%s" % (pid, hist[o["step"]]["op"]),
                          "Context API history %s: spec %s engine %s" % (show(hist, o["step"]), json.dumps(hist[o["step"]]["obs"]), json.dumps(o["got"])),
                          {"family": "ctxapi", "hist": hist, "step": o["step"], "got": o["got"]})
    run.sample({"leg": "M/R", "config": "ContextApi", "history": show(recs[len(recs) // 2]["hist"], 99)})
    run.leg("R:ContextApi", histories=len(recs), steps=summ[0]["summary"]["steps"], mismatches=summ[0]["summary"]["mismatches"], other_property=other)


def histories_of(trace):
    hs = []
    for r in trace:
        if r["op"] == "reset":
            hs.append([])
        else:
            hs[-1].append(r)
    return hs


def validate(run, pid, name, hists):
    """TLC validates the concatenated histories; on a rejection the failing history is classified and validation goes on with the rest."""
    other = bad = 0
    rest = list(hists)
    rounds = 0
    while rest and rounds < 40:
        rounds += 1
        path = os.path.join(tlc.WORK, "ctxapi-trace-%s-%d.ndjson" % (name, rounds))
        flat = []
        for h in rest:
            flat.append({"op": "reset", "h": 0, "a1": "", "a2": "", "obs": ["init"]})
            flat += h
        core.write_ndjson(path, flat)
        res = _run_trace(path)
        run.tlc("T:TraceContextApi/%s/%d" % (name, rounds), res)
        rej = [r for r in core.tlc_printed_records(res) if "rejected_at" in r]
        if not rej:
            break
        at = rej[0]["rejected_at"]          # number of records consumed; the next one (0-based index `at`) is not a behaviour of the spec
        # locate history and position
        pos, hi = 0, 0
        for hi, h in enumerate(rest):
            if at < pos + 1 + len(h):
                k = at - pos - 1
                break
            pos += 1 + len(h)
        else:
            raise tlc.ToolError("TraceContextApi rejected beyond the trace")
        h = rest[hi]
        cls = classify(h, k)
        if cls == pid:
            bad += 1
            run.violation("%s/context-api/%s" % (pid, h[k]["op"]),
                          "recorded Context API history is not a behaviour of ContextApi.tla: %s returned %s" % (show(h, k), json.dumps(h[k]["obs"])),
                          {"family": "ctxapi-trace", "hist": h[:k + 1]})
        else:
            other += 1
        rest = rest[hi + 1:]
    run.leg("T:ContextApi/" + name, histories=len(hists), events=sum(len(h) for h in hists), rejected=bad, other_property=other)


def _run_trace(path):
    return tlc.run("trace/TraceContextApi.tla", TCFG, workers=1, timeout=900, env={"TRACE": path}, deque=True)


def trace(run, pid, name, seed, n, length):
    path = os.path.join(tlc.WORK, "ctxapi-rec-%s.ndjson" % name)
    core.run_vh(["ctxapi-record", "--seed", seed, "--n", n, "--len", length, "--out", path])
    recs = core.read_ndjson(path)
    hs = histories_of(recs)
    run.traces += len(hs)
    run.evaluations += sum(len(h) for h in hs)
    run.nontrivial += len(hs)
    validate(run, pid, name, hs)


def replay(path, seed):
    case = json.load(open(path))["case"]
    if case["family"] == "ctxapi":
        p = os.path.join(tlc.WORK, "ctxapi-one.ndjson")
        core.write_ndjson(p, [{"hist": case["hist"]}])
        out, _ = core.run_vh(["ctxapi-replay", p])
        print(json.dumps(out)[:1500])
        return 1 if any("mismatch" in o for o in out) else 0
    # recorded history: re-execute the operations and compare with what the specification says through TLC
    hist = case["hist"]
    p = os.path.join(tlc.WORK, "ctxapi-one-trace.ndjson")
    core.write_ndjson(p, [{"op": "reset", "h": 0, "a1": "", "a2": "", "obs": ["init"]}] + hist)
    res = _run_trace(p)
    rej = [r for r in core.tlc_printed_records(res) if "rejected_at" in r]
    print("rejected" if rej else "accepted", rej)
    return 1 if rej else 0
