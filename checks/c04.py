"""C04 - runtime faults surface as Err: no panic, no silently wrapped number."""
import evalfam as ef


def faulty(r):
    return r["out"][0] in ("err", "any")


def check(run):
    thorough = run.tier == "thorough"
    run.rules.append("leg M/R: every built-in infix, prefix and postfix operator and aggregate applied to every tuple of the edge universe (0, +-1, +-0.5, 63, 64, 65, -64, i64::MIN/MAX, "
                     "2^63, 2^96-1, 2^96-2, -(2^96-1), 10^-28, 1+10^-28, fractional values, plus one value of every other type), evaluated by the engine in BOTH a debug build "
                     "(overflow checks on) and a release build (overflow checks off); the fault table of the reference layer is explicit: zero divisor, result beyond 2^96, shift count "
                     "outside 0..63, non-integral or out-of-i64 operand of a bit operator, empty min()/max(), every type mismatch => Err; non-trivial = the reference outcome is a fault")
    run.rules.append("leg T: random operands drawn near the edges (2^96 - small, powers of two, scales 27/28, shift counts -2..69), validated by TLC with exact limb arithmetic")
    ef.builtins_model_and_replay(run, "edge-bin", "bin", "EdgeIdx", "C04", profiles=("dev", "release"), nontrivial=faulty)
    ef.builtins_model_and_replay(run, "edge-un", "un", "AllIdx", "C04", profiles=("dev", "release"), nontrivial=faulty)
    ef.builtins_model_and_replay(run, "edge-post", "post", "AllIdx", "C04", profiles=("dev", "release"), nontrivial=faulty)
    ef.builtins_model_and_replay(run, "edge-fn", "fn", "EdgeIdx", "C04", profiles=("dev", "release"), nontrivial=faulty)
    ef.builtins_trace(run, "edges", 40000 if thorough else 6000, run.seed + 11, "C04")
    run.exhaustive = False
    run.assumptions += ["don't-care, to stay sound against rust_decimal's rounding: 2^96-1 < |exact| < 2^96, results needing more than 28 places, a << b (b in 0..63) whose shifted-out bits are "
                        "non-zero (two's-complement wrap or Err), `%` whose operand alignment exceeds 96 bits", "TLC, the value encodings and the harness comparison are trusted"]


def replay(path, seed):
    return ef.replay(path, seed)
