"""C10 - tokens tile the input and carry the exact source text."""
import lexfam


def check(run):
    thorough = run.tier == "thorough"
    n = 5 if thorough else 4
    configs = [("A1-builtin", n, "A1", "OpsBuiltin"), ("A2-builtin", n, "A2", "OpsBuiltin"),
               ("A3-builtin", n, "A3", "OpsBuiltin"), ("A4-extended", n, "A4", "OpsExtended"), ("A5-builtin", n, "A5", "OpsBuiltin"), ("A6-odd", n, "A6", "OpsOdd")]
    if thorough:
        configs += [("A1-extended", 5, "A1", "OpsExtended"), ("A2-extended", 5, "A2", "OpsExtended")]
    run.rules.append("leg M/R: every input of <= %d characters over six 14-character alphabets (1-4 byte characters, every character class, Unicode white space the engine treats as name characters, both quote characters together) "
                     "under the built-in and two extended operator sets (one with user operators such as ~, @@, U+2260 whose first character is neither a letter nor a built-in symbol), enumerated by TLC from the Lexer machine, all Lexer invariants in every state, "
                     "each complete behaviour replayed through the real tokenizer; non-trivial = at least two tokens or a lexical error" % n)
    run.rules.append("leg T: random UTF-8 inputs (biased to the classes the tokenizer distinguishes) tokenized by the real code and validated by TLC against the Lexer machine")
    lexfam.model_and_replay(run, configs, "C10")
    run.rules.append("registration histories: +++ (prefix), --- (postfix), hi (infix) registered in each of the 6 orders in one process, every input <= %d characters of the alphabet "
                     "tokenized before the first and after each registration, expected tokens from the Lexer machine under exactly the operators registered so far" % (4 if thorough else 3))
    lexfam.histories(run, 4 if thorough else 3, "C10")
    lexfam.trace_validate(run, 10000 if thorough else 1500, 200 if thorough else 120, run.seed, "OpsBuiltin", "C10")
    lexfam.trace_validate(run, 4000 if thorough else 500, 120, run.seed + 1, "OpsExtended", "C10")
    if thorough:
        lexfam.simulate(run)
    run.exhaustive = False
    run.assumptions += ["hook H1 (verif_hooks::tokenize) drives the tokenizer exactly as Parser does", "TLC, the JSON encodings and the harness's comparison code are trusted",
                        "number tokens: span and validity only (the value is C09's)"]


def replay(path, seed):
    return lexfam.replay(path, seed)
