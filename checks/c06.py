"""C06 - assignments update the context exactly as written."""
import json
import evalfam as ef, ctxfam


def nontriv(r):
    return True


def check(run):
    thorough = run.tier == "thorough"
    k = 3 if thorough else 2
    run.rules.append("leg M/R: every chain of <= %d statements over a 21-statement alphabet (plain / compound / nested / re-typing assignments, reads of bound and unbound names, a failing "
                     "compound assignment, division by zero, assignment to a literal, to a list, to a name bound to a context function, reads that invoke a context function) x 5 initial "
                     "contexts (empty, x bound, x and y bound, x bound to a function, ...) x {no fault, handler error, handler panic}: the small-step machine must agree with the denotation "
                     "(value of the last statement, None for an assignment and for the empty program, bindings after a failing statement exactly those made before it); each behaviour is executed by "
                     "the real evaluator and the caller's Context inspected afterwards (key set, get_variable, get_func). x op= e == x = x op e over the value universe squared is part of the "
                     "operator tables (C03/C04: the new binding must be what `x op e` yields, a failing one leaves x unchanged)" % k)
    run.rules.append("leg T: random 1-5 statement programs over 5 names with the wide value domain, validated by TLC against Den (final context included)")
    ef.eval_model_and_replay(run, "assign", ef.mceval_cfg("c06-assign", family="assign", chain=k), "C06", sample_filter=nontriv)
    ef.builtins_model_and_replay(run, "setters", "bin", "CoreIdx" if not thorough else "AllIdx", "C06", nontrivial=lambda r: ef_is_setter(r))
    ef.eval_trace(run, "random", 20000 if thorough else 3000, run.seed + 5, "C06")
    run.rules.append("Context API (spec/ContextApi.tla): every history of <= 4 operations (new, create_context!, alias handle, set_variable, set_func, get_variable, get_func, value, and "
                     "execute() of `n`, `n = lit`, `n()` on an alias of the store) over 3 handles / 2 stores / 2 names replayed on real Contexts (leg R), and %d random histories of %d "
                     "operations over 4 handles / 3 stores / 3 names / 4 values incl. None recorded from the engine and validated by TLC (leg T); a wrong result is C06's when the name's entry "
                     "was last written as a variable (or never), C08's when it was last written as a function" % ((3000, 60) if thorough else (400, 40)))
    ctxfam.model_and_replay(run, "C06")
    ctxfam.trace(run, "C06", "hist", run.seed + 9, 3000 if thorough else 400, 60 if thorough else 40)
    run.exhaustive = False
    run.assumptions += ["an assignment evaluates its target as a read first (a context function bound to the target name is invoked once, then replaced by a variable) - what the code does and the property allows",
                        "programs are built directly as ExprAST values", "TLC, the JSON encodings and the harness comparison are trusted"]


def ef_is_setter(r):
    return r["op"] in ("=", "+=", "-=", "*=", "/=", "%=", "<<=", ">>=", "&=", "^=", "|=") and r["out"][0] != "err"


def replay(path, seed):
    if json.load(open(path))["case"].get("family", "").startswith("ctxapi"):
        return ctxfam.replay(path, seed)
    return ef.replay(path, seed)
