"""C09 - number literals and decimal arithmetic are exact."""
import json, os
import core, tlc
import evalfam as ef


def literals(run, n, seed):
    path = os.path.join(tlc.WORK, "literal-trace.ndjson")
    core.run_vh(["literal-record", "--seed", seed, "--n", n, "--out", path])
    recs = core.read_ndjson(path)
    parts, k = core.shard(recs, 8)
    files = []
    for i, part in enumerate(parts):
        p = os.path.join(tlc.WORK, "literal-trace-%d.ndjson" % i)
        core.write_ndjson(p, part)
        files.append(p)
    results = core.parallel([(lambda p=p: tlc.run("trace/TraceLiteral.tla", "trace/TraceLiteral.cfg", workers=1, env={"TRACE": p}, xmx="2g", timeout=1800)) for p in files])
    classes = {}
    for i, res in enumerate(results):
        run.tlc("T:TraceLiteral/%d" % i, res)
        if res.violation:
            raise tlc.ToolError("TraceLiteral failed: %s" % res.error_text[:1500])
        prs = core.tlc_printed_records(res)
        if not any(p.get("done") == len(parts[i]) for p in prs):
            raise tlc.ToolError("TraceLiteral did not consume every record")
        for p in prs:
            if "rec" in p:
                classes[p["class"]] = classes.get(p["class"], 0) + 1
            if "mismatch" in p:
                rec = parts[i][p["mismatch"]]
                text = "".join(chr(c) for c in rec["chars"])
                run.violation("C09/literal/%s" % p["verdict"], "literal %s: engine %s, spec %s" % (text, ef.show_out(rec["actual"]), "Ok(%s) with exactly these digits and scale" % ef.show(p["expected"]) if p["verdict"] == "ok" else "Err"),
                              {"family": "literal", "text": text, "actual": rec["actual"], "verdict": p["verdict"]})
    run.traces += len(recs)
    run.evaluations += len(recs)
    run.nontrivial += len({json.dumps(r["chars"]) for r in recs})
    run.dontcare += classes.get("dc", 0)
    run.sample({"leg": "T", "literal": "".join(chr(c) for c in recs[3]["chars"]), "engine": ef.show_out(recs[3]["actual"])})
    run.leg("T:TraceLiteral", recorded=len(recs), classes=classes)


def check(run):
    thorough = run.tier == "thorough"
    run.rules.append("leg M: the limb arithmetic itself is checked against TLC's native integers (all pairs 0..320 plus carry/borrow boundary values, division, 2^63/2^64/2^96 constants); "
                     "leg M/R: all pairs of small decimals (mantissa -12..12, scale 0..2: 75 x 75) under + - * % < <= > >= == != and the compound forms += -= *= %= through the real engine, "
                     "operands as literals and as variables (contains 0.1+0.2==0.3, 1.10, 1.0==1.00); non-trivial = outcome is a value")
    run.rules.append("leg T: literals - random digit strings up to 28 significant digits and scales 0..28 plus malformed texts (1.2.3, 1e5, 1..2): the returned number must have exactly that mantissa and "
                     "scale, malformed => Err; arithmetic - random and boundary 96-bit operand pairs: whenever the exact result fits, the engine's result must equal it (TLC, limb arithmetic)")
    res = tlc.run("mc/MCBigNum.tla", "mc/MCBigNum.cfg", workers=1, timeout=900)
    run.tlc("M:BigNum/selfcheck", res)
    if res.violation:
        run.model_violation("BigNum/selfcheck", res)
    ef.builtins_model_and_replay(run, "smalldec", "smalldec", "NumIdx", "C09")
    literals(run, 20000 if thorough else 3000, run.seed)
    ef.builtins_trace(run, "numeric", 30000 if thorough else 5000, run.seed + 3, "C09", extra=["--numeric"])
    run.exhaustive = False
    run.assumptions += ["exhaustive only on the scaled-down domain; the 96-bit domain is sampled at boundaries and at random with an exact oracle",
                        "literals with more than 28 digit characters, and results that are in range but not representable, are don't-care (rust_decimal rounds)",
                        "TLC's own integer arithmetic (used to validate the limb arithmetic) is trusted"]


def replay(path, seed):
    case = json.load(open(path))["case"]
    if case["family"] == "literal":
        out, _ = core.run_vh(["exec-one", case["text"]])
        print(json.dumps({"literal": case["text"], "now": out, "verdict": case["verdict"]}))
        return 0 if out and ((case["verdict"] == "err") == (out[0][0] == "err")) else 1
    return ef.replay(path, seed)
