"""Common machinery for ./check: harness build, leg bookkeeping, findings, evidence."""
import concurrent.futures, hashlib, json, os, subprocess, sys, time

import tlc
from tlc import ToolError, VERIF, WORK

HARNESS = os.path.join(VERIF, "harness")
EVIDENCE = os.environ.get("VERIF_EVIDENCE_DIR") or os.path.join(VERIF, "evidence")
REPLAYS = os.path.join(VERIF, "replays")
FINDINGS = os.path.join(VERIF, "known-findings.txt")
_built = set()


def log(msg):
    print("[check] " + msg, flush=True)


def build_harness(profile="dev"):
    """(Re)build the harness against /repo's current working tree (path dependency => rebuilt when sources change)."""
    if profile in _built:
        return
    cmd = ["cargo", "build", "--offline", "--quiet"] + (["--release"] if profile == "release" else [])
    env = dict(os.environ, CARGO_NET_OFFLINE="true", RUSTFLAGS=os.environ.get("RUSTFLAGS", "") + " -Awarnings")
    t0 = time.time()
    p = subprocess.run(cmd, cwd=HARNESS, env=env, stdout=subprocess.PIPE, stderr=subprocess.STDOUT, text=True)
    if p.returncode != 0:
        raise ToolError("harness build failed (%s):\n%s" % (profile, p.stdout[-4000:]))
    _built.add(profile)
    log("harness built (%s) in %.1fs" % (profile, time.time() - t0))


def vh_path(profile="dev"):
    return os.path.join(HARNESS, "target", "release" if profile == "release" else "debug", "vh")


def run_vh(args, profile="dev", timeout=900, env=None, stdin=None, ok_codes=(0,)):
    """Run the harness; returns (list of parsed JSON lines from stdout, returncode)."""
    build_harness(profile)
    e = dict(os.environ)
    if env:
        e.update(env)
    try:
        p = subprocess.run([vh_path(profile)] + [str(a) for a in args], cwd=VERIF, env=e, stdout=subprocess.PIPE, stderr=subprocess.PIPE,
                           text=True, timeout=timeout, input=stdin)
    except subprocess.TimeoutExpired:
        raise ToolError("harness timed out: vh %s" % " ".join(map(str, args)))
    if p.returncode not in ok_codes:
        raise ToolError("harness failed rc=%d: vh %s\n%s" % (p.returncode, " ".join(map(str, args)), p.stderr[-3000:]))
    out = []
    for line in p.stdout.splitlines():
        line = line.strip()
        if line.startswith("{") or line.startswith("["):
            try:
                out.append(json.loads(line))
            except Exception:
                pass
    return out, p.returncode


def run_stall_watchdog(cmd, stall_s=45, cwd=None):
    """Run a child that announces its progress line by line; kill it only when no line has arrived for stall_s seconds
    (a hang of the code under test), however long the whole batch takes.  Returns (returncode or None if killed, stdout, stalled)."""
    import threading
    p = subprocess.Popen(cmd, cwd=cwd or VERIF, stdout=subprocess.PIPE, stderr=subprocess.PIPE, text=True, bufsize=1)
    lines, last = [], [time.time()]

    def reader():
        for line in p.stdout:
            lines.append(line)
            last[0] = time.time()
    th = threading.Thread(target=reader, daemon=True)
    th.start()
    err = []
    te = threading.Thread(target=lambda: err.append(p.stderr.read()), daemon=True)
    te.start()
    stalled = False
    while p.poll() is None:
        time.sleep(0.2)
        if time.time() - last[0] > stall_s:
            stalled = True
            p.kill()
            break
    p.wait()
    th.join(timeout=5)
    te.join(timeout=2)
    return (None if stalled else p.returncode), "".join(lines), stalled, (err[0] if err else "")


def write_ndjson(path, records):
    os.makedirs(os.path.dirname(path), exist_ok=True)
    with open(path, "w") as f:
        for r in records:
            f.write(json.dumps(r, separators=(",", ":")) + "\n")


def read_ndjson(path, tolerant=False):
    out = []
    with open(path) as f:
        for l in f:
            if not l.strip():
                continue
            try:
                out.append(json.loads(l))
            except Exception:
                if not tolerant:
                    raise
    return out


def shard(records, n):
    n = max(1, min(n, len(records)))
    return [records[i::n] for i in range(n)], n


def parallel(jobs, max_workers=16):
    """jobs: list of zero-arg callables; returns results in order; a ToolError in any job propagates."""
    with concurrent.futures.ThreadPoolExecutor(max_workers=max_workers) as ex:
        futs = [ex.submit(j) for j in jobs]
        return [f.result() for f in futs]


def load_findings():
    known, fixed = {}, []
    if os.path.exists(FINDINGS):
        for line in open(FINDINGS):
            line = line.strip()
            if line.startswith("known:"):
                head, _, text = line[len("known:"):].partition("::")
                kv = dict(p.split("=", 1) for p in head.split() if "=" in p)
                known[(kv.get("property"), kv.get("key"))] = text.strip()
            elif line.startswith("fixed:"):
                fixed.append(line)
    return known, fixed


class Run:
    """Bookkeeping for one ./check invocation of one property."""

    def __init__(self, pid, tier, seed):
        self.pid, self.tier, self.seed = pid, tier, seed
        self.t0 = time.time()
        self.states = 0
        self.transitions = 0
        self.traces = 0            # executions of the real code validated against / replayed from the spec
        self.evaluations = 0
        self.nontrivial = 0
        self.samples = []
        self.rules = []
        self.legs = []
        self.dontcare = 0
        self.violations = []       # (key, description, replay payload)
        self.assumptions = []
        self.exhaustive = None
        self.extra = {}

    def tlc(self, leg, res):
        self.states += res.distinct
        self.transitions += res.generated
        self.legs.append({"leg": leg, "states": res.distinct, "transitions": res.generated, "wall_s": round(res.wall_s, 1)})

    def leg(self, name, **kw):
        d = {"leg": name}
        d.update(kw)
        self.legs.append(d)

    def sample(self, s):
        if len(self.samples) < 12:
            self.samples.append(s)

    def violation(self, key, desc, payload):
        self.violations.append((key, desc, payload))

    def model_violation(self, leg, res):
        """A TLC run of the *model* violated an invariant: the design itself admits a bad state."""
        self.violation("%s/model/%s/%s" % (self.pid, leg, res.violation), "TLC: %s violated in %s" % (res.violation, leg),
                       {"leg": leg, "tlc_error": res.error_text[:6000]})

    def finish(self):
        known, _ = load_findings()
        os.makedirs(EVIDENCE, exist_ok=True)
        rdir = os.path.join(REPLAYS, self.pid)
        os.makedirs(rdir, exist_ok=True)
        reported, nviol, nknown = set(), 0, 0
        known_hit = []
        for key, desc, payload in self.violations:
            if (self.pid, key) in known:
                if key not in reported:
                    print("KNOWN-FINDING: property=%s %s (%s)" % (self.pid, known[(self.pid, key)], key), flush=True)
                    known_hit.append(key)
                reported.add(key)
                nknown += 1
                continue
            nviol += 1
            if nviol > 25:
                continue
            h = hashlib.sha1(json.dumps(payload, sort_keys=True, default=str).encode()).hexdigest()[:10]
            path = os.path.join(rdir, "%s-%s.json" % (key.replace("/", "_")[:80], h))
            with open(path, "w") as f:
                json.dump({"property": self.pid, "key": key, "description": desc, "seed": self.seed, "tier": self.tier, "case": payload}, f, indent=1, default=str)
            print("VIOLATION property=%s replay=%s" % (self.pid, path), flush=True)
            print("  " + desc[:400], flush=True)
        cov = {
            "states": max(self.states, 1) if self.states else 0,
            "transitions": self.transitions,
            "traces_validated_against_impl": self.traces,
            "samples": self.samples or ["(no sample recorded)"],
            "evaluations": self.evaluations,
            "distinct_nontrivial": self.nontrivial,
            "rule": " | ".join(self.rules),
            "dontcare_cases": self.dontcare,
            "legs": self.legs,
            "known_findings_hit": known_hit,
        }
        if self.exhaustive is not None:
            cov["exhaustive"] = self.exhaustive
        cov.update(self.extra)
        ev = {"property_id": self.pid, "tier": self.tier, "seed": self.seed, "level": "model_checking", "coverage": cov,
              "assumptions": self.assumptions, "wall_s": round(time.time() - self.t0, 1), "violations": nviol}
        with open(os.path.join(EVIDENCE, self.pid + ".json"), "w") as f:
            json.dump(ev, f, indent=1)
        log("%s %s: %d states, %d impl executions, %d violations, %d known, %.0fs" % (self.pid, self.tier, self.states, self.traces, nviol, nknown, time.time() - self.t0))
        return 1 if nviol else 0


def tlc_printed_records(res):
    return [p for p in res.printed if isinstance(p, dict)]
