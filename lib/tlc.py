"""Run TLC and parse what it prints. Tool failures raise ToolError (exit code 2 in ./check)."""
import json, os, re, shutil, subprocess, time, uuid

VERIF = os.path.dirname(os.path.dirname(os.path.abspath(__file__)))
SPEC = os.path.join(VERIF, "spec")
WORK = os.path.join(VERIF, "work")
JAR = "/opt/veriftools/tla/tla2tools.jar:/opt/veriftools/tla/CommunityModules-deps.jar"


class ToolError(Exception):
    pass


# the thorough tier multiplies every TLC time limit (set by ./check): its runs are bigger and may share the machine
TIMEOUT_SCALE = 1


class TlcResult:
    def __init__(self):
        self.generated = 0
        self.distinct = 0
        self.depth = 0
        self.printed = []      # decoded PrintT payloads (python objects when JSON, else raw strings)
        self.raw_printed = []
        self.violation = None  # name of violated invariant / "deadlock" / "assumption" / None
        self.error_text = ""
        self.wall_s = 0.0
        self.coverage = {}     # action name -> (distinct, total)
        self.stdout = ""
        self.ok = False


def _decode_tla_string(line):
    # TLC prints strings with \" and \\ escapes, which is JSON compatible for our ASCII payloads
    try:
        return json.loads(line)
    except Exception:
        return None


def run(module, cfg, workers=16, timeout=900, env=None, simulate=None, depth=None,
        xss="512m", xmx=None, deque=False, coverage=False, extra=None, seed=None, defines=None):
    """module/cfg are paths relative to spec/. Returns TlcResult. Raises ToolError on tool failure
    (parse error, TLC crash, timeout); a violated invariant is *not* a tool failure."""
    os.makedirs(WORK, exist_ok=True)
    meta = os.path.join(WORK, "tlc-" + uuid.uuid4().hex[:10])
    mod_path = os.path.join(SPEC, module)
    cfg_path = cfg if os.path.isabs(cfg) else os.path.join(SPEC, cfg)
    jvm = ["-XX:+UseParallelGC", "-Xss" + xss, "-DTLA-Library=" + SPEC + os.pathsep + os.path.join(SPEC, "mc") + os.pathsep + os.path.join(SPEC, "trace")]
    if xmx:
        jvm.append("-Xmx" + xmx)
    if deque:
        jvm.append("-Dtlc2.tool.queue.IStateQueue=StateDeque")
    for k, v in (defines or {}).items():
        jvm.append("-D%s=%s" % (k, v))
    cmd = ["java"] + jvm + ["-cp", JAR, "tlc2.TLC", "-workers", str(workers), "-metadir", meta, "-cleanup",
                            "-noGenerateSpecTE", "-config", cfg_path]
    if simulate:
        cmd += ["-simulate", "num=%d" % simulate]
    if depth:
        cmd += ["-depth", str(depth)]
    if seed is not None:
        cmd += ["-seed", str(seed)]
    if coverage:
        cmd += ["-coverage", "1"]
    if extra:
        cmd += extra
    cmd.append(mod_path)
    e = dict(os.environ)
    e.pop("JAVA_TOOL_OPTIONS", None)
    if env:
        e.update(env)
    t0 = time.time()
    timeout = timeout * TIMEOUT_SCALE
    try:
        p = subprocess.run(cmd, cwd=os.path.dirname(mod_path), env=e, stdout=subprocess.PIPE, stderr=subprocess.STDOUT,
                           timeout=timeout, text=True, errors="replace")
    except subprocess.TimeoutExpired:
        shutil.rmtree(meta, ignore_errors=True)
        raise ToolError("TLC timed out after %ds: %s %s" % (timeout, module, cfg))
    finally:
        pass
    shutil.rmtree(meta, ignore_errors=True)
    r = TlcResult()
    r.wall_s = time.time() - t0
    r.stdout = p.stdout
    for line in p.stdout.splitlines():
        if line.startswith('"'):
            s = _decode_tla_string(line)
            if s is None:
                r.raw_printed.append(line)
                continue
            try:
                r.printed.append(json.loads(s))
            except Exception:
                r.printed.append(s)
            continue
        m = re.match(r"(\d+) states generated, (\d+) distinct states found", line)
        if m:
            r.generated, r.distinct = int(m.group(1)), int(m.group(2))
        m = re.match(r"The depth of the complete state graph search is (\d+)", line)
        if m:
            r.depth = int(m.group(1))
        m = re.match(r"Error: Invariant (\S+) is violated", line)
        if m and not r.violation:
            r.violation = m.group(1)
        if line.startswith("Error: Deadlock reached") and not r.violation:
            r.violation = "deadlock"
        if "Assumption" in line and "is false" in line and not r.violation:
            r.violation = "assumption"
        m = re.match(r"Error: Action property (\S+) is violated", line)
        if m and not r.violation:
            r.violation = m.group(1)
        if line.startswith("Error: Temporal properties were violated") and not r.violation:
            r.violation = "temporal"
        m = re.match(r"<(\w+) line .*?>: (\d+):(\d+)", line)
        if m:
            a = r.coverage.get(m.group(1), (0, 0))
            r.coverage[m.group(1)] = (a[0] + int(m.group(2)), a[1] + int(m.group(3)))
    if simulate and r.generated == 0:
        m = re.search(r"(\d+) states checked", p.stdout)
        if m:
            r.generated = r.distinct = int(m.group(1))
    finished = "Model checking completed" in p.stdout or "Finished in" in p.stdout or (simulate and "states checked" in p.stdout)
    if r.violation:
        i = p.stdout.find("Error:")
        r.error_text = p.stdout[i:i + 6000]
        return r
    if p.returncode != 0 or not finished:
        i = p.stdout.find("Error")
        raise ToolError("TLC failed (rc=%d) on %s %s:\n%s" % (p.returncode, module, cfg, p.stdout[max(0, i - 200):i + 4000] if i >= 0 else p.stdout[-4000:]))
    r.ok = True
    return r


def sany(module):
    p = subprocess.run(["java", "-DTLA-Library=" + SPEC + os.pathsep + os.path.join(SPEC, "mc") + os.pathsep + os.path.join(SPEC, "trace"),
                        "-cp", JAR, "tla2sany.SANY", os.path.join(SPEC, module)],
                       cwd=os.path.dirname(os.path.join(SPEC, module)), stdout=subprocess.PIPE, stderr=subprocess.STDOUT, text=True)
    if p.returncode != 0 or "*** Errors" in p.stdout or "Fatal errors" in p.stdout or "Could not parse" in p.stdout:
        raise ToolError("SANY failed on %s:\n%s" % (module, p.stdout[-3000:]))
    return True
