SPECIFICATION Spec
CONSTANTS Depth = 2
 BothBranches = FALSE
 ContinueAfterErr = FALSE
INVARIANT AgreesWithBig AtMostOnce LeftToRight StopAtFault
