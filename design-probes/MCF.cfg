SPECIFICATION Spec
CONSTANTS MaxLen = 40
 Alphabet <- Ops13
 Fixed <- Fx4
 defaultInitValue = defaultInitValue
CHECK_DEADLOCK FALSE
INVARIANT Show
