---- MODULE Eval ----
EXTENDS Integers, Sequences, FiniteSets, TLC
CONSTANTS Depth, BothBranches, ContinueAfterErr     \* negative-control switches
\* ---- shapes: leaves are "c" (a logging call); ids are assigned by position (pre-order) -----------
RECURSIVE Shapes(_)
Shapes(d) == IF d = 0 THEN {<<"c">>}
             ELSE LET S == Shapes(d - 1) IN
                  {<<"c">>} \cup {<<"un", a>> : a \in S} \cup {<<"bin", a, b>> : a \in S, b \in S}
                  \cup {<<"tern", a, b, c>> : a \in S, b \in S, c \in S}
                  \cup {<<"list", <<>>>>} \cup {<<"list", <<a>>>> : a \in S} \cup {<<"list", <<a, b>>>> : a \in S, b \in S}
RECURSIVE Size(_)
Size(t) == IF t[1] = "c" THEN 1
           ELSE IF t[1] = "un" THEN Size(t[2])
           ELSE IF t[1] = "bin" THEN Size(t[2]) + Size(t[3])
           ELSE IF t[1] = "tern" THEN Size(t[2]) + Size(t[3]) + Size(t[4])
           ELSE LET RECURSIVE L(_) L(s) == IF s = <<>> THEN 0 ELSE Size(Head(s)) + L(Tail(s)) IN L(t[2])
\* label leaves with ids base+1.. in pre-order (= left-to-right source order)
RECURSIVE Label(_, _)
Label(t, base) ==
  IF t[1] = "c" THEN <<"c", base + 1>>
  ELSE IF t[1] = "un" THEN <<"un", Label(t[2], base)>>
  ELSE IF t[1] = "bin" THEN <<"bin", Label(t[2], base), Label(t[3], base + Size(t[2]))>>
  ELSE IF t[1] = "tern" THEN <<"tern", Label(t[2], base), Label(t[3], base + Size(t[2])), Label(t[4], base + Size(t[2]) + Size(t[3]))>>
  ELSE <<"list", [k \in 1..Len(t[2]) |-> Label(t[2][k], base + (LET RECURSIVE P(_) P(m) == IF m = 0 THEN 0 ELSE Size(t[2][m]) + P(m - 1) IN P(k - 1)))]>>

\* ---- big-step reference: [st, val, log] ---------------------------------------------------------
\* script: id -> TRUE | FALSE ; fault = <<k, kind>> : the k-th *invocation* fails with kind ("err"|"panic"), k = 0 none
RECURSIVE Big(_, _, _, _)
Seq2(r1, f) == IF r1.st # "ok" THEN r1 ELSE f
Big(t, script, fault, log) ==
  IF t[1] = "c" THEN
     LET log2 == Append(log, t[2]) IN
     IF fault[1] = Len(log2) THEN [st |-> fault[2], val |-> <<>>, log |-> log2]
     ELSE [st |-> "ok", val |-> <<"b", script[t[2]]>>, log |-> log2]
  ELSE IF t[1] = "un" THEN
     LET a == Big(t[2], script, fault, log) IN IF a.st # "ok" THEN a ELSE [a EXCEPT !.val = <<"u", a.val>>]
  ELSE IF t[1] = "bin" THEN
     LET a == Big(t[2], script, fault, log) IN
     IF a.st # "ok" THEN a
     ELSE LET b == Big(t[3], script, fault, a.log) IN IF b.st # "ok" THEN b ELSE [b EXCEPT !.val = <<"p", a.val, b.val>>]
  ELSE IF t[1] = "tern" THEN
     LET c == Big(t[2], script, fault, log) IN
     IF c.st # "ok" THEN c
     ELSE IF c.val[1] = "b" /\ c.val[2] THEN Big(t[3], script, fault, c.log)
     ELSE IF c.val[1] = "b" /\ ~c.val[2] THEN Big(t[4], script, fault, c.log)
     ELSE [st |-> "err", val |-> <<>>, log |-> c.log]
  ELSE LET RECURSIVE Es(_, _, _)
           Es(k, acc, lg) == IF k > Len(t[2]) THEN [st |-> "ok", val |-> <<"l", acc>>, log |-> lg]
                             ELSE LET e == Big(t[2][k], script, fault, lg) IN
                                  IF e.st # "ok" THEN e ELSE Es(k + 1, Append(acc, e.val), e.log)
       IN Es(1, <<>>, log)

\* ---- small-step machine -------------------------------------------------------------------------
VARIABLES prog, script, fault, work, vals, log, status
vars == <<prog, script, fault, work, vals, log, status>>
Init == /\ \E s \in Shapes(Depth) : prog = Label(s, 0)
        /\ script \in [1..Size(prog) -> BOOLEAN]
        /\ fault \in ({<<0, "none">>} \cup ((1..Size(prog)) \X {"err", "panic"}))
        /\ work = <<<<"eval", prog>>>> /\ vals = <<>> /\ log = <<>> /\ status = "run"
Push(items) == work' = items \o Tail(work)
Step ==
  /\ status = "run" /\ work # <<>>
  /\ LET w == Head(work) IN
     IF w[1] = "eval" THEN
        LET t == w[2] IN
        IF t[1] = "c" THEN
           /\ log' = Append(log, t[2])
           /\ IF fault[1] = Len(log) + 1
              THEN /\ status' = (IF ContinueAfterErr /\ fault[2] = "err" THEN "run" ELSE fault[2])
                   /\ vals' = (IF ContinueAfterErr /\ fault[2] = "err" THEN << <<"b", FALSE>> >> \o vals ELSE vals)
                   /\ work' = Tail(work)
              ELSE status' = status /\ vals' = << <<"b", script[t[2]]>> >> \o vals /\ work' = Tail(work)
        ELSE /\ UNCHANGED <<log, status, vals>>
             /\ IF t[1] = "un" THEN Push(<< <<"eval", t[2]>>, <<"k", "un">> >>)
                ELSE IF t[1] = "bin" THEN Push(<< <<"eval", t[2]>>, <<"eval", t[3]>>, <<"k", "bin">> >>)
                ELSE IF t[1] = "tern" THEN
                     IF BothBranches THEN Push(<< <<"eval", t[2]>>, <<"eval", t[3]>>, <<"eval", t[4]>>, <<"k", "sel">> >>)
                     ELSE Push(<< <<"eval", t[2]>>, <<"k", "tern", t[3], t[4]>> >>)
                ELSE Push([k \in 1..Len(t[2]) |-> <<"eval", t[2][k]>>] \o << <<"k", "list", Len(t[2])>> >>)
     ELSE \* continuation
        /\ UNCHANGED log
        /\ IF w[2] = "un" THEN vals' = << <<"u", vals[1]>> >> \o Tail(vals) /\ work' = Tail(work) /\ status' = status
           ELSE IF w[2] = "bin" THEN vals' = << <<"p", vals[2], vals[1]>> >> \o Tail(Tail(vals)) /\ work' = Tail(work) /\ status' = status
           ELSE IF w[2] = "tern" THEN
                IF vals[1][1] = "b" /\ vals[1][2] THEN vals' = Tail(vals) /\ Push(<< <<"eval", w[3]>> >>) /\ status' = status
                ELSE IF vals[1][1] = "b" /\ ~vals[1][2] THEN vals' = Tail(vals) /\ Push(<< <<"eval", w[4]>> >>) /\ status' = status
                ELSE status' = "err" /\ UNCHANGED <<vals, work>>
           ELSE IF w[2] = "sel" THEN
                /\ vals' = << (IF vals[3][1] = "b" /\ vals[3][2] THEN vals[2] ELSE vals[1]) >> \o Tail(Tail(Tail(vals))) /\ work' = Tail(work)
                /\ status' = IF vals[3][1] = "b" THEN status ELSE "err"
           ELSE LET n == w[3] IN
                /\ vals' = << <<"l", [k \in 1..n |-> vals[n + 1 - k]]>> >> \o SubSeq(vals, n + 1, Len(vals))
                /\ work' = Tail(work) /\ status' = status
  /\ UNCHANGED <<prog, script, fault>>
Finish == /\ status = "run" /\ work = <<>> /\ status' = "ok" /\ UNCHANGED <<prog, script, fault, work, vals, log>>
Done == status # "run" /\ UNCHANGED vars
Next == Step \/ Finish \/ Done
Spec == Init /\ [][Next]_vars
\* ---- properties ---------------------------------------------------------------------------------
Ref == Big(prog, script, fault, <<>>)
AgreesWithBig == status # "run" => /\ status = Ref.st /\ log = Ref.log /\ (status = "ok" => vals = <<Ref.val>>)
AtMostOnce == \A a, b \in 1..Len(log) : a # b => log[a] # log[b]
LeftToRight == \A a \in 1..Len(log) - 1 : log[a] < log[a + 1]
StopAtFault == status \in {"err", "panic"} => (fault[1] = Len(log) \/ fault[1] = 0 \/ fault[1] > Len(log))
====
