SPECIFICATION Spec
CONSTANTS MaxLen = 99
 Alphabet <- A0
 defaultInitValue = defaultInitValue
CHECK_DEADLOCK FALSE
INVARIANT Accepted
