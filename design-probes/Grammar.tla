---- MODULE Grammar ----
EXTENDS Integers, Sequences, TLC, FiniteSets
\* prototype of the stratified reference grammar over the same abstract tokens as Pratt.tla
GInfix == [ minus |-> <<110, "L">>, star |-> <<120, "L">>, asg |-> <<20, "R">>, eq |-> <<60, "L">>, in |-> <<200, "L">> ]
GLevels == <<20, 60, 110, 120, 200>>
NL == Len(GLevels)
GPrefix == {"minus", "bang", "not"}
GPostfix == {"inc"}
GOpTok == (DOMAIN GInfix) \cup {"inc", "not", "bang", "q", "colon"}
At(ts, p) == IF p <= Len(ts) THEN ts[p] ELSE "EOF"
Fail == [ok |-> FALSE, t |-> <<>>, p |-> 0, len |-> FALSE, un |-> FALSE]
Ok(t, p, len, un) == [ok |-> TRUE, t |-> t, p |-> p, len |-> len, un |-> un]
LevelOf(op) == CHOOSE k \in 1..NL : GLevels[k] = GInfix[op][1]
AssocOf(k) == LET o == CHOOSE o \in DOMAIN GInfix : GInfix[o][1] = GLevels[k] IN GInfix[o][2]
\* operator occurrence at p for level k: <<isnot, op, width>> or <<>>
OpAt(ts, p, k) ==
  IF At(ts,p) \in DOMAIN GInfix /\ LevelOf(At(ts,p)) = k THEN <<FALSE, At(ts,p), 1>>
  ELSE IF At(ts,p) = "not" /\ At(ts,p+1) \in DOMAIN GInfix /\ LevelOf(At(ts,p+1)) = k THEN <<TRUE, At(ts,p+1), 2>>
  ELSE <<>>
MkBin(o, l, r) == IF o[1] THEN <<"un", "not", <<"bin", o[2], l, r>>>> ELSE <<"bin", o[2], l, r>>

RECURSIVE RExpr(_,_), RLevel(_,_,_), RLoopL(_,_,_), RPrefixed(_,_), RAtom(_,_), RItems(_,_,_,_,_), RPairs(_,_,_,_), RArgs(_,_,_,_)
RExpr(ts, p) ==
  LET c == RLevel(ts, p, 1) IN
  IF ~c.ok THEN c
  ELSE IF At(ts, c.p) = "q" THEN
    LET a == RExpr(ts, c.p + 1) IN
    IF ~a.ok \/ At(ts, a.p) # "colon" THEN Fail
    ELSE LET b == RExpr(ts, a.p + 1) IN
         IF ~b.ok THEN Fail
         ELSE Ok(<<"tern", c.t, a.t, b.t>>, b.p, c.len \/ a.len \/ b.len, c.un \/ a.un \/ b.un)
  ELSE c
RLevel(ts, p, k) ==
  IF k > NL THEN RPrefixed(ts, p)
  ELSE LET first == RLevel(ts, p, k + 1) IN
    IF ~first.ok THEN first
    ELSE IF AssocOf(k) = "L" THEN RLoopL(ts, first, k)
    ELSE LET o == OpAt(ts, first.p, k) IN
      IF o = <<>> THEN first
      ELSE LET r == RLevel(ts, first.p + o[3], k) IN
           IF ~r.ok THEN Fail
           ELSE Ok(MkBin(o, first.t, r.t), r.p, first.len \/ r.len, first.un \/ r.un)
RLoopL(ts, acc, k) ==
  LET o == OpAt(ts, acc.p, k) IN
  IF o = <<>> THEN acc
  ELSE LET r == RLevel(ts, acc.p + o[3], k + 1) IN
       IF ~r.ok THEN Fail
       ELSE RLoopL(ts, Ok(MkBin(o, acc.t, r.t), r.p, acc.len \/ r.len, acc.un \/ r.un), k)
RPrefixed(ts, p) ==
  IF At(ts, p) \in GOpTok THEN
    LET e == RPrefixed(ts, p + 1) IN
    IF ~e.ok THEN Fail
    ELSE IF At(ts, e.p) \in GPostfix
         THEN Ok(<<"post", <<"un", At(ts,p), e.t>>, At(ts, e.p)>>, e.p + 1, e.len, TRUE)   \* second postfix after a prefixed operand: unspecified
         ELSE Ok(<<"un", At(ts,p), e.t>>, e.p, e.len \/ (At(ts,p) \notin GPrefix), e.un)
  ELSE LET a == RAtom(ts, p) IN
    IF ~a.ok THEN a
    ELSE IF At(ts, a.p) \in GPostfix THEN Ok(<<"post", a.t, At(ts, a.p)>>, a.p + 1, a.len, a.un) ELSE a
RAtom(ts, p) ==
  LET c == At(ts, p) IN
  IF c = "n" \/ c = "x" THEN Ok(<<c>>, p + 1, FALSE, FALSE)
  ELSE IF c = "f" THEN
    IF At(ts, p+1) # "lp" THEN Fail
    ELSE IF At(ts, p+2) = "rp" THEN Ok(<<"call", <<>>>>, p + 3, FALSE, FALSE)
    ELSE RArgs(ts, p + 2, <<>>, [len |-> FALSE, un |-> FALSE])
  ELSE IF c = "lp" THEN
    LET e == RExpr(ts, p + 1) IN
    IF ~e.ok \/ At(ts, e.p) # "rp" THEN Fail ELSE Ok(e.t, e.p + 1, e.len, e.un)
  ELSE IF c = "lb" THEN RItems(ts, p + 1, <<>>, FALSE, [len |-> FALSE, un |-> FALSE])
  ELSE IF c = "lc" THEN RPairs(ts, p + 1, <<>>, [len |-> FALSE, un |-> FALSE])
  ELSE Fail
\* list items; `after` = just consumed a comma
RItems(ts, p, acc, after, fl) ==
  IF At(ts, p) = "rb" THEN Ok(<<"list", acc>>, p + 1, fl.len \/ after, fl.un)
  ELSE LET e == RExpr(ts, p) IN
    IF ~e.ok THEN Fail
    ELSE LET f2 == [len |-> fl.len \/ e.len, un |-> fl.un \/ e.un] IN
      IF At(ts, e.p) = "comma" THEN RItems(ts, e.p + 1, Append(acc, e.t), TRUE, f2)
      ELSE IF At(ts, e.p) = "rb" THEN Ok(<<"list", Append(acc, e.t)>>, e.p + 1, f2.len, f2.un)
      ELSE Fail
RPairs(ts, p, acc, fl) ==
  IF At(ts, p) = "rc" THEN Ok(<<"map", acc>>, p + 1, fl.len \/ (acc # <<>>), fl.un)
  ELSE LET k == RExpr(ts, p) IN
    IF ~k.ok \/ At(ts, k.p) # "colon" THEN Fail
    ELSE LET v == RExpr(ts, k.p + 1) IN
      IF ~v.ok THEN Fail
      ELSE LET f2 == [len |-> fl.len \/ k.len \/ v.len, un |-> fl.un \/ k.un \/ v.un] IN
        IF At(ts, v.p) = "comma" THEN RPairs(ts, v.p + 1, Append(acc, <<k.t, v.t>>), f2)
        ELSE IF At(ts, v.p) = "rc" THEN Ok(<<"map", Append(acc, <<k.t, v.t>>)>>, v.p + 1, f2.len, f2.un)
        ELSE Fail
RArgs(ts, p, acc, fl) ==
  LET e == RExpr(ts, p) IN
  IF ~e.ok THEN Fail
  ELSE LET f2 == [len |-> fl.len \/ e.len, un |-> fl.un \/ e.un] IN
    IF At(ts, e.p) = "rp" THEN Ok(<<"call", Append(acc, e.t)>>, e.p + 1, f2.len, f2.un)
    ELSE IF At(ts, e.p) = "comma" THEN RArgs(ts, e.p + 1, Append(acc, e.t), f2)
    ELSE Fail

RECURSIVE RStmts(_,_,_,_)
RStmts(ts, p, acc, fl) ==
  IF At(ts, p) = "EOF" THEN
     Ok(IF Len(acc) = 1 THEN acc[1] ELSE <<"stmt", acc>>, p, fl.len, fl.un)
  ELSE LET e == RExpr(ts, p) IN
    IF ~e.ok THEN Fail
    ELSE LET f2 == [len |-> fl.len \/ e.len, un |-> fl.un \/ e.un] IN
      IF At(ts, e.p) = "semi" THEN
         RStmts(ts, e.p + 1, Append(acc, e.t), [f2 EXCEPT !.len = f2.len \/ At(ts, e.p + 1) = "EOF"])
      ELSE IF At(ts, e.p) = "EOF" THEN RStmts(ts, e.p, Append(acc, e.t), f2)
      ELSE RStmts(ts, e.p, Append(acc, e.t), [f2 EXCEPT !.len = TRUE])
RefParse(ts) == RStmts(ts, 1, <<>>, [len |-> FALSE, un |-> FALSE])
Verdict(ts) == LET r == RefParse(ts) IN
  IF ~r.ok THEN <<"MustReject">> ELSE IF r.un THEN <<"Unspecified">> ELSE IF r.len THEN <<"MayAccept", r.t>> ELSE <<"MustAccept", r.t>>
====
