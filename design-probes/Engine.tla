---- MODULE Engine ----
EXTENDS Integers, Sequences, FiniteSets, TLC
CONSTANTS Threads, Progs, FlagBeforeFill, EntryWithoutInit
\* Progs[t] : sequence of calls.  reg call: [op |-> "reg", r, name, val]
\*                                 eval call: [op |-> "eval", plan |-> << <<r,name>>, ... >>]  (one lookup per element, each its own critical section)
Regs == {"prefix", "infix", "postfix", "func"}
StageReg == <<"prefix", "infix", "postfix", "func">>
Builtin == [prefix |-> {"neg"}, infix |-> {"plus"}, postfix |-> {"inc"}, func |-> {"min"}]
Names == {"neg", "plus", "inc", "min", "f"}
VARIABLES once, owner, stage, reg, pc, ci, li, seen, hist, clock, inv
vars == <<once, owner, stage, reg, pc, ci, li, seen, hist, clock, inv>>

Init == /\ once = "uninit" /\ owner = "none" /\ stage = 0
        /\ reg = [r \in Regs |-> [n \in Names |-> "none"]]
        /\ pc = [t \in Threads |-> "idle"] /\ ci = [t \in Threads |-> 1] /\ li = [t \in Threads |-> 1]
        /\ seen = [t \in Threads |-> <<>>] /\ hist = <<>> /\ clock = 0 /\ inv = [t \in Threads |-> 0]
Call(t) == Progs[t][ci[t]]
Begin(t) == /\ pc[t] = "idle" /\ ci[t] <= Len(Progs[t])
            /\ pc' = [pc EXCEPT ![t] = IF EntryWithoutInit /\ Call(t).op = "eval" THEN "run" ELSE "init"]
            /\ clock' = clock + 1 /\ inv' = [inv EXCEPT ![t] = clock + 1]
            /\ li' = [li EXCEPT ![t] = 1] /\ seen' = [seen EXCEPT ![t] = <<>>]
            /\ UNCHANGED <<once, owner, stage, reg, ci, hist>>
InitEnter(t) == /\ pc[t] = "init" /\ once = "uninit"
                /\ once' = IF FlagBeforeFill THEN "done" ELSE "running"
                /\ owner' = t /\ stage' = 0 /\ pc' = [pc EXCEPT ![t] = "initing"]
                /\ UNCHANGED <<reg, ci, li, seen, hist, clock, inv>>
InitStage(t) == /\ pc[t] = "initing" /\ stage < 4
                /\ LET r == StageReg[stage + 1] IN
                   reg' = [reg EXCEPT ![r] = [n \in Names |-> IF n \in Builtin[r] THEN "b" ELSE @[n]]]
                /\ stage' = stage + 1
                /\ UNCHANGED <<once, owner, pc, ci, li, seen, hist, clock, inv>>
InitDone(t) == /\ pc[t] = "initing" /\ stage = 4
               /\ once' = "done" /\ pc' = [pc EXCEPT ![t] = "run"]
               /\ UNCHANGED <<owner, stage, reg, ci, li, seen, hist, clock, inv>>
InitPass(t) == /\ pc[t] = "init" /\ once = "done"       \* blocked while once = "running"
               /\ pc' = [pc EXCEPT ![t] = "run"]
               /\ UNCHANGED <<once, owner, stage, reg, ci, li, seen, hist, clock, inv>>
Insert(t) == /\ pc[t] = "run" /\ Call(t).op = "reg"
             /\ reg' = [reg EXCEPT ![Call(t).r][Call(t).name] = Call(t).val]
             /\ pc' = [pc EXCEPT ![t] = "ret"]
             /\ UNCHANGED <<once, owner, stage, ci, li, seen, hist, clock, inv>>
Lookup(t) == /\ pc[t] = "run" /\ Call(t).op = "eval" /\ li[t] <= Len(Call(t).plan)
             /\ LET q == Call(t).plan[li[t]] IN seen' = [seen EXCEPT ![t] = Append(@, reg[q[1]][q[2]])]
             /\ li' = [li EXCEPT ![t] = @ + 1]
             /\ UNCHANGED <<once, owner, stage, reg, pc, ci, hist, clock, inv>>
EvalDone(t) == /\ pc[t] = "run" /\ Call(t).op = "eval" /\ li[t] > Len(Call(t).plan)
               /\ pc' = [pc EXCEPT ![t] = "ret"]
               /\ UNCHANGED <<once, owner, stage, reg, ci, li, seen, hist, clock, inv>>
End(t) == /\ pc[t] = "ret"
          /\ hist' = Append(hist, [t |-> t, call |-> Call(t), res |-> seen[t], inv |-> inv[t], ret |-> clock + 1])
          /\ clock' = clock + 1 /\ ci' = [ci EXCEPT ![t] = @ + 1] /\ pc' = [pc EXCEPT ![t] = "idle"]
          /\ UNCHANGED <<once, owner, stage, reg, li, seen, inv>>
Next == \E t \in Threads : Begin(t) \/ InitEnter(t) \/ InitStage(t) \/ InitDone(t) \/ InitPass(t) \/ Insert(t) \/ Lookup(t) \/ EvalDone(t) \/ End(t)
AllDone == \A t \in Threads : pc[t] = "idle" /\ ci[t] > Len(Progs[t])
Spec == Init /\ [][Next]_vars

\* ---- properties
NoPartialInit == \A t \in Threads : (pc[t] = "run" /\ ~(once = "done" /\ stage = 4)) => FALSE
BuiltinRegs == [r \in Regs |-> [n \in Names |-> IF n \in Builtin[r] THEN "b" ELSE "none"]]
\* sequential reference: every call atomic, engine initialised before the first call
SeqApply(st, c) == IF c.op = "reg" THEN [st |-> [st.st EXCEPT ![c.r][c.name] = c.val], res |-> <<>>]
                   ELSE [st |-> st.st, res |-> [i \in 1..Len(c.plan) |-> st.st[c.plan[i][1]][c.plan[i][2]]]]
RECURSIVE Explains(_, _)
\* is there an order of the remaining history records, consistent with real time, that the sequential engine reproduces?
Explains(st, rest) ==
  IF rest = {} THEN TRUE
  ELSE \E h \in rest :
        /\ \A g \in rest : ~(g.ret < h.inv)              \* nothing still pending finished before h began
        /\ LET a == SeqApply([st |-> st], h.call) IN a.res = h.res /\ Explains(a.st, rest \ {h})
Linearizable == AllDone => Explains(BuiltinRegs, {hist[i] : i \in 1..Len(hist)})
Terminates == <>AllDone
====
