---- MODULE MC ----
EXTENDS Pratt, Grammar, Json
Ops13 == {"n","x","minus","star","asg","eq","not","in","bang","inc","q","colon","lp","rp"}
Del13 == {"n","f","lp","rp","lb","rb","lc","rc","comma","colon","semi","minus","q"}
Full == consumed \o la
Agree == /\ (done /\ ~err) => LET v == Verdict(consumed) IN v[1] = "Unspecified" \/ (v[1] \in {"MustAccept","MayAccept"} /\ v[2] = result)
         /\ err => Verdict(SelectSeq(Full, LAMBDA x : x # EOF))[1] # "MustAccept"
NoFixed == <<>>
Emit == (done \/ err) => PrintT(ToJson([toks |-> SelectSeq(Full, LAMBDA x : x # EOF), ok |-> ~err, ast |-> result, v |-> Verdict(SelectSeq(Full, LAMBDA x : x # EOF))[1]]))
====
