---- MODULE BP ----
EXTENDS Integers, TLAPS
L(p) == 2 * p
RL(p) == 2 * p + 1
RR(p) == 2 * p - 1
THEOREM LeftTighter == \A p, q \in Nat : (RL(p) < L(q)) <=> (p < q)
  BY DEF L, RL
THEOREM RightTighter == \A p, q \in Nat : (RR(p) < L(q)) <=> (p <= q)
  BY DEF L, RR
THEOREM NoTie == \A p, q \in Nat : RL(p) # L(q) /\ RR(p) # L(q)
  BY DEF L, RL, RR
THEOREM Fits == \A p \in 1..1000000000 : RL(p) <= 2147483647 /\ RR(p) >= 1
  BY DEF RL, RR
====
