---- MODULE MCE ----
EXTENDS Engine
T2 == {"t1", "t2"}
\* scenario A: first-use race — both threads' first call; t2 overrides a builtin function, t1 evaluates min() and f()
PA == [t1 |-> << [op |-> "eval", plan |-> << <<"func","min">> >>], [op |-> "eval", plan |-> << <<"func","f">> >>] >>,
       t2 |-> << [op |-> "reg", r |-> "func", name |-> "min", val |-> "h1"], [op |-> "reg", r |-> "func", name |-> "f", val |-> "h2"] >>]
\* scenario F1: an evaluation that looks `plus` up twice, overlapped by a re-registration of plus
PF == [t1 |-> << [op |-> "eval", plan |-> << <<"infix","plus">>, <<"infix","plus">> >>] >>,
       t2 |-> << [op |-> "reg", r |-> "infix", name |-> "plus", val |-> "h2"] >>]
====
