---- MODULE BN ----
EXTENDS Integers, Sequences, TLC, SequencesExt
B == 10000
\* little-endian limb sequences, no trailing zero limbs (canonical), <<>> = 0
RECURSIVE Norm(_)
Norm(a) == IF a = <<>> THEN a ELSE IF a[Len(a)] = 0 THEN Norm(SubSeq(a,1,Len(a)-1)) ELSE a
RECURSIVE AddC(_,_,_)
AddC(a,b,c) == IF a = <<>> /\ b = <<>> THEN (IF c = 0 THEN <<>> ELSE <<c>>)
   ELSE LET x == IF a = <<>> THEN 0 ELSE a[1]
            y == IF b = <<>> THEN 0 ELSE b[1]
            s == x + y + c
        IN <<s % B>> \o AddC(IF a = <<>> THEN a ELSE Tail(a), IF b = <<>> THEN b ELSE Tail(b), s \div B)
Add(a,b) == AddC(a,b,0)
RECURSIVE MulS(_,_,_)
MulS(a,k,c) == IF a = <<>> THEN (IF c = 0 THEN <<>> ELSE <<c>>)
   ELSE LET s == a[1]*k + c IN <<s % B>> \o MulS(Tail(a), k, s \div B)
RECURSIVE Mul(_,_)
Mul(a,b) == IF b = <<>> THEN <<>> ELSE Add(MulS(a,b[1],0), <<0>> \o Mul(a, Tail(b)))
MulN(a,b) == Norm(Mul(a,b))
X == <<335, 5439, 5935, 3374, 2643, 1425, 2816, 792>>
VARIABLES n, acc
Init == n = 0 /\ acc = <<>>
Next == n < 5000 /\ n' = n + 1 /\ acc' = MulN(X, <<n % B>> \o Tail(X))
Spec == Init /\ [][Next]_<<n,acc>>
====
