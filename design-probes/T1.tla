---- MODULE T1 ----
EXTENDS Integers, Sequences, TLC, Json, IOUtils, SequencesExt, FiniteSetsExt
Recs == ndJsonDeserialize(IOEnv.TRACE)
ASSUME PrintT(Recs)
ASSUME PrintT(ToJson([a |-> <<1,2>>, b |-> "x", c |-> <<"bin","+",<<"num",<<1,2>>>>,<<"ref","x">>>>]))
ASSUME PrintT(Recs[1].ast[3][1])
ASSUME PrintT(Len(Recs[2].chars))
====
