SPECIFICATION Spec
CONSTANTS MaxLen = 5
 Alphabet <- A1
 SliceMode = "char"
INVARIANT Tiling TailIsWs StrPayload MaximalMunch WholeWord OnBoundary StepBudget
