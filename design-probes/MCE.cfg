SPECIFICATION Spec
CONSTANTS Threads <- T2
 Progs <- PF
 FlagBeforeFill = FALSE
 EntryWithoutInit = FALSE
INVARIANT Linearizable
