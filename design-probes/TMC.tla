---- MODULE TMC ----
EXTENDS TPratt
A0 == {"n"}
Accepted == (pc[1] = "Fin") => (bad = 0 /\ idx = Len(Recs) + 1)
Post == IF TLCGet("stats").diameter > 0 THEN TRUE ELSE TRUE
====
