---- MODULE MCF ----
EXTENDS Pratt, Json
Ops13 == {"n","x","minus","star","asg","eq","not","in","bang","inc","q","colon","lp","rp"}
Fx1 == <<"n","eq","n","minus","n","q","n","colon","n">>
Fx2 == <<"x","asg","n","minus","n","star","n","not","eq","n">>
Fx3 == <<"n","star","n","not","in","lb","n","rb","minus","n">>
Fx4 == <<"minus","n","inc","minus","minus","n","asg","x","asg","n","q","n","q","n","colon","n","colon","n">>
Show == (done \/ err) => PrintT(<<err, ToJson(result), consumed>>)
====
