---- MODULE TPratt ----
EXTENDS Integers, Sequences, TLC, FiniteSets, Json, IOUtils
CONSTANTS MaxLen, Alphabet
Recs == ndJsonDeserialize(IOEnv.TRACE)

EOF == "EOF"
Infix == [ minus |-> <<110, "L">>, star |-> <<120, "L">>, asg |-> <<20, "R">>, eq |-> <<60, "L">>, in |-> <<200, "L">> ]
IsInfix(t) == t \in DOMAIN Infix
IsPostfix(t) == t = "inc"
IsOpTok(t) == t \in (DOMAIN Infix) \cup {"inc", "not", "bang", "q", "colon"}
LBP(t) == IF IsInfix(t) THEN 2 * Infix[t][1] ELSE -1
RBP(t) == IF IsInfix(t) THEN (IF Infix[t][2] = "L" THEN 2 * Infix[t][1] + 1 ELSE 2 * Infix[t][1] - 1) ELSE -1

(* --algorithm pratt
variables Fixed = <<>>, idx = 1, bad = 0, consumed = <<>>, cur = "none", la = <<>>, ret = <<>>, err = FALSE, result = <<>>, done = FALSE;

macro Fetch(v) begin
  \* choose the next token lazily
  if TRUE then
     v := IF Len(consumed) + Len(la) + 1 <= Len(Fixed) THEN Fixed[Len(consumed) + Len(la) + 1] ELSE EOF;
  elsif Len(consumed) + Len(la) >= MaxLen then
     v := EOF;
  else
     with t \in Alphabet \cup {EOF} do v := t; end with;
  end if;
end macro;

procedure advance()
  variable tk = "none";
begin
Adv:
  if la # <<>> then
     cur := la[1]; la := <<>>; 
  else
     Fetch(tk);
     cur := tk;
  end if;
AdvB:
  if cur # EOF then consumed := Append(consumed, cur); end if;
  return;
end procedure;

procedure peek()
  variable tk = "none";
begin
Pk:
  if la = <<>> then
     Fetch(tk);
     la := <<tk>>;
  end if;
PkR: return;
end procedure;

procedure parse_stmt()
  variable ans = <<>>;
begin
S0: call advance();
S1: while cur # EOF /\ ~err do
      call parse_expression();
S2:   if ~err then
        ans := Append(ans, ret);
        if cur = "semi" then call advance(); end if;
      end if;
    end while;
S3: if ~err then result := IF Len(ans) = 1 THEN ans[1] ELSE <<"stmt", ans>>; end if;
    done := TRUE;
    return;
end procedure;

procedure parse_expression()
begin
E0: call parse_primary();
E1: if ~err then call parse_op(0, ret); end if;
E2: return;
end procedure;

procedure parse_primary()
begin
P0: call parse_token();
P1: if ~err /\ IsPostfix(cur) then
       ret := <<"post", ret, cur>>;
       call advance();
    end if;
P2: return;
end procedure;

procedure parse_token()
  variables items = <<>>, key = <<>>, op = "none";
begin
T0: if cur = "n" \/ cur = "x" then
       ret := <<cur>>; call advance();
T0r:   return;
    elsif cur = "f" then
       \* function name: next token is "(" by construction of the lexer
       call advance();
F1:    if cur # "lp" then err := TRUE; return; end if;
F2:    call advance();
F3:    if cur = "rp" then
          ret := <<"call", <<>>>>; call advance();
F3r:      return;
       end if;
F4:    call parse_expression();
F5:    if err then return; end if;
F6:    items := Append(items, ret);
       if cur = "rp" then
          ret := <<"call", items>>; call advance();
F6r:      return;
       elsif cur = "comma" then
          call advance();
F7:       goto F4;
       else err := TRUE;
F8:       return;
       end if;
    elsif IsOpTok(cur) then
       op := cur; call advance();
U1:    call parse_primary();
U2:    if ~err then ret := <<"un", op, ret>>; end if;
       return;
    elsif cur = "lp" then
       call advance();
L1:    call parse_expression();
L2:    if err then return;
       elsif cur # "rp" then err := TRUE; return;
       else call advance();
L3:      return;
       end if;
    elsif cur = "lb" then
       call advance();
B1:    if cur = "rb" then
          ret := <<"list", items>>; call advance();
B1r:      return;
       elsif cur = EOF then err := TRUE; return;
       end if;
B2:    call parse_expression();
B3:    if err then return; end if;
B4:    items := Append(items, ret);
       if cur = "rb" then goto B1;
       elsif cur = "comma" then call advance();
B5:       goto B1;
       else err := TRUE;
B6:       return;
       end if;
    elsif cur = "lc" then
       call advance();
M1:    if cur = "rc" then
          ret := <<"map", items>>; call advance();
M1r:      return;
       elsif cur = EOF then err := TRUE; return;
       end if;
M2:    call parse_expression();
M3:    if err then return;
       elsif cur # "colon" then err := TRUE; return;
       else key := ret; call advance();
       end if;
M4:    call parse_expression();
M5:    if err then return; end if;
M6:    items := Append(items, <<key, ret>>);
       if cur = "rc" then goto M1;
       elsif cur = "comma" then call advance();
M7:       goto M1;
       else err := TRUE;
M8:       return;
       end if;
    else
       err := TRUE; return;
    end if;
end procedure;

procedure parse_op(min, lhs)
  variables isnot = FALSE, op = "none", rbp = -1, a = <<>>, optok = "none";
begin
O0: while TRUE do
      if ~IsOpTok(cur) then ret := lhs; return; end if;
O1:   if cur = "q" then
         if min > 0 then ret := lhs; return; end if;
Q0:      call advance();
Q1:      call parse_expression();
Q2:      if err then return;
         elsif cur # "colon" then err := TRUE; return;
         else a := ret; call advance();
         end if;
Q3:      call parse_expression();
Q4:      if ~err then ret := <<"tern", lhs, a, ret>>; end if;
         return;
      end if;
O2:   if cur = "not" then
         call peek();
N1:      if ~IsInfix(la[1]) then err := TRUE; return; end if;
N2:      optok := la[1]; isnot := TRUE;
      else
         optok := cur; isnot := FALSE;
      end if;
O3:   if LBP(optok) < min then ret := lhs; return; end if;
O4:   if isnot then call advance(); end if;
O5:   op := cur; rbp := RBP(op);
      call advance();
O6:   call parse_primary();
O7:   if err then return; end if;
O8:   \* recursion gate: look at next operator (through a `not`)
      if cur = "not" then
         call peek();
G1:      optok := la[1];
      else optok := cur;
      end if;
O9:   if IsInfix(optok) /\ rbp < LBP(optok) then
         call parse_op(rbp, ret);
      end if;
O10:  if err then return; end if;
O11:  lhs := IF isnot THEN <<"un", "not", <<"bin", op, lhs, ret>>>> ELSE <<"bin", op, lhs, ret>>;
    end while;
end procedure;

process main = 1
begin
D0: while idx <= Len(Recs) /\ bad = 0 do
      Fixed := Recs[idx].toks; consumed := <<>>; la := <<>>; err := FALSE; done := FALSE; result := <<>>; cur := "none"; ret := <<>>;
      call parse_stmt();
D1:   if (~err) # Recs[idx].ok \/ (~err /\ result # Recs[idx].ast) then bad := idx; else idx := idx + 1; end if;
    end while;
Fin: skip;
end process;
end algorithm; *)
\* BEGIN TRANSLATION (chksum(pcal) = "7973ad2f" /\ chksum(tla) = "10f2d852")
\* Procedure variable tk of procedure advance at line 29 col 12 changed to tk_
\* Procedure variable op of procedure parse_token at line 88 col 39 changed to op_
CONSTANT defaultInitValue
VARIABLES pc, Fixed, idx, bad, consumed, cur, la, ret, err, result, done, 
          stack, tk_, tk, ans, items, key, op_, min, lhs, isnot, op, rbp, a, 
          optok

vars == << pc, Fixed, idx, bad, consumed, cur, la, ret, err, result, done, 
           stack, tk_, tk, ans, items, key, op_, min, lhs, isnot, op, rbp, a, 
           optok >>

ProcSet == {1}

Init == (* Global variables *)
        /\ Fixed = <<>>
        /\ idx = 1
        /\ bad = 0
        /\ consumed = <<>>
        /\ cur = "none"
        /\ la = <<>>
        /\ ret = <<>>
        /\ err = FALSE
        /\ result = <<>>
        /\ done = FALSE
        (* Procedure advance *)
        /\ tk_ = [ self \in ProcSet |-> "none"]
        (* Procedure peek *)
        /\ tk = [ self \in ProcSet |-> "none"]
        (* Procedure parse_stmt *)
        /\ ans = [ self \in ProcSet |-> <<>>]
        (* Procedure parse_token *)
        /\ items = [ self \in ProcSet |-> <<>>]
        /\ key = [ self \in ProcSet |-> <<>>]
        /\ op_ = [ self \in ProcSet |-> "none"]
        (* Procedure parse_op *)
        /\ min = [ self \in ProcSet |-> defaultInitValue]
        /\ lhs = [ self \in ProcSet |-> defaultInitValue]
        /\ isnot = [ self \in ProcSet |-> FALSE]
        /\ op = [ self \in ProcSet |-> "none"]
        /\ rbp = [ self \in ProcSet |-> -1]
        /\ a = [ self \in ProcSet |-> <<>>]
        /\ optok = [ self \in ProcSet |-> "none"]
        /\ stack = [self \in ProcSet |-> << >>]
        /\ pc = [self \in ProcSet |-> "D0"]

Adv(self) == /\ pc[self] = "Adv"
             /\ IF la # <<>>
                   THEN /\ cur' = la[1]
                        /\ la' = <<>>
                        /\ tk_' = tk_
                   ELSE /\ IF TRUE
                              THEN /\ tk_' = [tk_ EXCEPT ![self] = IF Len(consumed) + Len(la) + 1 <= Len(Fixed) THEN Fixed[Len(consumed) + Len(la) + 1] ELSE EOF]
                              ELSE /\ IF Len(consumed) + Len(la) >= MaxLen
                                         THEN /\ tk_' = [tk_ EXCEPT ![self] = EOF]
                                         ELSE /\ \E t \in Alphabet \cup {EOF}:
                                                   tk_' = [tk_ EXCEPT ![self] = t]
                        /\ cur' = tk_'[self]
                        /\ la' = la
             /\ pc' = [pc EXCEPT ![self] = "AdvB"]
             /\ UNCHANGED << Fixed, idx, bad, consumed, ret, err, result, done, 
                             stack, tk, ans, items, key, op_, min, lhs, isnot, 
                             op, rbp, a, optok >>

AdvB(self) == /\ pc[self] = "AdvB"
              /\ IF cur # EOF
                    THEN /\ consumed' = Append(consumed, cur)
                    ELSE /\ TRUE
                         /\ UNCHANGED consumed
              /\ pc' = [pc EXCEPT ![self] = Head(stack[self]).pc]
              /\ tk_' = [tk_ EXCEPT ![self] = Head(stack[self]).tk_]
              /\ stack' = [stack EXCEPT ![self] = Tail(stack[self])]
              /\ UNCHANGED << Fixed, idx, bad, cur, la, ret, err, result, done, 
                              tk, ans, items, key, op_, min, lhs, isnot, op, 
                              rbp, a, optok >>

advance(self) == Adv(self) \/ AdvB(self)

Pk(self) == /\ pc[self] = "Pk"
            /\ IF la = <<>>
                  THEN /\ IF TRUE
                             THEN /\ tk' = [tk EXCEPT ![self] = IF Len(consumed) + Len(la) + 1 <= Len(Fixed) THEN Fixed[Len(consumed) + Len(la) + 1] ELSE EOF]
                             ELSE /\ IF Len(consumed) + Len(la) >= MaxLen
                                        THEN /\ tk' = [tk EXCEPT ![self] = EOF]
                                        ELSE /\ \E t \in Alphabet \cup {EOF}:
                                                  tk' = [tk EXCEPT ![self] = t]
                       /\ la' = <<tk'[self]>>
                  ELSE /\ TRUE
                       /\ UNCHANGED << la, tk >>
            /\ pc' = [pc EXCEPT ![self] = "PkR"]
            /\ UNCHANGED << Fixed, idx, bad, consumed, cur, ret, err, result, 
                            done, stack, tk_, ans, items, key, op_, min, lhs, 
                            isnot, op, rbp, a, optok >>

PkR(self) == /\ pc[self] = "PkR"
             /\ pc' = [pc EXCEPT ![self] = Head(stack[self]).pc]
             /\ tk' = [tk EXCEPT ![self] = Head(stack[self]).tk]
             /\ stack' = [stack EXCEPT ![self] = Tail(stack[self])]
             /\ UNCHANGED << Fixed, idx, bad, consumed, cur, la, ret, err, 
                             result, done, tk_, ans, items, key, op_, min, lhs, 
                             isnot, op, rbp, a, optok >>

peek(self) == Pk(self) \/ PkR(self)

S0(self) == /\ pc[self] = "S0"
            /\ stack' = [stack EXCEPT ![self] = << [ procedure |->  "advance",
                                                     pc        |->  "S1",
                                                     tk_       |->  tk_[self] ] >>
                                                 \o stack[self]]
            /\ tk_' = [tk_ EXCEPT ![self] = "none"]
            /\ pc' = [pc EXCEPT ![self] = "Adv"]
            /\ UNCHANGED << Fixed, idx, bad, consumed, cur, la, ret, err, 
                            result, done, tk, ans, items, key, op_, min, lhs, 
                            isnot, op, rbp, a, optok >>

S1(self) == /\ pc[self] = "S1"
            /\ IF cur # EOF /\ ~err
                  THEN /\ stack' = [stack EXCEPT ![self] = << [ procedure |->  "parse_expression",
                                                                pc        |->  "S2" ] >>
                                                            \o stack[self]]
                       /\ pc' = [pc EXCEPT ![self] = "E0"]
                  ELSE /\ pc' = [pc EXCEPT ![self] = "S3"]
                       /\ stack' = stack
            /\ UNCHANGED << Fixed, idx, bad, consumed, cur, la, ret, err, 
                            result, done, tk_, tk, ans, items, key, op_, min, 
                            lhs, isnot, op, rbp, a, optok >>

S2(self) == /\ pc[self] = "S2"
            /\ IF ~err
                  THEN /\ ans' = [ans EXCEPT ![self] = Append(ans[self], ret)]
                       /\ IF cur = "semi"
                             THEN /\ stack' = [stack EXCEPT ![self] = << [ procedure |->  "advance",
                                                                           pc        |->  "S1",
                                                                           tk_       |->  tk_[self] ] >>
                                                                       \o stack[self]]
                                  /\ tk_' = [tk_ EXCEPT ![self] = "none"]
                                  /\ pc' = [pc EXCEPT ![self] = "Adv"]
                             ELSE /\ pc' = [pc EXCEPT ![self] = "S1"]
                                  /\ UNCHANGED << stack, tk_ >>
                  ELSE /\ pc' = [pc EXCEPT ![self] = "S1"]
                       /\ UNCHANGED << stack, tk_, ans >>
            /\ UNCHANGED << Fixed, idx, bad, consumed, cur, la, ret, err, 
                            result, done, tk, items, key, op_, min, lhs, isnot, 
                            op, rbp, a, optok >>

S3(self) == /\ pc[self] = "S3"
            /\ IF ~err
                  THEN /\ result' = (IF Len(ans[self]) = 1 THEN ans[self][1] ELSE <<"stmt", ans[self]>>)
                  ELSE /\ TRUE
                       /\ UNCHANGED result
            /\ done' = TRUE
            /\ pc' = [pc EXCEPT ![self] = Head(stack[self]).pc]
            /\ ans' = [ans EXCEPT ![self] = Head(stack[self]).ans]
            /\ stack' = [stack EXCEPT ![self] = Tail(stack[self])]
            /\ UNCHANGED << Fixed, idx, bad, consumed, cur, la, ret, err, tk_, 
                            tk, items, key, op_, min, lhs, isnot, op, rbp, a, 
                            optok >>

parse_stmt(self) == S0(self) \/ S1(self) \/ S2(self) \/ S3(self)

E0(self) == /\ pc[self] = "E0"
            /\ stack' = [stack EXCEPT ![self] = << [ procedure |->  "parse_primary",
                                                     pc        |->  "E1" ] >>
                                                 \o stack[self]]
            /\ pc' = [pc EXCEPT ![self] = "P0"]
            /\ UNCHANGED << Fixed, idx, bad, consumed, cur, la, ret, err, 
                            result, done, tk_, tk, ans, items, key, op_, min, 
                            lhs, isnot, op, rbp, a, optok >>

E1(self) == /\ pc[self] = "E1"
            /\ IF ~err
                  THEN /\ /\ lhs' = [lhs EXCEPT ![self] = ret]
                          /\ min' = [min EXCEPT ![self] = 0]
                          /\ stack' = [stack EXCEPT ![self] = << [ procedure |->  "parse_op",
                                                                   pc        |->  "E2",
                                                                   isnot     |->  isnot[self],
                                                                   op        |->  op[self],
                                                                   rbp       |->  rbp[self],
                                                                   a         |->  a[self],
                                                                   optok     |->  optok[self],
                                                                   min       |->  min[self],
                                                                   lhs       |->  lhs[self] ] >>
                                                               \o stack[self]]
                       /\ isnot' = [isnot EXCEPT ![self] = FALSE]
                       /\ op' = [op EXCEPT ![self] = "none"]
                       /\ rbp' = [rbp EXCEPT ![self] = -1]
                       /\ a' = [a EXCEPT ![self] = <<>>]
                       /\ optok' = [optok EXCEPT ![self] = "none"]
                       /\ pc' = [pc EXCEPT ![self] = "O0"]
                  ELSE /\ pc' = [pc EXCEPT ![self] = "E2"]
                       /\ UNCHANGED << stack, min, lhs, isnot, op, rbp, a, 
                                       optok >>
            /\ UNCHANGED << Fixed, idx, bad, consumed, cur, la, ret, err, 
                            result, done, tk_, tk, ans, items, key, op_ >>

E2(self) == /\ pc[self] = "E2"
            /\ pc' = [pc EXCEPT ![self] = Head(stack[self]).pc]
            /\ stack' = [stack EXCEPT ![self] = Tail(stack[self])]
            /\ UNCHANGED << Fixed, idx, bad, consumed, cur, la, ret, err, 
                            result, done, tk_, tk, ans, items, key, op_, min, 
                            lhs, isnot, op, rbp, a, optok >>

parse_expression(self) == E0(self) \/ E1(self) \/ E2(self)

P0(self) == /\ pc[self] = "P0"
            /\ stack' = [stack EXCEPT ![self] = << [ procedure |->  "parse_token",
                                                     pc        |->  "P1",
                                                     items     |->  items[self],
                                                     key       |->  key[self],
                                                     op_       |->  op_[self] ] >>
                                                 \o stack[self]]
            /\ items' = [items EXCEPT ![self] = <<>>]
            /\ key' = [key EXCEPT ![self] = <<>>]
            /\ op_' = [op_ EXCEPT ![self] = "none"]
            /\ pc' = [pc EXCEPT ![self] = "T0"]
            /\ UNCHANGED << Fixed, idx, bad, consumed, cur, la, ret, err, 
                            result, done, tk_, tk, ans, min, lhs, isnot, op, 
                            rbp, a, optok >>

P1(self) == /\ pc[self] = "P1"
            /\ IF ~err /\ IsPostfix(cur)
                  THEN /\ ret' = <<"post", ret, cur>>
                       /\ stack' = [stack EXCEPT ![self] = << [ procedure |->  "advance",
                                                                pc        |->  "P2",
                                                                tk_       |->  tk_[self] ] >>
                                                            \o stack[self]]
                       /\ tk_' = [tk_ EXCEPT ![self] = "none"]
                       /\ pc' = [pc EXCEPT ![self] = "Adv"]
                  ELSE /\ pc' = [pc EXCEPT ![self] = "P2"]
                       /\ UNCHANGED << ret, stack, tk_ >>
            /\ UNCHANGED << Fixed, idx, bad, consumed, cur, la, err, result, 
                            done, tk, ans, items, key, op_, min, lhs, isnot, 
                            op, rbp, a, optok >>

P2(self) == /\ pc[self] = "P2"
            /\ pc' = [pc EXCEPT ![self] = Head(stack[self]).pc]
            /\ stack' = [stack EXCEPT ![self] = Tail(stack[self])]
            /\ UNCHANGED << Fixed, idx, bad, consumed, cur, la, ret, err, 
                            result, done, tk_, tk, ans, items, key, op_, min, 
                            lhs, isnot, op, rbp, a, optok >>

parse_primary(self) == P0(self) \/ P1(self) \/ P2(self)

T0(self) == /\ pc[self] = "T0"
            /\ IF cur = "n" \/ cur = "x"
                  THEN /\ ret' = <<cur>>
                       /\ stack' = [stack EXCEPT ![self] = << [ procedure |->  "advance",
                                                                pc        |->  "T0r",
                                                                tk_       |->  tk_[self] ] >>
                                                            \o stack[self]]
                       /\ tk_' = [tk_ EXCEPT ![self] = "none"]
                       /\ pc' = [pc EXCEPT ![self] = "Adv"]
                       /\ UNCHANGED << err, items, key, op_ >>
                  ELSE /\ IF cur = "f"
                             THEN /\ stack' = [stack EXCEPT ![self] = << [ procedure |->  "advance",
                                                                           pc        |->  "F1",
                                                                           tk_       |->  tk_[self] ] >>
                                                                       \o stack[self]]
                                  /\ tk_' = [tk_ EXCEPT ![self] = "none"]
                                  /\ pc' = [pc EXCEPT ![self] = "Adv"]
                                  /\ UNCHANGED << err, items, key, op_ >>
                             ELSE /\ IF IsOpTok(cur)
                                        THEN /\ op_' = [op_ EXCEPT ![self] = cur]
                                             /\ stack' = [stack EXCEPT ![self] = << [ procedure |->  "advance",
                                                                                      pc        |->  "U1",
                                                                                      tk_       |->  tk_[self] ] >>
                                                                                  \o stack[self]]
                                             /\ tk_' = [tk_ EXCEPT ![self] = "none"]
                                             /\ pc' = [pc EXCEPT ![self] = "Adv"]
                                             /\ UNCHANGED << err, items, key >>
                                        ELSE /\ IF cur = "lp"
                                                   THEN /\ stack' = [stack EXCEPT ![self] = << [ procedure |->  "advance",
                                                                                                 pc        |->  "L1",
                                                                                                 tk_       |->  tk_[self] ] >>
                                                                                             \o stack[self]]
                                                        /\ tk_' = [tk_ EXCEPT ![self] = "none"]
                                                        /\ pc' = [pc EXCEPT ![self] = "Adv"]
                                                        /\ UNCHANGED << err, 
                                                                        items, 
                                                                        key, 
                                                                        op_ >>
                                                   ELSE /\ IF cur = "lb"
                                                              THEN /\ stack' = [stack EXCEPT ![self] = << [ procedure |->  "advance",
                                                                                                            pc        |->  "B1",
                                                                                                            tk_       |->  tk_[self] ] >>
                                                                                                        \o stack[self]]
                                                                   /\ tk_' = [tk_ EXCEPT ![self] = "none"]
                                                                   /\ pc' = [pc EXCEPT ![self] = "Adv"]
                                                                   /\ UNCHANGED << err, 
                                                                                   items, 
                                                                                   key, 
                                                                                   op_ >>
                                                              ELSE /\ IF cur = "lc"
                                                                         THEN /\ stack' = [stack EXCEPT ![self] = << [ procedure |->  "advance",
                                                                                                                       pc        |->  "M1",
                                                                                                                       tk_       |->  tk_[self] ] >>
                                                                                                                   \o stack[self]]
                                                                              /\ tk_' = [tk_ EXCEPT ![self] = "none"]
                                                                              /\ pc' = [pc EXCEPT ![self] = "Adv"]
                                                                              /\ UNCHANGED << err, 
                                                                                              items, 
                                                                                              key, 
                                                                                              op_ >>
                                                                         ELSE /\ err' = TRUE
                                                                              /\ pc' = [pc EXCEPT ![self] = Head(stack[self]).pc]
                                                                              /\ items' = [items EXCEPT ![self] = Head(stack[self]).items]
                                                                              /\ key' = [key EXCEPT ![self] = Head(stack[self]).key]
                                                                              /\ op_' = [op_ EXCEPT ![self] = Head(stack[self]).op_]
                                                                              /\ stack' = [stack EXCEPT ![self] = Tail(stack[self])]
                                                                              /\ tk_' = tk_
                       /\ ret' = ret
            /\ UNCHANGED << Fixed, idx, bad, consumed, cur, la, result, done, 
                            tk, ans, min, lhs, isnot, op, rbp, a, optok >>

T0r(self) == /\ pc[self] = "T0r"
             /\ pc' = [pc EXCEPT ![self] = Head(stack[self]).pc]
             /\ items' = [items EXCEPT ![self] = Head(stack[self]).items]
             /\ key' = [key EXCEPT ![self] = Head(stack[self]).key]
             /\ op_' = [op_ EXCEPT ![self] = Head(stack[self]).op_]
             /\ stack' = [stack EXCEPT ![self] = Tail(stack[self])]
             /\ UNCHANGED << Fixed, idx, bad, consumed, cur, la, ret, err, 
                             result, done, tk_, tk, ans, min, lhs, isnot, op, 
                             rbp, a, optok >>

F1(self) == /\ pc[self] = "F1"
            /\ IF cur # "lp"
                  THEN /\ err' = TRUE
                       /\ pc' = [pc EXCEPT ![self] = Head(stack[self]).pc]
                       /\ items' = [items EXCEPT ![self] = Head(stack[self]).items]
                       /\ key' = [key EXCEPT ![self] = Head(stack[self]).key]
                       /\ op_' = [op_ EXCEPT ![self] = Head(stack[self]).op_]
                       /\ stack' = [stack EXCEPT ![self] = Tail(stack[self])]
                  ELSE /\ pc' = [pc EXCEPT ![self] = "F2"]
                       /\ UNCHANGED << err, stack, items, key, op_ >>
            /\ UNCHANGED << Fixed, idx, bad, consumed, cur, la, ret, result, 
                            done, tk_, tk, ans, min, lhs, isnot, op, rbp, a, 
                            optok >>

F2(self) == /\ pc[self] = "F2"
            /\ stack' = [stack EXCEPT ![self] = << [ procedure |->  "advance",
                                                     pc        |->  "F3",
                                                     tk_       |->  tk_[self] ] >>
                                                 \o stack[self]]
            /\ tk_' = [tk_ EXCEPT ![self] = "none"]
            /\ pc' = [pc EXCEPT ![self] = "Adv"]
            /\ UNCHANGED << Fixed, idx, bad, consumed, cur, la, ret, err, 
                            result, done, tk, ans, items, key, op_, min, lhs, 
                            isnot, op, rbp, a, optok >>

F3(self) == /\ pc[self] = "F3"
            /\ IF cur = "rp"
                  THEN /\ ret' = <<"call", <<>>>>
                       /\ stack' = [stack EXCEPT ![self] = << [ procedure |->  "advance",
                                                                pc        |->  "F3r",
                                                                tk_       |->  tk_[self] ] >>
                                                            \o stack[self]]
                       /\ tk_' = [tk_ EXCEPT ![self] = "none"]
                       /\ pc' = [pc EXCEPT ![self] = "Adv"]
                  ELSE /\ pc' = [pc EXCEPT ![self] = "F4"]
                       /\ UNCHANGED << ret, stack, tk_ >>
            /\ UNCHANGED << Fixed, idx, bad, consumed, cur, la, err, result, 
                            done, tk, ans, items, key, op_, min, lhs, isnot, 
                            op, rbp, a, optok >>

F3r(self) == /\ pc[self] = "F3r"
             /\ pc' = [pc EXCEPT ![self] = Head(stack[self]).pc]
             /\ items' = [items EXCEPT ![self] = Head(stack[self]).items]
             /\ key' = [key EXCEPT ![self] = Head(stack[self]).key]
             /\ op_' = [op_ EXCEPT ![self] = Head(stack[self]).op_]
             /\ stack' = [stack EXCEPT ![self] = Tail(stack[self])]
             /\ UNCHANGED << Fixed, idx, bad, consumed, cur, la, ret, err, 
                             result, done, tk_, tk, ans, min, lhs, isnot, op, 
                             rbp, a, optok >>

F4(self) == /\ pc[self] = "F4"
            /\ stack' = [stack EXCEPT ![self] = << [ procedure |->  "parse_expression",
                                                     pc        |->  "F5" ] >>
                                                 \o stack[self]]
            /\ pc' = [pc EXCEPT ![self] = "E0"]
            /\ UNCHANGED << Fixed, idx, bad, consumed, cur, la, ret, err, 
                            result, done, tk_, tk, ans, items, key, op_, min, 
                            lhs, isnot, op, rbp, a, optok >>

F5(self) == /\ pc[self] = "F5"
            /\ IF err
                  THEN /\ pc' = [pc EXCEPT ![self] = Head(stack[self]).pc]
                       /\ items' = [items EXCEPT ![self] = Head(stack[self]).items]
                       /\ key' = [key EXCEPT ![self] = Head(stack[self]).key]
                       /\ op_' = [op_ EXCEPT ![self] = Head(stack[self]).op_]
                       /\ stack' = [stack EXCEPT ![self] = Tail(stack[self])]
                  ELSE /\ pc' = [pc EXCEPT ![self] = "F6"]
                       /\ UNCHANGED << stack, items, key, op_ >>
            /\ UNCHANGED << Fixed, idx, bad, consumed, cur, la, ret, err, 
                            result, done, tk_, tk, ans, min, lhs, isnot, op, 
                            rbp, a, optok >>

F6(self) == /\ pc[self] = "F6"
            /\ items' = [items EXCEPT ![self] = Append(items[self], ret)]
            /\ IF cur = "rp"
                  THEN /\ ret' = <<"call", items'[self]>>
                       /\ stack' = [stack EXCEPT ![self] = << [ procedure |->  "advance",
                                                                pc        |->  "F6r",
                                                                tk_       |->  tk_[self] ] >>
                                                            \o stack[self]]
                       /\ tk_' = [tk_ EXCEPT ![self] = "none"]
                       /\ pc' = [pc EXCEPT ![self] = "Adv"]
                       /\ err' = err
                  ELSE /\ IF cur = "comma"
                             THEN /\ stack' = [stack EXCEPT ![self] = << [ procedure |->  "advance",
                                                                           pc        |->  "F7",
                                                                           tk_       |->  tk_[self] ] >>
                                                                       \o stack[self]]
                                  /\ tk_' = [tk_ EXCEPT ![self] = "none"]
                                  /\ pc' = [pc EXCEPT ![self] = "Adv"]
                                  /\ err' = err
                             ELSE /\ err' = TRUE
                                  /\ pc' = [pc EXCEPT ![self] = "F8"]
                                  /\ UNCHANGED << stack, tk_ >>
                       /\ ret' = ret
            /\ UNCHANGED << Fixed, idx, bad, consumed, cur, la, result, done, 
                            tk, ans, key, op_, min, lhs, isnot, op, rbp, a, 
                            optok >>

F6r(self) == /\ pc[self] = "F6r"
             /\ pc' = [pc EXCEPT ![self] = Head(stack[self]).pc]
             /\ items' = [items EXCEPT ![self] = Head(stack[self]).items]
             /\ key' = [key EXCEPT ![self] = Head(stack[self]).key]
             /\ op_' = [op_ EXCEPT ![self] = Head(stack[self]).op_]
             /\ stack' = [stack EXCEPT ![self] = Tail(stack[self])]
             /\ UNCHANGED << Fixed, idx, bad, consumed, cur, la, ret, err, 
                             result, done, tk_, tk, ans, min, lhs, isnot, op, 
                             rbp, a, optok >>

F7(self) == /\ pc[self] = "F7"
            /\ pc' = [pc EXCEPT ![self] = "F4"]
            /\ UNCHANGED << Fixed, idx, bad, consumed, cur, la, ret, err, 
                            result, done, stack, tk_, tk, ans, items, key, op_, 
                            min, lhs, isnot, op, rbp, a, optok >>

F8(self) == /\ pc[self] = "F8"
            /\ pc' = [pc EXCEPT ![self] = Head(stack[self]).pc]
            /\ items' = [items EXCEPT ![self] = Head(stack[self]).items]
            /\ key' = [key EXCEPT ![self] = Head(stack[self]).key]
            /\ op_' = [op_ EXCEPT ![self] = Head(stack[self]).op_]
            /\ stack' = [stack EXCEPT ![self] = Tail(stack[self])]
            /\ UNCHANGED << Fixed, idx, bad, consumed, cur, la, ret, err, 
                            result, done, tk_, tk, ans, min, lhs, isnot, op, 
                            rbp, a, optok >>

U1(self) == /\ pc[self] = "U1"
            /\ stack' = [stack EXCEPT ![self] = << [ procedure |->  "parse_primary",
                                                     pc        |->  "U2" ] >>
                                                 \o stack[self]]
            /\ pc' = [pc EXCEPT ![self] = "P0"]
            /\ UNCHANGED << Fixed, idx, bad, consumed, cur, la, ret, err, 
                            result, done, tk_, tk, ans, items, key, op_, min, 
                            lhs, isnot, op, rbp, a, optok >>

U2(self) == /\ pc[self] = "U2"
            /\ IF ~err
                  THEN /\ ret' = <<"un", op_[self], ret>>
                  ELSE /\ TRUE
                       /\ ret' = ret
            /\ pc' = [pc EXCEPT ![self] = Head(stack[self]).pc]
            /\ items' = [items EXCEPT ![self] = Head(stack[self]).items]
            /\ key' = [key EXCEPT ![self] = Head(stack[self]).key]
            /\ op_' = [op_ EXCEPT ![self] = Head(stack[self]).op_]
            /\ stack' = [stack EXCEPT ![self] = Tail(stack[self])]
            /\ UNCHANGED << Fixed, idx, bad, consumed, cur, la, err, result, 
                            done, tk_, tk, ans, min, lhs, isnot, op, rbp, a, 
                            optok >>

L1(self) == /\ pc[self] = "L1"
            /\ stack' = [stack EXCEPT ![self] = << [ procedure |->  "parse_expression",
                                                     pc        |->  "L2" ] >>
                                                 \o stack[self]]
            /\ pc' = [pc EXCEPT ![self] = "E0"]
            /\ UNCHANGED << Fixed, idx, bad, consumed, cur, la, ret, err, 
                            result, done, tk_, tk, ans, items, key, op_, min, 
                            lhs, isnot, op, rbp, a, optok >>

L2(self) == /\ pc[self] = "L2"
            /\ IF err
                  THEN /\ pc' = [pc EXCEPT ![self] = Head(stack[self]).pc]
                       /\ items' = [items EXCEPT ![self] = Head(stack[self]).items]
                       /\ key' = [key EXCEPT ![self] = Head(stack[self]).key]
                       /\ op_' = [op_ EXCEPT ![self] = Head(stack[self]).op_]
                       /\ stack' = [stack EXCEPT ![self] = Tail(stack[self])]
                       /\ UNCHANGED << err, tk_ >>
                  ELSE /\ IF cur # "rp"
                             THEN /\ err' = TRUE
                                  /\ pc' = [pc EXCEPT ![self] = Head(stack[self]).pc]
                                  /\ items' = [items EXCEPT ![self] = Head(stack[self]).items]
                                  /\ key' = [key EXCEPT ![self] = Head(stack[self]).key]
                                  /\ op_' = [op_ EXCEPT ![self] = Head(stack[self]).op_]
                                  /\ stack' = [stack EXCEPT ![self] = Tail(stack[self])]
                                  /\ tk_' = tk_
                             ELSE /\ stack' = [stack EXCEPT ![self] = << [ procedure |->  "advance",
                                                                           pc        |->  "L3",
                                                                           tk_       |->  tk_[self] ] >>
                                                                       \o stack[self]]
                                  /\ tk_' = [tk_ EXCEPT ![self] = "none"]
                                  /\ pc' = [pc EXCEPT ![self] = "Adv"]
                                  /\ UNCHANGED << err, items, key, op_ >>
            /\ UNCHANGED << Fixed, idx, bad, consumed, cur, la, ret, result, 
                            done, tk, ans, min, lhs, isnot, op, rbp, a, optok >>

L3(self) == /\ pc[self] = "L3"
            /\ pc' = [pc EXCEPT ![self] = Head(stack[self]).pc]
            /\ items' = [items EXCEPT ![self] = Head(stack[self]).items]
            /\ key' = [key EXCEPT ![self] = Head(stack[self]).key]
            /\ op_' = [op_ EXCEPT ![self] = Head(stack[self]).op_]
            /\ stack' = [stack EXCEPT ![self] = Tail(stack[self])]
            /\ UNCHANGED << Fixed, idx, bad, consumed, cur, la, ret, err, 
                            result, done, tk_, tk, ans, min, lhs, isnot, op, 
                            rbp, a, optok >>

B1(self) == /\ pc[self] = "B1"
            /\ IF cur = "rb"
                  THEN /\ ret' = <<"list", items[self]>>
                       /\ stack' = [stack EXCEPT ![self] = << [ procedure |->  "advance",
                                                                pc        |->  "B1r",
                                                                tk_       |->  tk_[self] ] >>
                                                            \o stack[self]]
                       /\ tk_' = [tk_ EXCEPT ![self] = "none"]
                       /\ pc' = [pc EXCEPT ![self] = "Adv"]
                       /\ UNCHANGED << err, items, key, op_ >>
                  ELSE /\ IF cur = EOF
                             THEN /\ err' = TRUE
                                  /\ pc' = [pc EXCEPT ![self] = Head(stack[self]).pc]
                                  /\ items' = [items EXCEPT ![self] = Head(stack[self]).items]
                                  /\ key' = [key EXCEPT ![self] = Head(stack[self]).key]
                                  /\ op_' = [op_ EXCEPT ![self] = Head(stack[self]).op_]
                                  /\ stack' = [stack EXCEPT ![self] = Tail(stack[self])]
                             ELSE /\ pc' = [pc EXCEPT ![self] = "B2"]
                                  /\ UNCHANGED << err, stack, items, key, op_ >>
                       /\ UNCHANGED << ret, tk_ >>
            /\ UNCHANGED << Fixed, idx, bad, consumed, cur, la, result, done, 
                            tk, ans, min, lhs, isnot, op, rbp, a, optok >>

B1r(self) == /\ pc[self] = "B1r"
             /\ pc' = [pc EXCEPT ![self] = Head(stack[self]).pc]
             /\ items' = [items EXCEPT ![self] = Head(stack[self]).items]
             /\ key' = [key EXCEPT ![self] = Head(stack[self]).key]
             /\ op_' = [op_ EXCEPT ![self] = Head(stack[self]).op_]
             /\ stack' = [stack EXCEPT ![self] = Tail(stack[self])]
             /\ UNCHANGED << Fixed, idx, bad, consumed, cur, la, ret, err, 
                             result, done, tk_, tk, ans, min, lhs, isnot, op, 
                             rbp, a, optok >>

B2(self) == /\ pc[self] = "B2"
            /\ stack' = [stack EXCEPT ![self] = << [ procedure |->  "parse_expression",
                                                     pc        |->  "B3" ] >>
                                                 \o stack[self]]
            /\ pc' = [pc EXCEPT ![self] = "E0"]
            /\ UNCHANGED << Fixed, idx, bad, consumed, cur, la, ret, err, 
                            result, done, tk_, tk, ans, items, key, op_, min, 
                            lhs, isnot, op, rbp, a, optok >>

B3(self) == /\ pc[self] = "B3"
            /\ IF err
                  THEN /\ pc' = [pc EXCEPT ![self] = Head(stack[self]).pc]
                       /\ items' = [items EXCEPT ![self] = Head(stack[self]).items]
                       /\ key' = [key EXCEPT ![self] = Head(stack[self]).key]
                       /\ op_' = [op_ EXCEPT ![self] = Head(stack[self]).op_]
                       /\ stack' = [stack EXCEPT ![self] = Tail(stack[self])]
                  ELSE /\ pc' = [pc EXCEPT ![self] = "B4"]
                       /\ UNCHANGED << stack, items, key, op_ >>
            /\ UNCHANGED << Fixed, idx, bad, consumed, cur, la, ret, err, 
                            result, done, tk_, tk, ans, min, lhs, isnot, op, 
                            rbp, a, optok >>

B4(self) == /\ pc[self] = "B4"
            /\ items' = [items EXCEPT ![self] = Append(items[self], ret)]
            /\ IF cur = "rb"
                  THEN /\ pc' = [pc EXCEPT ![self] = "B1"]
                       /\ UNCHANGED << err, stack, tk_ >>
                  ELSE /\ IF cur = "comma"
                             THEN /\ stack' = [stack EXCEPT ![self] = << [ procedure |->  "advance",
                                                                           pc        |->  "B5",
                                                                           tk_       |->  tk_[self] ] >>
                                                                       \o stack[self]]
                                  /\ tk_' = [tk_ EXCEPT ![self] = "none"]
                                  /\ pc' = [pc EXCEPT ![self] = "Adv"]
                                  /\ err' = err
                             ELSE /\ err' = TRUE
                                  /\ pc' = [pc EXCEPT ![self] = "B6"]
                                  /\ UNCHANGED << stack, tk_ >>
            /\ UNCHANGED << Fixed, idx, bad, consumed, cur, la, ret, result, 
                            done, tk, ans, key, op_, min, lhs, isnot, op, rbp, 
                            a, optok >>

B5(self) == /\ pc[self] = "B5"
            /\ pc' = [pc EXCEPT ![self] = "B1"]
            /\ UNCHANGED << Fixed, idx, bad, consumed, cur, la, ret, err, 
                            result, done, stack, tk_, tk, ans, items, key, op_, 
                            min, lhs, isnot, op, rbp, a, optok >>

B6(self) == /\ pc[self] = "B6"
            /\ pc' = [pc EXCEPT ![self] = Head(stack[self]).pc]
            /\ items' = [items EXCEPT ![self] = Head(stack[self]).items]
            /\ key' = [key EXCEPT ![self] = Head(stack[self]).key]
            /\ op_' = [op_ EXCEPT ![self] = Head(stack[self]).op_]
            /\ stack' = [stack EXCEPT ![self] = Tail(stack[self])]
            /\ UNCHANGED << Fixed, idx, bad, consumed, cur, la, ret, err, 
                            result, done, tk_, tk, ans, min, lhs, isnot, op, 
                            rbp, a, optok >>

M1(self) == /\ pc[self] = "M1"
            /\ IF cur = "rc"
                  THEN /\ ret' = <<"map", items[self]>>
                       /\ stack' = [stack EXCEPT ![self] = << [ procedure |->  "advance",
                                                                pc        |->  "M1r",
                                                                tk_       |->  tk_[self] ] >>
                                                            \o stack[self]]
                       /\ tk_' = [tk_ EXCEPT ![self] = "none"]
                       /\ pc' = [pc EXCEPT ![self] = "Adv"]
                       /\ UNCHANGED << err, items, key, op_ >>
                  ELSE /\ IF cur = EOF
                             THEN /\ err' = TRUE
                                  /\ pc' = [pc EXCEPT ![self] = Head(stack[self]).pc]
                                  /\ items' = [items EXCEPT ![self] = Head(stack[self]).items]
                                  /\ key' = [key EXCEPT ![self] = Head(stack[self]).key]
                                  /\ op_' = [op_ EXCEPT ![self] = Head(stack[self]).op_]
                                  /\ stack' = [stack EXCEPT ![self] = Tail(stack[self])]
                             ELSE /\ pc' = [pc EXCEPT ![self] = "M2"]
                                  /\ UNCHANGED << err, stack, items, key, op_ >>
                       /\ UNCHANGED << ret, tk_ >>
            /\ UNCHANGED << Fixed, idx, bad, consumed, cur, la, result, done, 
                            tk, ans, min, lhs, isnot, op, rbp, a, optok >>

M1r(self) == /\ pc[self] = "M1r"
             /\ pc' = [pc EXCEPT ![self] = Head(stack[self]).pc]
             /\ items' = [items EXCEPT ![self] = Head(stack[self]).items]
             /\ key' = [key EXCEPT ![self] = Head(stack[self]).key]
             /\ op_' = [op_ EXCEPT ![self] = Head(stack[self]).op_]
             /\ stack' = [stack EXCEPT ![self] = Tail(stack[self])]
             /\ UNCHANGED << Fixed, idx, bad, consumed, cur, la, ret, err, 
                             result, done, tk_, tk, ans, min, lhs, isnot, op, 
                             rbp, a, optok >>

M2(self) == /\ pc[self] = "M2"
            /\ stack' = [stack EXCEPT ![self] = << [ procedure |->  "parse_expression",
                                                     pc        |->  "M3" ] >>
                                                 \o stack[self]]
            /\ pc' = [pc EXCEPT ![self] = "E0"]
            /\ UNCHANGED << Fixed, idx, bad, consumed, cur, la, ret, err, 
                            result, done, tk_, tk, ans, items, key, op_, min, 
                            lhs, isnot, op, rbp, a, optok >>

M3(self) == /\ pc[self] = "M3"
            /\ IF err
                  THEN /\ pc' = [pc EXCEPT ![self] = Head(stack[self]).pc]
                       /\ items' = [items EXCEPT ![self] = Head(stack[self]).items]
                       /\ key' = [key EXCEPT ![self] = Head(stack[self]).key]
                       /\ op_' = [op_ EXCEPT ![self] = Head(stack[self]).op_]
                       /\ stack' = [stack EXCEPT ![self] = Tail(stack[self])]
                       /\ UNCHANGED << err, tk_ >>
                  ELSE /\ IF cur # "colon"
                             THEN /\ err' = TRUE
                                  /\ pc' = [pc EXCEPT ![self] = Head(stack[self]).pc]
                                  /\ items' = [items EXCEPT ![self] = Head(stack[self]).items]
                                  /\ key' = [key EXCEPT ![self] = Head(stack[self]).key]
                                  /\ op_' = [op_ EXCEPT ![self] = Head(stack[self]).op_]
                                  /\ stack' = [stack EXCEPT ![self] = Tail(stack[self])]
                                  /\ tk_' = tk_
                             ELSE /\ key' = [key EXCEPT ![self] = ret]
                                  /\ stack' = [stack EXCEPT ![self] = << [ procedure |->  "advance",
                                                                           pc        |->  "M4",
                                                                           tk_       |->  tk_[self] ] >>
                                                                       \o stack[self]]
                                  /\ tk_' = [tk_ EXCEPT ![self] = "none"]
                                  /\ pc' = [pc EXCEPT ![self] = "Adv"]
                                  /\ UNCHANGED << err, items, op_ >>
            /\ UNCHANGED << Fixed, idx, bad, consumed, cur, la, ret, result, 
                            done, tk, ans, min, lhs, isnot, op, rbp, a, optok >>

M4(self) == /\ pc[self] = "M4"
            /\ stack' = [stack EXCEPT ![self] = << [ procedure |->  "parse_expression",
                                                     pc        |->  "M5" ] >>
                                                 \o stack[self]]
            /\ pc' = [pc EXCEPT ![self] = "E0"]
            /\ UNCHANGED << Fixed, idx, bad, consumed, cur, la, ret, err, 
                            result, done, tk_, tk, ans, items, key, op_, min, 
                            lhs, isnot, op, rbp, a, optok >>

M5(self) == /\ pc[self] = "M5"
            /\ IF err
                  THEN /\ pc' = [pc EXCEPT ![self] = Head(stack[self]).pc]
                       /\ items' = [items EXCEPT ![self] = Head(stack[self]).items]
                       /\ key' = [key EXCEPT ![self] = Head(stack[self]).key]
                       /\ op_' = [op_ EXCEPT ![self] = Head(stack[self]).op_]
                       /\ stack' = [stack EXCEPT ![self] = Tail(stack[self])]
                  ELSE /\ pc' = [pc EXCEPT ![self] = "M6"]
                       /\ UNCHANGED << stack, items, key, op_ >>
            /\ UNCHANGED << Fixed, idx, bad, consumed, cur, la, ret, err, 
                            result, done, tk_, tk, ans, min, lhs, isnot, op, 
                            rbp, a, optok >>

M6(self) == /\ pc[self] = "M6"
            /\ items' = [items EXCEPT ![self] = Append(items[self], <<key[self], ret>>)]
            /\ IF cur = "rc"
                  THEN /\ pc' = [pc EXCEPT ![self] = "M1"]
                       /\ UNCHANGED << err, stack, tk_ >>
                  ELSE /\ IF cur = "comma"
                             THEN /\ stack' = [stack EXCEPT ![self] = << [ procedure |->  "advance",
                                                                           pc        |->  "M7",
                                                                           tk_       |->  tk_[self] ] >>
                                                                       \o stack[self]]
                                  /\ tk_' = [tk_ EXCEPT ![self] = "none"]
                                  /\ pc' = [pc EXCEPT ![self] = "Adv"]
                                  /\ err' = err
                             ELSE /\ err' = TRUE
                                  /\ pc' = [pc EXCEPT ![self] = "M8"]
                                  /\ UNCHANGED << stack, tk_ >>
            /\ UNCHANGED << Fixed, idx, bad, consumed, cur, la, ret, result, 
                            done, tk, ans, key, op_, min, lhs, isnot, op, rbp, 
                            a, optok >>

M7(self) == /\ pc[self] = "M7"
            /\ pc' = [pc EXCEPT ![self] = "M1"]
            /\ UNCHANGED << Fixed, idx, bad, consumed, cur, la, ret, err, 
                            result, done, stack, tk_, tk, ans, items, key, op_, 
                            min, lhs, isnot, op, rbp, a, optok >>

M8(self) == /\ pc[self] = "M8"
            /\ pc' = [pc EXCEPT ![self] = Head(stack[self]).pc]
            /\ items' = [items EXCEPT ![self] = Head(stack[self]).items]
            /\ key' = [key EXCEPT ![self] = Head(stack[self]).key]
            /\ op_' = [op_ EXCEPT ![self] = Head(stack[self]).op_]
            /\ stack' = [stack EXCEPT ![self] = Tail(stack[self])]
            /\ UNCHANGED << Fixed, idx, bad, consumed, cur, la, ret, err, 
                            result, done, tk_, tk, ans, min, lhs, isnot, op, 
                            rbp, a, optok >>

parse_token(self) == T0(self) \/ T0r(self) \/ F1(self) \/ F2(self)
                        \/ F3(self) \/ F3r(self) \/ F4(self) \/ F5(self)
                        \/ F6(self) \/ F6r(self) \/ F7(self) \/ F8(self)
                        \/ U1(self) \/ U2(self) \/ L1(self) \/ L2(self)
                        \/ L3(self) \/ B1(self) \/ B1r(self) \/ B2(self)
                        \/ B3(self) \/ B4(self) \/ B5(self) \/ B6(self)
                        \/ M1(self) \/ M1r(self) \/ M2(self) \/ M3(self)
                        \/ M4(self) \/ M5(self) \/ M6(self) \/ M7(self)
                        \/ M8(self)

O0(self) == /\ pc[self] = "O0"
            /\ IF ~IsOpTok(cur)
                  THEN /\ ret' = lhs[self]
                       /\ pc' = [pc EXCEPT ![self] = Head(stack[self]).pc]
                       /\ isnot' = [isnot EXCEPT ![self] = Head(stack[self]).isnot]
                       /\ op' = [op EXCEPT ![self] = Head(stack[self]).op]
                       /\ rbp' = [rbp EXCEPT ![self] = Head(stack[self]).rbp]
                       /\ a' = [a EXCEPT ![self] = Head(stack[self]).a]
                       /\ optok' = [optok EXCEPT ![self] = Head(stack[self]).optok]
                       /\ min' = [min EXCEPT ![self] = Head(stack[self]).min]
                       /\ lhs' = [lhs EXCEPT ![self] = Head(stack[self]).lhs]
                       /\ stack' = [stack EXCEPT ![self] = Tail(stack[self])]
                  ELSE /\ pc' = [pc EXCEPT ![self] = "O1"]
                       /\ UNCHANGED << ret, stack, min, lhs, isnot, op, rbp, a, 
                                       optok >>
            /\ UNCHANGED << Fixed, idx, bad, consumed, cur, la, err, result, 
                            done, tk_, tk, ans, items, key, op_ >>

O1(self) == /\ pc[self] = "O1"
            /\ IF cur = "q"
                  THEN /\ IF min[self] > 0
                             THEN /\ ret' = lhs[self]
                                  /\ pc' = [pc EXCEPT ![self] = Head(stack[self]).pc]
                                  /\ isnot' = [isnot EXCEPT ![self] = Head(stack[self]).isnot]
                                  /\ op' = [op EXCEPT ![self] = Head(stack[self]).op]
                                  /\ rbp' = [rbp EXCEPT ![self] = Head(stack[self]).rbp]
                                  /\ a' = [a EXCEPT ![self] = Head(stack[self]).a]
                                  /\ optok' = [optok EXCEPT ![self] = Head(stack[self]).optok]
                                  /\ min' = [min EXCEPT ![self] = Head(stack[self]).min]
                                  /\ lhs' = [lhs EXCEPT ![self] = Head(stack[self]).lhs]
                                  /\ stack' = [stack EXCEPT ![self] = Tail(stack[self])]
                             ELSE /\ pc' = [pc EXCEPT ![self] = "Q0"]
                                  /\ UNCHANGED << ret, stack, min, lhs, isnot, 
                                                  op, rbp, a, optok >>
                  ELSE /\ pc' = [pc EXCEPT ![self] = "O2"]
                       /\ UNCHANGED << ret, stack, min, lhs, isnot, op, rbp, a, 
                                       optok >>
            /\ UNCHANGED << Fixed, idx, bad, consumed, cur, la, err, result, 
                            done, tk_, tk, ans, items, key, op_ >>

Q0(self) == /\ pc[self] = "Q0"
            /\ stack' = [stack EXCEPT ![self] = << [ procedure |->  "advance",
                                                     pc        |->  "Q1",
                                                     tk_       |->  tk_[self] ] >>
                                                 \o stack[self]]
            /\ tk_' = [tk_ EXCEPT ![self] = "none"]
            /\ pc' = [pc EXCEPT ![self] = "Adv"]
            /\ UNCHANGED << Fixed, idx, bad, consumed, cur, la, ret, err, 
                            result, done, tk, ans, items, key, op_, min, lhs, 
                            isnot, op, rbp, a, optok >>

Q1(self) == /\ pc[self] = "Q1"
            /\ stack' = [stack EXCEPT ![self] = << [ procedure |->  "parse_expression",
                                                     pc        |->  "Q2" ] >>
                                                 \o stack[self]]
            /\ pc' = [pc EXCEPT ![self] = "E0"]
            /\ UNCHANGED << Fixed, idx, bad, consumed, cur, la, ret, err, 
                            result, done, tk_, tk, ans, items, key, op_, min, 
                            lhs, isnot, op, rbp, a, optok >>

Q2(self) == /\ pc[self] = "Q2"
            /\ IF err
                  THEN /\ pc' = [pc EXCEPT ![self] = Head(stack[self]).pc]
                       /\ isnot' = [isnot EXCEPT ![self] = Head(stack[self]).isnot]
                       /\ op' = [op EXCEPT ![self] = Head(stack[self]).op]
                       /\ rbp' = [rbp EXCEPT ![self] = Head(stack[self]).rbp]
                       /\ a' = [a EXCEPT ![self] = Head(stack[self]).a]
                       /\ optok' = [optok EXCEPT ![self] = Head(stack[self]).optok]
                       /\ min' = [min EXCEPT ![self] = Head(stack[self]).min]
                       /\ lhs' = [lhs EXCEPT ![self] = Head(stack[self]).lhs]
                       /\ stack' = [stack EXCEPT ![self] = Tail(stack[self])]
                       /\ UNCHANGED << err, tk_ >>
                  ELSE /\ IF cur # "colon"
                             THEN /\ err' = TRUE
                                  /\ pc' = [pc EXCEPT ![self] = Head(stack[self]).pc]
                                  /\ isnot' = [isnot EXCEPT ![self] = Head(stack[self]).isnot]
                                  /\ op' = [op EXCEPT ![self] = Head(stack[self]).op]
                                  /\ rbp' = [rbp EXCEPT ![self] = Head(stack[self]).rbp]
                                  /\ a' = [a EXCEPT ![self] = Head(stack[self]).a]
                                  /\ optok' = [optok EXCEPT ![self] = Head(stack[self]).optok]
                                  /\ min' = [min EXCEPT ![self] = Head(stack[self]).min]
                                  /\ lhs' = [lhs EXCEPT ![self] = Head(stack[self]).lhs]
                                  /\ stack' = [stack EXCEPT ![self] = Tail(stack[self])]
                                  /\ tk_' = tk_
                             ELSE /\ a' = [a EXCEPT ![self] = ret]
                                  /\ stack' = [stack EXCEPT ![self] = << [ procedure |->  "advance",
                                                                           pc        |->  "Q3",
                                                                           tk_       |->  tk_[self] ] >>
                                                                       \o stack[self]]
                                  /\ tk_' = [tk_ EXCEPT ![self] = "none"]
                                  /\ pc' = [pc EXCEPT ![self] = "Adv"]
                                  /\ UNCHANGED << err, min, lhs, isnot, op, 
                                                  rbp, optok >>
            /\ UNCHANGED << Fixed, idx, bad, consumed, cur, la, ret, result, 
                            done, tk, ans, items, key, op_ >>

Q3(self) == /\ pc[self] = "Q3"
            /\ stack' = [stack EXCEPT ![self] = << [ procedure |->  "parse_expression",
                                                     pc        |->  "Q4" ] >>
                                                 \o stack[self]]
            /\ pc' = [pc EXCEPT ![self] = "E0"]
            /\ UNCHANGED << Fixed, idx, bad, consumed, cur, la, ret, err, 
                            result, done, tk_, tk, ans, items, key, op_, min, 
                            lhs, isnot, op, rbp, a, optok >>

Q4(self) == /\ pc[self] = "Q4"
            /\ IF ~err
                  THEN /\ ret' = <<"tern", lhs[self], a[self], ret>>
                  ELSE /\ TRUE
                       /\ ret' = ret
            /\ pc' = [pc EXCEPT ![self] = Head(stack[self]).pc]
            /\ isnot' = [isnot EXCEPT ![self] = Head(stack[self]).isnot]
            /\ op' = [op EXCEPT ![self] = Head(stack[self]).op]
            /\ rbp' = [rbp EXCEPT ![self] = Head(stack[self]).rbp]
            /\ a' = [a EXCEPT ![self] = Head(stack[self]).a]
            /\ optok' = [optok EXCEPT ![self] = Head(stack[self]).optok]
            /\ min' = [min EXCEPT ![self] = Head(stack[self]).min]
            /\ lhs' = [lhs EXCEPT ![self] = Head(stack[self]).lhs]
            /\ stack' = [stack EXCEPT ![self] = Tail(stack[self])]
            /\ UNCHANGED << Fixed, idx, bad, consumed, cur, la, err, result, 
                            done, tk_, tk, ans, items, key, op_ >>

O2(self) == /\ pc[self] = "O2"
            /\ IF cur = "not"
                  THEN /\ stack' = [stack EXCEPT ![self] = << [ procedure |->  "peek",
                                                                pc        |->  "N1",
                                                                tk        |->  tk[self] ] >>
                                                            \o stack[self]]
                       /\ tk' = [tk EXCEPT ![self] = "none"]
                       /\ pc' = [pc EXCEPT ![self] = "Pk"]
                       /\ UNCHANGED << isnot, optok >>
                  ELSE /\ optok' = [optok EXCEPT ![self] = cur]
                       /\ isnot' = [isnot EXCEPT ![self] = FALSE]
                       /\ pc' = [pc EXCEPT ![self] = "O3"]
                       /\ UNCHANGED << stack, tk >>
            /\ UNCHANGED << Fixed, idx, bad, consumed, cur, la, ret, err, 
                            result, done, tk_, ans, items, key, op_, min, lhs, 
                            op, rbp, a >>

N1(self) == /\ pc[self] = "N1"
            /\ IF ~IsInfix(la[1])
                  THEN /\ err' = TRUE
                       /\ pc' = [pc EXCEPT ![self] = Head(stack[self]).pc]
                       /\ isnot' = [isnot EXCEPT ![self] = Head(stack[self]).isnot]
                       /\ op' = [op EXCEPT ![self] = Head(stack[self]).op]
                       /\ rbp' = [rbp EXCEPT ![self] = Head(stack[self]).rbp]
                       /\ a' = [a EXCEPT ![self] = Head(stack[self]).a]
                       /\ optok' = [optok EXCEPT ![self] = Head(stack[self]).optok]
                       /\ min' = [min EXCEPT ![self] = Head(stack[self]).min]
                       /\ lhs' = [lhs EXCEPT ![self] = Head(stack[self]).lhs]
                       /\ stack' = [stack EXCEPT ![self] = Tail(stack[self])]
                  ELSE /\ pc' = [pc EXCEPT ![self] = "N2"]
                       /\ UNCHANGED << err, stack, min, lhs, isnot, op, rbp, a, 
                                       optok >>
            /\ UNCHANGED << Fixed, idx, bad, consumed, cur, la, ret, result, 
                            done, tk_, tk, ans, items, key, op_ >>

N2(self) == /\ pc[self] = "N2"
            /\ optok' = [optok EXCEPT ![self] = la[1]]
            /\ isnot' = [isnot EXCEPT ![self] = TRUE]
            /\ pc' = [pc EXCEPT ![self] = "O3"]
            /\ UNCHANGED << Fixed, idx, bad, consumed, cur, la, ret, err, 
                            result, done, stack, tk_, tk, ans, items, key, op_, 
                            min, lhs, op, rbp, a >>

O3(self) == /\ pc[self] = "O3"
            /\ IF LBP(optok[self]) < min[self]
                  THEN /\ ret' = lhs[self]
                       /\ pc' = [pc EXCEPT ![self] = Head(stack[self]).pc]
                       /\ isnot' = [isnot EXCEPT ![self] = Head(stack[self]).isnot]
                       /\ op' = [op EXCEPT ![self] = Head(stack[self]).op]
                       /\ rbp' = [rbp EXCEPT ![self] = Head(stack[self]).rbp]
                       /\ a' = [a EXCEPT ![self] = Head(stack[self]).a]
                       /\ optok' = [optok EXCEPT ![self] = Head(stack[self]).optok]
                       /\ min' = [min EXCEPT ![self] = Head(stack[self]).min]
                       /\ lhs' = [lhs EXCEPT ![self] = Head(stack[self]).lhs]
                       /\ stack' = [stack EXCEPT ![self] = Tail(stack[self])]
                  ELSE /\ pc' = [pc EXCEPT ![self] = "O4"]
                       /\ UNCHANGED << ret, stack, min, lhs, isnot, op, rbp, a, 
                                       optok >>
            /\ UNCHANGED << Fixed, idx, bad, consumed, cur, la, err, result, 
                            done, tk_, tk, ans, items, key, op_ >>

O4(self) == /\ pc[self] = "O4"
            /\ IF isnot[self]
                  THEN /\ stack' = [stack EXCEPT ![self] = << [ procedure |->  "advance",
                                                                pc        |->  "O5",
                                                                tk_       |->  tk_[self] ] >>
                                                            \o stack[self]]
                       /\ tk_' = [tk_ EXCEPT ![self] = "none"]
                       /\ pc' = [pc EXCEPT ![self] = "Adv"]
                  ELSE /\ pc' = [pc EXCEPT ![self] = "O5"]
                       /\ UNCHANGED << stack, tk_ >>
            /\ UNCHANGED << Fixed, idx, bad, consumed, cur, la, ret, err, 
                            result, done, tk, ans, items, key, op_, min, lhs, 
                            isnot, op, rbp, a, optok >>

O5(self) == /\ pc[self] = "O5"
            /\ op' = [op EXCEPT ![self] = cur]
            /\ rbp' = [rbp EXCEPT ![self] = RBP(op'[self])]
            /\ stack' = [stack EXCEPT ![self] = << [ procedure |->  "advance",
                                                     pc        |->  "O6",
                                                     tk_       |->  tk_[self] ] >>
                                                 \o stack[self]]
            /\ tk_' = [tk_ EXCEPT ![self] = "none"]
            /\ pc' = [pc EXCEPT ![self] = "Adv"]
            /\ UNCHANGED << Fixed, idx, bad, consumed, cur, la, ret, err, 
                            result, done, tk, ans, items, key, op_, min, lhs, 
                            isnot, a, optok >>

O6(self) == /\ pc[self] = "O6"
            /\ stack' = [stack EXCEPT ![self] = << [ procedure |->  "parse_primary",
                                                     pc        |->  "O7" ] >>
                                                 \o stack[self]]
            /\ pc' = [pc EXCEPT ![self] = "P0"]
            /\ UNCHANGED << Fixed, idx, bad, consumed, cur, la, ret, err, 
                            result, done, tk_, tk, ans, items, key, op_, min, 
                            lhs, isnot, op, rbp, a, optok >>

O7(self) == /\ pc[self] = "O7"
            /\ IF err
                  THEN /\ pc' = [pc EXCEPT ![self] = Head(stack[self]).pc]
                       /\ isnot' = [isnot EXCEPT ![self] = Head(stack[self]).isnot]
                       /\ op' = [op EXCEPT ![self] = Head(stack[self]).op]
                       /\ rbp' = [rbp EXCEPT ![self] = Head(stack[self]).rbp]
                       /\ a' = [a EXCEPT ![self] = Head(stack[self]).a]
                       /\ optok' = [optok EXCEPT ![self] = Head(stack[self]).optok]
                       /\ min' = [min EXCEPT ![self] = Head(stack[self]).min]
                       /\ lhs' = [lhs EXCEPT ![self] = Head(stack[self]).lhs]
                       /\ stack' = [stack EXCEPT ![self] = Tail(stack[self])]
                  ELSE /\ pc' = [pc EXCEPT ![self] = "O8"]
                       /\ UNCHANGED << stack, min, lhs, isnot, op, rbp, a, 
                                       optok >>
            /\ UNCHANGED << Fixed, idx, bad, consumed, cur, la, ret, err, 
                            result, done, tk_, tk, ans, items, key, op_ >>

O8(self) == /\ pc[self] = "O8"
            /\ IF cur = "not"
                  THEN /\ stack' = [stack EXCEPT ![self] = << [ procedure |->  "peek",
                                                                pc        |->  "G1",
                                                                tk        |->  tk[self] ] >>
                                                            \o stack[self]]
                       /\ tk' = [tk EXCEPT ![self] = "none"]
                       /\ pc' = [pc EXCEPT ![self] = "Pk"]
                       /\ optok' = optok
                  ELSE /\ optok' = [optok EXCEPT ![self] = cur]
                       /\ pc' = [pc EXCEPT ![self] = "O9"]
                       /\ UNCHANGED << stack, tk >>
            /\ UNCHANGED << Fixed, idx, bad, consumed, cur, la, ret, err, 
                            result, done, tk_, ans, items, key, op_, min, lhs, 
                            isnot, op, rbp, a >>

G1(self) == /\ pc[self] = "G1"
            /\ optok' = [optok EXCEPT ![self] = la[1]]
            /\ pc' = [pc EXCEPT ![self] = "O9"]
            /\ UNCHANGED << Fixed, idx, bad, consumed, cur, la, ret, err, 
                            result, done, stack, tk_, tk, ans, items, key, op_, 
                            min, lhs, isnot, op, rbp, a >>

O9(self) == /\ pc[self] = "O9"
            /\ IF IsInfix(optok[self]) /\ rbp[self] < LBP(optok[self])
                  THEN /\ /\ lhs' = [lhs EXCEPT ![self] = ret]
                          /\ min' = [min EXCEPT ![self] = rbp[self]]
                          /\ stack' = [stack EXCEPT ![self] = << [ procedure |->  "parse_op",
                                                                   pc        |->  "O10",
                                                                   isnot     |->  isnot[self],
                                                                   op        |->  op[self],
                                                                   rbp       |->  rbp[self],
                                                                   a         |->  a[self],
                                                                   optok     |->  optok[self],
                                                                   min       |->  min[self],
                                                                   lhs       |->  lhs[self] ] >>
                                                               \o stack[self]]
                       /\ isnot' = [isnot EXCEPT ![self] = FALSE]
                       /\ op' = [op EXCEPT ![self] = "none"]
                       /\ rbp' = [rbp EXCEPT ![self] = -1]
                       /\ a' = [a EXCEPT ![self] = <<>>]
                       /\ optok' = [optok EXCEPT ![self] = "none"]
                       /\ pc' = [pc EXCEPT ![self] = "O0"]
                  ELSE /\ pc' = [pc EXCEPT ![self] = "O10"]
                       /\ UNCHANGED << stack, min, lhs, isnot, op, rbp, a, 
                                       optok >>
            /\ UNCHANGED << Fixed, idx, bad, consumed, cur, la, ret, err, 
                            result, done, tk_, tk, ans, items, key, op_ >>

O10(self) == /\ pc[self] = "O10"
             /\ IF err
                   THEN /\ pc' = [pc EXCEPT ![self] = Head(stack[self]).pc]
                        /\ isnot' = [isnot EXCEPT ![self] = Head(stack[self]).isnot]
                        /\ op' = [op EXCEPT ![self] = Head(stack[self]).op]
                        /\ rbp' = [rbp EXCEPT ![self] = Head(stack[self]).rbp]
                        /\ a' = [a EXCEPT ![self] = Head(stack[self]).a]
                        /\ optok' = [optok EXCEPT ![self] = Head(stack[self]).optok]
                        /\ min' = [min EXCEPT ![self] = Head(stack[self]).min]
                        /\ lhs' = [lhs EXCEPT ![self] = Head(stack[self]).lhs]
                        /\ stack' = [stack EXCEPT ![self] = Tail(stack[self])]
                   ELSE /\ pc' = [pc EXCEPT ![self] = "O11"]
                        /\ UNCHANGED << stack, min, lhs, isnot, op, rbp, a, 
                                        optok >>
             /\ UNCHANGED << Fixed, idx, bad, consumed, cur, la, ret, err, 
                             result, done, tk_, tk, ans, items, key, op_ >>

O11(self) == /\ pc[self] = "O11"
             /\ lhs' = [lhs EXCEPT ![self] = IF isnot[self] THEN <<"un", "not", <<"bin", op[self], lhs[self], ret>>>> ELSE <<"bin", op[self], lhs[self], ret>>]
             /\ pc' = [pc EXCEPT ![self] = "O0"]
             /\ UNCHANGED << Fixed, idx, bad, consumed, cur, la, ret, err, 
                             result, done, stack, tk_, tk, ans, items, key, 
                             op_, min, isnot, op, rbp, a, optok >>

parse_op(self) == O0(self) \/ O1(self) \/ Q0(self) \/ Q1(self) \/ Q2(self)
                     \/ Q3(self) \/ Q4(self) \/ O2(self) \/ N1(self)
                     \/ N2(self) \/ O3(self) \/ O4(self) \/ O5(self)
                     \/ O6(self) \/ O7(self) \/ O8(self) \/ G1(self)
                     \/ O9(self) \/ O10(self) \/ O11(self)

D0 == /\ pc[1] = "D0"
      /\ IF idx <= Len(Recs) /\ bad = 0
            THEN /\ Fixed' = Recs[idx].toks
                 /\ consumed' = <<>>
                 /\ la' = <<>>
                 /\ err' = FALSE
                 /\ done' = FALSE
                 /\ result' = <<>>
                 /\ cur' = "none"
                 /\ ret' = <<>>
                 /\ stack' = [stack EXCEPT ![1] = << [ procedure |->  "parse_stmt",
                                                       pc        |->  "D1",
                                                       ans       |->  ans[1] ] >>
                                                   \o stack[1]]
                 /\ ans' = [ans EXCEPT ![1] = <<>>]
                 /\ pc' = [pc EXCEPT ![1] = "S0"]
            ELSE /\ pc' = [pc EXCEPT ![1] = "Fin"]
                 /\ UNCHANGED << Fixed, consumed, cur, la, ret, err, result, 
                                 done, stack, ans >>
      /\ UNCHANGED << idx, bad, tk_, tk, items, key, op_, min, lhs, isnot, op, 
                      rbp, a, optok >>

D1 == /\ pc[1] = "D1"
      /\ IF (~err) # Recs[idx].ok \/ (~err /\ result # Recs[idx].ast)
            THEN /\ bad' = idx
                 /\ idx' = idx
            ELSE /\ idx' = idx + 1
                 /\ bad' = bad
      /\ pc' = [pc EXCEPT ![1] = "D0"]
      /\ UNCHANGED << Fixed, consumed, cur, la, ret, err, result, done, stack, 
                      tk_, tk, ans, items, key, op_, min, lhs, isnot, op, rbp, 
                      a, optok >>

Fin == /\ pc[1] = "Fin"
       /\ TRUE
       /\ pc' = [pc EXCEPT ![1] = "Done"]
       /\ UNCHANGED << Fixed, idx, bad, consumed, cur, la, ret, err, result, 
                       done, stack, tk_, tk, ans, items, key, op_, min, lhs, 
                       isnot, op, rbp, a, optok >>

main == D0 \/ D1 \/ Fin

(* Allow infinite stuttering to prevent deadlock on termination. *)
Terminating == /\ \A self \in ProcSet: pc[self] = "Done"
               /\ UNCHANGED vars

Next == main
           \/ (\E self \in ProcSet:  \/ advance(self) \/ peek(self)
                                     \/ parse_stmt(self) \/ parse_expression(self)
                                     \/ parse_primary(self) \/ parse_token(self)
                                     \/ parse_op(self))
           \/ Terminating

Spec == Init /\ [][Next]_vars

Termination == <>(\A self \in ProcSet: pc[self] = "Done")

\* END TRANSLATION 


====
