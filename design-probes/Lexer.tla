---- MODULE Lexer ----
EXTENDS Integers, Sequences, FiniteSets, TLC
CONSTANTS MaxLen, Alphabet, SliceMode     \* SliceMode \in {"char", "byte+1"}
\* characters are 1-char strings or symbolic names for multi-byte characters
Width(c) == IF c = "U2" THEN 2 ELSE IF c = "U3" THEN 3 ELSE IF c = "U4" THEN 4 ELSE 1
IsWs(c) == c \in {" "}
IsDelim(c) == c \in {"(", ")", "[", "]", "{", "}"}
IsSpecial(c) == c \in {"+", "-", "*", "/", "^", "%", "&", "!", "=", "?", ":", ">", "<", "|"}
IsDigit(c) == c \in {"0", "1"}
IsNumChar(c) == IsDigit(c) \/ c \in {".", "-", "e", "E", "+"}
IsQuote(c) == c \in {"'", "dq"}
IsParam(c) == IsDigit(c) \/ c \in {"a", "i", "n", "o", "t", "e", "E", ".", "_"}
SymOps == { <<"+">>, <<"+","+">>, <<"+","=">>, <<"-">>, <<"-","-">>, <<"-","=">>, <<"<">>, <<"<","<">>, <<"<","<","=">>, <<"<","=">>,
            <<"=">>, <<"=","=">>, <<"!">>, <<"!","=">>, <<"?">>, <<":">>, <<"&">>, <<"&","&">> }
WordOps == { <<"i","n">>, <<"n","o","t">> }
AllOps == SymOps \cup WordOps
Bools == { <<"t">> }       \* stand-in spelling for true/True/false/False in this probe

VARIABLES inp, eof, i, start, j, mode, out, st, steps, sliceBad
vars == <<inp, eof, i, start, j, mode, out, st, steps, sliceBad>>
Known(k) == k <= Len(inp) \/ eof
Ch(k) == IF k <= Len(inp) THEN inp[k] ELSE "EOF"
Off(k) == LET RECURSIVE S(_) S(m) == IF m = 0 THEN 0 ELSE Width(inp[m]) + S(m - 1) IN S(k)
Emit(k, lo, hi) == out' = Append(out, [k |-> k, lo |-> lo, hi |-> hi])

Init == /\ inp = <<>> /\ eof = FALSE /\ i = 1 /\ start = 0 /\ j = 0 /\ mode = "start" /\ out = <<>> /\ st = "run" /\ steps = 0 /\ sliceBad = FALSE
\* lazily extend the input when the machine needs a character it has not seen
Need == IF mode = "probe" THEN j ELSE IF mode = "look" THEN j ELSE i
Extend == /\ st = "run" /\ ~Known(Need)
          /\ \/ /\ Len(inp) < MaxLen /\ \E c \in Alphabet : inp' = Append(inp, c) /\ eof' = eof
             \/ /\ inp' = inp /\ eof' = TRUE
          /\ UNCHANGED <<i, start, j, mode, out, st, steps, sliceBad>>
Tick == steps' = steps + 1
Start == /\ st = "run" /\ mode = "start" /\ Known(i) /\ Tick
         /\ LET c == Ch(i) IN
            IF c = "EOF" THEN st' = "done" /\ UNCHANGED <<inp, eof, i, start, j, mode, out, sliceBad>>
            ELSE IF IsWs(c) THEN i' = i + 1 /\ UNCHANGED <<inp, eof, start, j, mode, out, st, sliceBad>>
            ELSE IF IsSpecial(c) THEN start' = i /\ i' = i + 1 /\ mode' = "sym" /\ UNCHANGED <<inp, eof, j, out, st, sliceBad>>
            ELSE IF IsDelim(c) \/ c = "," \/ c = ";" THEN
                 Emit(IF IsDelim(c) THEN "delim" ELSE IF c = "," THEN "comma" ELSE "semi", i, i) /\ i' = i + 1
                 /\ UNCHANGED <<inp, eof, start, j, mode, st, sliceBad>>
            ELSE IF IsDigit(c) THEN start' = i /\ i' = i + 1 /\ mode' = "num" /\ UNCHANGED <<inp, eof, j, out, st, sliceBad>>
            ELSE IF IsQuote(c) THEN start' = i /\ i' = i + 1 /\ mode' = "str" /\ UNCHANGED <<inp, eof, j, out, st, sliceBad>>
            ELSE start' = i /\ i' = i + 1 /\ j' = i + 1 /\ mode' = "probe" /\ UNCHANGED <<inp, eof, out, st, sliceBad>>
\* symbolic operator: extend while the text extended by the next character is a registered operator
Sym == /\ st = "run" /\ mode = "sym" /\ Known(i) /\ Tick
       /\ IF Ch(i) # "EOF" /\ SubSeq(inp, start, i) \in AllOps
          THEN i' = i + 1 /\ UNCHANGED <<out, mode>>
               /\ sliceBad' = (sliceBad \/ (SliceMode = "byte+1" /\ Width(Ch(i)) # 1))
          ELSE /\ Emit("op", start, i - 1) /\ mode' = "start" /\ i' = i
               \* the pinned code slices input[start..current()+1] to *test* the extension, whatever the outcome
               /\ sliceBad' = (sliceBad \/ (SliceMode = "byte+1" /\ Ch(i) # "EOF" /\ Width(Ch(i)) # 1))
       /\ UNCHANGED <<inp, eof, start, j, st>>
NumTextOk(lo, hi) == /\ \A k \in lo..hi : IsDigit(inp[k]) \/ inp[k] = "."
                     /\ Cardinality({k \in lo..hi : inp[k] = "."}) <= 1
Num == /\ st = "run" /\ mode = "num" /\ Known(i) /\ Tick
       /\ LET c == Ch(i) IN
          IF c # "EOF" /\ ~(c \in {"+", "-"} /\ inp[i-1] \notin {"e", "E"}) /\ IsNumChar(c)
          THEN i' = i + 1 /\ UNCHANGED <<out, mode, st>>
          ELSE IF NumTextOk(start, i - 1) THEN Emit("num", start, i - 1) /\ mode' = "start" /\ i' = i /\ st' = st
               ELSE st' = "err" /\ UNCHANGED <<out, mode, i>>
       /\ UNCHANGED <<inp, eof, start, j, sliceBad>>
Str == /\ st = "run" /\ mode = "str" /\ Known(i) /\ Tick
       /\ IF Ch(i) = "EOF" THEN st' = "err" /\ UNCHANGED <<out, mode, i>>
          ELSE IF Ch(i) = inp[start] THEN Emit("str", start, i) /\ mode' = "start" /\ i' = i + 1 /\ st' = st
          ELSE i' = i + 1 /\ UNCHANGED <<out, mode, st>>
       /\ UNCHANGED <<inp, eof, start, j, sliceBad>>
\* word probe: scan to whitespace / delimiter / EOF, is the whole run an operator?
Probe == /\ st = "run" /\ mode = "probe" /\ Known(j) /\ Tick
         /\ IF Ch(j) # "EOF" /\ ~IsWs(Ch(j)) /\ ~IsDelim(Ch(j)) THEN j' = j + 1 /\ UNCHANGED <<out, mode, i>>
            ELSE IF SubSeq(inp, start, j - 1) \in AllOps THEN Emit("op", start, j - 1) /\ i' = j /\ mode' = "start" /\ j' = j
            ELSE mode' = "ident" /\ UNCHANGED <<out, i, j>>
         /\ UNCHANGED <<inp, eof, start, st, sliceBad>>
Ident == /\ st = "run" /\ mode = "ident" /\ Known(i) /\ Tick
         /\ IF Ch(i) # "EOF" /\ IsParam(Ch(i)) THEN i' = i + 1 /\ UNCHANGED <<out, mode, j>>
            ELSE IF SubSeq(inp, start, i - 1) \in Bools THEN Emit("bool", start, i - 1) /\ mode' = "start" /\ UNCHANGED <<i, j>>
            ELSE mode' = "look" /\ j' = i /\ UNCHANGED <<out, i>>
         /\ UNCHANGED <<inp, eof, start, st, sliceBad>>
Look == /\ st = "run" /\ mode = "look" /\ Known(j) /\ Tick
        /\ IF Ch(j) # "EOF" /\ IsWs(Ch(j)) THEN j' = j + 1 /\ UNCHANGED <<out, mode>>
           ELSE Emit(IF Ch(j) = "(" THEN "fun" ELSE "ref", start, i - 1) /\ mode' = "start" /\ j' = j
        /\ UNCHANGED <<inp, eof, i, start, st, sliceBad>>
Done == st \in {"done", "err"} /\ UNCHANGED vars
Next == Extend \/ Start \/ Sym \/ Num \/ Str \/ Probe \/ Ident \/ Look \/ Done
Spec == Init /\ [][Next]_vars

\* ---- properties
Tiling == \A k \in 1..Len(out) :
            /\ 1 <= out[k].lo /\ out[k].lo <= out[k].hi /\ out[k].hi <= Len(inp)
            /\ (k > 1 => out[k-1].hi < out[k].lo)
            /\ \A m \in (IF k = 1 THEN 1 ELSE out[k-1].hi + 1) .. (out[k].lo - 1) : IsWs(inp[m])
TailIsWs == st = "done" => \A m \in (IF out = <<>> THEN 1 ELSE out[Len(out)].hi + 1) .. Len(inp) : IsWs(inp[m])
StrPayload == \A k \in 1..Len(out) : out[k].k = "str" =>
                /\ IsQuote(inp[out[k].lo]) /\ inp[out[k].hi] = inp[out[k].lo] /\ out[k].hi > out[k].lo
                /\ \A m \in out[k].lo + 1 .. out[k].hi - 1 : inp[m] # inp[out[k].lo]
MaximalMunch == \A k \in 1..Len(out) : (out[k].k = "op" /\ IsSpecial(inp[out[k].lo])) =>
                /\ \A m \in out[k].lo + 1 .. out[k].hi : SubSeq(inp, out[k].lo, m) \in AllOps
                /\ (out[k].hi < Len(inp) /\ (k < Len(out) \/ st = "done")) => SubSeq(inp, out[k].lo, out[k].hi + 1) \notin AllOps
WordRunEnd(lo) == LET S == {m \in lo..Len(inp) : \A q \in lo..m : ~IsWs(inp[q]) /\ ~IsDelim(inp[q])} IN IF S = {} THEN lo - 1 ELSE CHOOSE m \in S : \A q \in S : q <= m
WholeWord == \A k \in 1..Len(out) : (k < Len(out) \/ st = "done") /\ out[k].k \in {"op", "ref", "fun", "bool"} /\ ~IsSpecial(inp[out[k].lo]) =>
                ((out[k].k = "op") <=> (SubSeq(inp, out[k].lo, WordRunEnd(out[k].lo)) \in AllOps /\ out[k].hi = WordRunEnd(out[k].lo)))
OnBoundary == ~sliceBad
StepBudget == steps <= (Len(inp) + 2) * (Len(inp) + 2) + 4
====
