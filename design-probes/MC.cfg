SPECIFICATION Spec
CONSTANTS MaxLen = 4
 Alphabet <- Ops13
 Fixed <- NoFixed
 defaultInitValue = defaultInitValue
CHECK_DEADLOCK FALSE
INVARIANT Agree Emit
