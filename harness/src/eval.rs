//! Evaluator families (C03, C04, C06, C07, C09, C14, C15): operator tables, programs with logging handlers.
use crate::astjson::leak;
use crate::util::*;
use crate::valjson::*;
use expression_engine::{parse_expression, Context, ExprAST, Value};
use rand::Rng;
use serde_json::{json, Value as J};

/// A literal AST for a value that can be written as a literal (non-negative number, bool, string without both quotes).
fn literal_ast(v: &Value) -> Option<ExprAST<'static>> {
    let text = match v {
        Value::Number(d) if !d.is_sign_negative() => d.to_string(),
        Value::Bool(b) => b.to_string(),
        Value::String(s) if !s.contains('\'') => format!("'{}'", s),
        Value::String(s) if !s.contains('"') => format!("\"{}\"", s),
        _ => return None,
    };
    match parse_expression(leak(&text)) {
        Ok(a @ ExprAST::Literal(_)) => Some(a),
        _ => None,
    }
}

pub fn result_json(r: Result<expression_engine::Result<Value>, String>) -> J {
    match r {
        Err(msg) => json!(["panic", msg]),
        Ok(Err(_)) => json!(["err"]),
        Ok(Ok(v)) => json!(["ok", value_to_json(&v)]),
    }
}

/// One application of a built-in: returns (actual outcome, final value of a0 for setters).
fn apply_case(kind: &str, op: &str, args: &[Value], literals: bool) -> (J, Option<J>) {
    let mut ctx = Context::new();
    let names = ["a0", "a1", "a2"];
    let mut operands: Vec<ExprAST<'static>> = Vec::new();
    for (i, v) in args.iter().enumerate() {
        ctx.set_variable(names[i], v.clone());
        let lit = if literals && !(kind == "bin" && i == 0 && is_setter(op)) { literal_ast(v) } else { None };
        operands.push(lit.unwrap_or(ExprAST::Reference(names[i])));
    }
    let op_s = leak(op);
    let ast = match kind {
        "bin" => ExprAST::Binary(op_s, Box::new(operands[0].clone()), Box::new(operands[1].clone())),
        "un" => ExprAST::Unary(op_s, Box::new(operands[0].clone())),
        "post" => ExprAST::Postfix(Box::new(operands[0].clone()), op.to_string()),
        "fn" => ExprAST::Function(op_s, operands.clone()),
        _ => tool_error("bad kind"),
    };
    let res = guarded(std::panic::AssertUnwindSafe(move || ast.exec(&mut ctx)));
    (result_json(res), None)
}

pub fn is_setter(op: &str) -> bool {
    matches!(op, "=" | "+=" | "-=" | "*=" | "/=" | "%=" | "<<=" | ">>=" | "&=" | "^=" | "|=")
}

/// Replay the exhaustive operator tables: each line {kind, op, args, out}.
pub fn builtins_replay(args: &[String]) {
    silence_panics();
    expression_engine::verif_hooks::init();
    let recs = read_ndjson(&args[0]);
    let mut out = Out::new(None);
    let mut trace = Out::new(arg_value(args, "--trace-out").as_deref());
    let (mut n, mut bad, mut dc, mut errs) = (0u64, 0u64, 0u64, 0u64);
    for (idx, r) in recs.iter().enumerate() {
        let kind = r["kind"].as_str().unwrap();
        let op = r["op"].as_str().unwrap();
        let vals: Option<Vec<Value>> = r["args"].as_array().unwrap().iter().map(json_to_value).collect();
        let vals = match vals {
            Some(v) => v,
            None => continue,
        };
        let expected = &r["out"];
        if expected[0] == "dc" {
            dc += 1;
        }
        if expected[0] == "err" {
            errs += 1;
        }
        for literals in [false, true] {
            n += 1;
            let (mut actual, _) = apply_case(kind, op, &vals, literals);
            let mut why: Option<String> = None;
            if actual[0] == "panic" {
                why = Some(format!("panic: {}", actual[1]));
            } else if kind == "bin" && is_setter(op) {
                // x op= e: the result is None and x is bound to what the handler returned; on failure x keeps its value
                let mut ctx = Context::new();
                ctx.set_variable("a0", vals[0].clone());
                ctx.set_variable("a1", vals[1].clone());
                let ast = ExprAST::Binary(leak(op), Box::new(ExprAST::Reference("a0")), Box::new(ExprAST::Reference("a1")));
                let res = guarded(std::panic::AssertUnwindSafe(|| ast.exec(&mut ctx)));
                let bound = ctx.get_variable("a0").map(|v| value_to_json(&v));
                match res {
                    Err(m) => why = Some(format!("panic: {}", m)),
                    Ok(Ok(v)) => {
                        if v != Value::None {
                            why = Some("an assignment yielded a value other than None".into());
                        }
                        actual = json!(["ok", bound.clone().unwrap_or(json!(["unbound"]))]);
                    }
                    Ok(Err(_)) => {
                        actual = json!(["err"]);
                        if bound != Some(value_to_json(&vals[0])) {
                            why = Some("a failing assignment changed its target".into());
                        }
                    }
                }
                if why.is_none() && !allowed(expected, &actual) {
                    why = Some("target bound to a different value than `x op e`".into());
                }
            } else if !allowed(expected, &actual) {
                why = Some("outcome differs".into());
            }
            if let Some(w) = why {
                bad += 1;
                out.line(&json!({"mismatch": idx, "why": w, "kind": kind, "op": op, "args": r["args"], "expected": expected, "actual": actual, "literals": literals}));
            }
            if expected[0] == "div" && !literals {
                trace.line(&json!({"kind": kind, "op": op, "args": r["args"], "actual": actual}));
            }
        }
    }
    trace.flush();
    out.line(&json!({"summary": {"applications": n, "mismatches": bad, "dontcare": dc, "expected_err": errs}}));
    out.flush();
}

// ---- leg T: wide-domain random operands --------------------------------------------------------------

fn random_decimal(rng: &mut impl Rng) -> rust_decimal::Decimal {
    use rust_decimal::Decimal;
    const MAXM: u128 = 79228162514264337593543950335;
    let m: u128 = match rng.gen_range(0..12) {
        0 => 0,
        1 => rng.gen_range(0..100),
        2 => rng.gen_range(0..1_000_000),
        3 => MAXM - rng.gen_range(0..1000),
        4 => MAXM / rng.gen_range(1..1000),
        5 => 1u128 << rng.gen_range(0..96),
        6 => (1u128 << rng.gen_range(1..96)) - 1,
        7 => 10u128.pow(rng.gen_range(0..29)),
        8 => (i64::MAX as u128).wrapping_add(rng.gen_range(0..3)) - 1,
        9 => rng.gen_range(0..MAXM) >> rng.gen_range(0..90),
        _ => rng.gen_range(0..=MAXM),
    };
    let scale = match rng.gen_range(0..6) {
        0 | 1 => 0,
        2 => rng.gen_range(0..4),
        3 => 28,
        4 => 27,
        _ => rng.gen_range(0..29),
    };
    let signed = if rng.gen_bool(0.3) { -(m as i128) } else { m as i128 };
    Decimal::from_i128_with_scale(signed, scale)
}

fn random_value(rng: &mut impl Rng, depth: u32) -> Value {
    match rng.gen_range(0..20) {
        0..=11 => Value::Number(random_decimal(rng)),
        12 => Value::Bool(rng.gen_bool(0.5)),
        13..=14 => Value::String(["", "a", "ab", "é", "aé€", "b😀", "abc"][rng.gen_range(0..7)].to_string()),
        15..=16 if depth > 0 => Value::List((0..rng.gen_range(0..4)).map(|_| random_value(rng, depth - 1)).collect()),
        17 if depth > 0 => Value::Map((0..rng.gen_range(0..3)).map(|_| (random_value(rng, depth - 1), random_value(rng, depth - 1))).collect()),
        18 => Value::None,
        _ => Value::Number(rust_decimal::Decimal::from(rng.gen_range(-70i64..70))),
    }
}

const NUMERIC: &[&str] = &["+", "-", "*", "%", "<", "<=", ">", ">=", "==", "!=", "+=", "-=", "*=", "%="];
const INFIX: &[&str] = &["+", "-", "*", "/", "%", "<", "<=", ">", ">=", "==", "!=", "&", "|", "^", "<<", ">>", "+=", "-=", "*=", "/=", "%=", "<<=", ">>=", "&=", "^=", "|=", "&&", "||", "in", "beginWith", "endWith", "="];

/// Record random applications over the wide domain: {kind, op, args, actual}
pub fn builtins_record(args: &[String]) {
    silence_panics();
    expression_engine::verif_hooks::init();
    let seed = arg_u64(args, "--seed", 1);
    let n = arg_u64(args, "--n", 1000);
    let mut out = Out::new(arg_value(args, "--out").as_deref());
    let mut rng = rng(seed, 50);
    let numeric_only = args.iter().any(|a| a == "--numeric");
    for _ in 0..n {
        let (kind, op, vals): (&str, &str, Vec<Value>) = match if numeric_only { 0 } else { rng.gen_range(0..20) } {
            0..=13 => {
                let op = if numeric_only { NUMERIC[rng.gen_range(0..NUMERIC.len())] } else { INFIX[rng.gen_range(0..INFIX.len())] };
                let numeric = !matches!(op, "==" | "!=" | "&&" | "||" | "in" | "beginWith" | "endWith" | "=");
                let a = if numeric_only || numeric && rng.gen_bool(0.85) { Value::Number(random_decimal(&mut rng)) } else { random_value(&mut rng, 2) };
                let b = if rng.gen_bool(0.15) { a.clone() } else if numeric_only || numeric && rng.gen_bool(0.85) { Value::Number(random_decimal(&mut rng)) } else { random_value(&mut rng, 2) };
                // bit operators want integers most of the time
                let intop = matches!(op, "&" | "|" | "^" | "<<" | ">>" | "&=" | "|=" | "^=" | "<<=" | ">>=");
                let a = if intop && rng.gen_bool(0.7) { Value::Number(rust_decimal::Decimal::from(rng.gen::<i64>() >> rng.gen_range(0..63))) } else { a };
                let b = if intop && rng.gen_bool(0.7) { Value::Number(rust_decimal::Decimal::from(rng.gen::<i64>() >> rng.gen_range(0..63))) } else { b };
                let b = if op == "in" && rng.gen_bool(0.7) { Value::List(vec![random_value(&mut rng, 1), a.clone(), random_value(&mut rng, 1)]) } else { b };
                let b = if matches!(op, "<<" | ">>" | "<<=" | ">>=") && rng.gen_bool(0.7) { Value::Number(rust_decimal::Decimal::from(rng.gen_range(-2i64..70))) } else { b };
                ("bin", op, vec![a, b])
            }
            14..=15 => ("un", ["-", "+", "!", "not", "AND", "OR"][rng.gen_range(0..6)], vec![random_value(&mut rng, 2)]),
            16 => ("post", ["++", "--"][rng.gen_range(0..2)], vec![random_value(&mut rng, 1)]),
            _ => {
                let k = rng.gen_range(0..4);
                ("fn", ["min", "max", "sum", "mul"][rng.gen_range(0..4)], (0..k).map(|_| random_value(&mut rng, 0)).collect())
            }
        };
        let vals: Vec<Value> = vals.into_iter().take(3).collect();
        let (mut actual, _) = apply_case(kind, op, &vals, false);
        if kind == "bin" && is_setter(op) && actual[0] == "ok" {
            // for a setter the observable is the new binding of the target
            let mut ctx = Context::new();
            ctx.set_variable("a0", vals[0].clone());
            ctx.set_variable("a1", vals[1].clone());
            let ast = ExprAST::Binary(leak(op), Box::new(ExprAST::Reference("a0")), Box::new(ExprAST::Reference("a1")));
            let _ = guarded(std::panic::AssertUnwindSafe(|| ast.exec(&mut ctx)));
            actual = json!(["ok", ctx.get_variable("a0").map(|v| value_to_json(&v)).unwrap_or(json!(["none"]))]);
        }
        out.line(&json!({"kind": kind, "op": op, "args": vals.iter().map(value_to_json).collect::<Vec<_>>(), "actual": actual}));
    }
    out.flush();
}

/// C09 leg T: number literals.  {chars (code points of the literal text), actual}
pub fn literal_record(args: &[String]) {
    silence_panics();
    let seed = arg_u64(args, "--seed", 1);
    let n = arg_u64(args, "--n", 1000);
    let mut out = Out::new(arg_value(args, "--out").as_deref());
    let mut rng = rng(seed, 60);
    let fixed = ["0.1", "0.2", "0.3", "1.10", "1.0", "1.00", "1.", "0", "00", "007", "007.50", "1.2.3", "1e5", "1e+5", "1E-2", "1..2", "12e", "3.e1", "1.5.",
                 "79228162514264337593543950335", "7922816251426433759354395033.5", "0.0000000000000000000000000001", "9999999999999999999999999999",
                 "1234567890.123456789012345678", "0.10", "100", "1e", "2E", "1-2", "5.50"];
    for k in 0..n {
        let text: String = if (k as usize) < fixed.len() {
            fixed[k as usize].to_string()
        } else {
            let digits = rng.gen_range(1..29);
            let mut s: String = (0..digits).map(|_| (b'0' + rng.gen_range(0..10)) as char).collect();
            if rng.gen_bool(0.7) {
                let p = rng.gen_range(1..=digits);
                s.insert(p, '.');
            }
            match rng.gen_range(0..25) {
                0 => s.push_str(".5"),
                1 => s.push('e'),
                2 => s.push_str("e+3"),
                3 => s.insert(rng.gen_range(1..s.len()), '.'),
                4 => s.push_str("E-1"),
                _ => {}
            }
            s
        };
        // the literal alone; `1-2` style texts are cut where the tokenizer's number scan stops, by taking the whole
        // program's result only when the text has number characters only
        if !text.chars().all(|c| c.is_ascii_digit() || c == '.' || c == 'e' || c == 'E') {
            continue;
        }
        let t2 = text.clone();
        let res = guarded(move || expression_engine::execute(leak(&t2), Context::new()));
        out.line(&json!({"chars": string_to_cps(&text), "actual": result_json(res)}));
    }
    out.flush();
}

pub fn exec_one(args: &[String]) {
    silence_panics();
    let t = args[0].clone();
    let res = guarded(move || expression_engine::execute(leak(&t), Context::new()));
    println!("{}", result_json(res));
}
