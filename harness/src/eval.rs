//! Evaluator families (C03, C04, C06, C07, C09, C14, C15): operator tables, programs with logging handlers.
use crate::astjson::leak;
use crate::util::*;
use crate::valjson::*;
use expression_engine::{parse_expression, Context, ExprAST, Value};
use rand::Rng;
use serde_json::{json, Value as J};

/// A literal AST for a value that can be written as a literal (non-negative number, bool, string without both quotes).
fn literal_ast(v: &Value) -> Option<ExprAST<'static>> {
    let text = match v {
        Value::Number(d) if !d.is_sign_negative() => d.to_string(),
        Value::Bool(b) => b.to_string(),
        Value::String(s) if !s.contains('\'') => format!("'{}'", s),
        Value::String(s) if !s.contains('"') => format!("\"{}\"", s),
        _ => return None,
    };
    match parse_expression(leak(&text)) {
        Ok(a @ ExprAST::Literal(_)) => Some(a),
        _ => None,
    }
}

pub fn result_json(r: Result<expression_engine::Result<Value>, String>) -> J {
    match r {
        Err(msg) => json!(["panic", msg]),
        Ok(Err(_)) => json!(["err"]),
        Ok(Ok(v)) => json!(["ok", value_to_json(&v)]),
    }
}

/// One application of a built-in: returns (actual outcome, final value of a0 for setters).
fn apply_case(kind: &str, op: &str, args: &[Value], literals: bool) -> (J, Option<J>) {
    let mut ctx = Context::new();
    let names = ["a0", "a1", "a2"];
    let mut operands: Vec<ExprAST<'static>> = Vec::new();
    for (i, v) in args.iter().enumerate() {
        ctx.set_variable(names[i], v.clone());
        let lit = if literals && !(kind == "bin" && i == 0 && is_setter(op)) { literal_ast(v) } else { None };
        operands.push(lit.unwrap_or(ExprAST::Reference(names[i])));
    }
    let op_s = leak(op);
    let ast = match kind {
        "bin" => ExprAST::Binary(op_s, Box::new(operands[0].clone()), Box::new(operands[1].clone())),
        "un" => ExprAST::Unary(op_s, Box::new(operands[0].clone())),
        "post" => ExprAST::Postfix(Box::new(operands[0].clone()), op.to_string()),
        "fn" => ExprAST::Function(op_s, operands.clone()),
        _ => tool_error("bad kind"),
    };
    let res = guarded(std::panic::AssertUnwindSafe(move || ast.exec(&mut ctx)));
    (result_json(res), None)
}

pub fn is_setter(op: &str) -> bool {
    matches!(op, "=" | "+=" | "-=" | "*=" | "/=" | "%=" | "<<=" | ">>=" | "&=" | "^=" | "|=")
}

/// Replay the exhaustive operator tables: each line {kind, op, args, out}.
pub fn builtins_replay(args: &[String]) {
    silence_panics();
    expression_engine::verif_hooks::init();
    let recs = read_ndjson(&args[0]);
    let mut out = Out::new(None);
    let mut trace = Out::new(arg_value(args, "--trace-out").as_deref());
    let (mut n, mut bad, mut dc, mut errs) = (0u64, 0u64, 0u64, 0u64);
    for (idx, r) in recs.iter().enumerate() {
        let kind = r["kind"].as_str().unwrap();
        let op = r["op"].as_str().unwrap();
        let vals: Option<Vec<Value>> = r["args"].as_array().unwrap().iter().map(json_to_value).collect();
        let vals = match vals {
            Some(v) => v,
            None => continue,
        };
        let expected = &r["out"];
        if expected[0] == "dc" {
            dc += 1;
        }
        if expected[0] == "err" {
            errs += 1;
        }
        for literals in [false, true] {
            n += 1;
            let (mut actual, _) = apply_case(kind, op, &vals, literals);
            let mut why: Option<String> = None;
            if actual[0] == "panic" {
                why = Some(format!("panic: {}", actual[1]));
            } else if kind == "bin" && is_setter(op) {
                // x op= e: the result is None and x is bound to what the handler returned; on failure x keeps its value
                let mut ctx = Context::new();
                ctx.set_variable("a0", vals[0].clone());
                ctx.set_variable("a1", vals[1].clone());
                let ast = ExprAST::Binary(leak(op), Box::new(ExprAST::Reference("a0")), Box::new(ExprAST::Reference("a1")));
                let res = guarded(std::panic::AssertUnwindSafe(|| ast.exec(&mut ctx)));
                let bound = ctx.get_variable("a0").map(|v| value_to_json(&v));
                match res {
                    Err(m) => why = Some(format!("panic: {}", m)),
                    Ok(Ok(v)) => {
                        if v != Value::None {
                            why = Some("an assignment yielded a value other than None".into());
                        }
                        actual = json!(["ok", bound.clone().unwrap_or(json!(["unbound"]))]);
                    }
                    Ok(Err(_)) => {
                        actual = json!(["err"]);
                        if bound != Some(value_to_json(&vals[0])) {
                            why = Some("a failing assignment changed its target".into());
                        }
                    }
                }
                if why.is_none() && !allowed(expected, &actual) {
                    why = Some("target bound to a different value than `x op e`".into());
                }
            } else if !allowed(expected, &actual) {
                why = Some("outcome differs".into());
            }
            if let Some(w) = why {
                bad += 1;
                out.line(&json!({"mismatch": idx, "why": w, "kind": kind, "op": op, "args": r["args"], "expected": expected, "actual": actual, "literals": literals}));
            }
            if expected[0] == "div" && !literals {
                trace.line(&json!({"kind": kind, "op": op, "args": r["args"], "actual": actual}));
            }
        }
    }
    trace.flush();
    out.line(&json!({"summary": {"applications": n, "mismatches": bad, "dontcare": dc, "expected_err": errs}}));
    out.flush();
}

// ---- leg T: wide-domain random operands --------------------------------------------------------------

fn random_decimal(rng: &mut impl Rng) -> rust_decimal::Decimal {
    use rust_decimal::Decimal;
    const MAXM: u128 = 79228162514264337593543950335;
    let m: u128 = match rng.gen_range(0..12) {
        0 => 0,
        1 => rng.gen_range(0..100),
        2 => rng.gen_range(0..1_000_000),
        3 => MAXM - rng.gen_range(0..1000),
        4 => MAXM / rng.gen_range(1..1000),
        5 => 1u128 << rng.gen_range(0..96),
        6 => (1u128 << rng.gen_range(1..96)) - 1,
        7 => 10u128.pow(rng.gen_range(0..29)),
        8 => (i64::MAX as u128).wrapping_add(rng.gen_range(0..3)) - 1,
        9 => rng.gen_range(0..MAXM) >> rng.gen_range(0..90),
        _ => rng.gen_range(0..=MAXM),
    };
    let scale = match rng.gen_range(0..6) {
        0 | 1 => 0,
        2 => rng.gen_range(0..4),
        3 => 28,
        4 => 27,
        _ => rng.gen_range(0..29),
    };
    let signed = if rng.gen_bool(0.3) { -(m as i128) } else { m as i128 };
    Decimal::from_i128_with_scale(signed, scale)
}

fn random_value(rng: &mut impl Rng, depth: u32) -> Value {
    match rng.gen_range(0..20) {
        0..=11 => Value::Number(random_decimal(rng)),
        12 => Value::Bool(rng.gen_bool(0.5)),
        13..=14 => Value::String(["", "a", "ab", "é", "aé€", "b😀", "abc"][rng.gen_range(0..7)].to_string()),
        15..=16 if depth > 0 => Value::List((0..rng.gen_range(0..4)).map(|_| random_value(rng, depth - 1)).collect()),
        17 if depth > 0 => Value::Map((0..rng.gen_range(0..3)).map(|_| (random_value(rng, depth - 1), random_value(rng, depth - 1))).collect()),
        18 => Value::None,
        _ => Value::Number(rust_decimal::Decimal::from(rng.gen_range(-70i64..70))),
    }
}

const NUMERIC: &[&str] = &["+", "-", "*", "%", "<", "<=", ">", ">=", "==", "!=", "+=", "-=", "*=", "%="];
const INFIX: &[&str] = &["+", "-", "*", "/", "%", "<", "<=", ">", ">=", "==", "!=", "&", "|", "^", "<<", ">>", "+=", "-=", "*=", "/=", "%=", "<<=", ">>=", "&=", "^=", "|=", "&&", "||", "in", "beginWith", "endWith", "="];

/// Record random applications over the wide domain: {kind, op, args, actual}
pub fn builtins_record(args: &[String]) {
    silence_panics();
    expression_engine::verif_hooks::init();
    let seed = arg_u64(args, "--seed", 1);
    let n = arg_u64(args, "--n", 1000);
    let mut out = Out::new(arg_value(args, "--out").as_deref());
    let mut rng = rng(seed, 50);
    let numeric_only = args.iter().any(|a| a == "--numeric");
    if numeric_only {
        // directed operand pairs: remainders whose alignment exceeds 96 bits, classic inexact-in-binary decimals
        let d = |t: &str| Value::Number(t.parse().unwrap());
        for (a, op, b) in [("9223372036854775807", "%", "0.9999999999999999999999999999"), ("79228162514264337593543950335", "%", "1.0000000000000000000000000001"),
                           ("9999999999999999999999999999", "%", "0.7"), ("8999999999999999999999999999", "%", "1.5"), ("100000000000000000000", "%", "0.000000003"),
                           ("0.1", "+", "0.2"), ("1.10", "*", "1.10"), ("9", ">", "0.9999999999999999999999999999"), ("80", ">", "0.8765432109876543210987654321"),
                           ("-9", "<", "-0.9999999999999999999999999999"), ("1", "==", "1.0000000000000000000000000000"), ("7922816251426433759354395033.5", "-", "0.5"),
                           // exact results that only fit at a smaller scale than the operands'
                           ("4000000000000000000000000000.0", "+", "4000000000000000000000000000.0"), ("-4000000000000000000000000000.0", "-", "4000000000000000000000000000.0"),
                           ("7922816251426433759354395033.5", "+", "0.5"), ("0.00", "==", "0.0"), ("0.000", "!=", "0")] {
            let vals = vec![d(a), d(b)];
            let (actual, _) = apply_case("bin", op, &vals, false);
            out.line(&json!({"kind": "bin", "op": op, "args": vals.iter().map(value_to_json).collect::<Vec<_>>(), "actual": actual}));
        }
        // near ties: numbers that differ only beyond the 16 digits a binary double carries, under every ordering and equality operator
        for (a, b) in [("0.1", "0.1000000000000000000000000001"), ("9999999999999999999999999999", "9999999999999999999999999998"), ("1", "1.00000000000000000001"),
                       ("9007199254740993", "9007199254740992"), ("79228162514264337593543950335", "79228162514264337593543950334"), ("0.3", "0.30000000000000000001"),
                       ("-0.1", "-0.1000000000000000000000000001"), ("1234567890123456.7890123456", "1234567890123456.7890123457")] {
            for op in ["<", "<=", ">", ">=", "==", "!="] {
                for vals in [vec![d(a), d(b)], vec![d(b), d(a)]] {
                    let (actual, _) = apply_case("bin", op, &vals, false);
                    out.line(&json!({"kind": "bin", "op": op, "args": vals.iter().map(value_to_json).collect::<Vec<_>>(), "actual": actual}));
                }
            }
        }
    }
    for _ in 0..n {
        let (kind, op, vals): (&str, &str, Vec<Value>) = match if numeric_only { 0 } else { rng.gen_range(0..20) } {
            0..=13 => {
                let op = if numeric_only { NUMERIC[rng.gen_range(0..NUMERIC.len())] } else { INFIX[rng.gen_range(0..INFIX.len())] };
                let numeric = !matches!(op, "==" | "!=" | "&&" | "||" | "in" | "beginWith" | "endWith" | "=");
                let a = if numeric_only || numeric && rng.gen_bool(0.85) { Value::Number(random_decimal(&mut rng)) } else { random_value(&mut rng, 2) };
                // one pair in ten is a near tie: the second operand is the first plus or minus one unit in its last place
                let tie = match &a {
                    Value::Number(x) if rng.gen_bool(0.1) => {
                        let ulp = rust_decimal::Decimal::new(if rng.gen_bool(0.5) { 1 } else { -1 }, x.scale());
                        x.checked_add(ulp).map(Value::Number)
                    }
                    _ => None,
                };
                let b = if let Some(t) = tie { t } else if rng.gen_bool(0.15) { a.clone() } else if numeric_only || numeric && rng.gen_bool(0.85) { Value::Number(random_decimal(&mut rng)) } else { random_value(&mut rng, 2) };
                // bit operators want integers most of the time
                let intop = matches!(op, "&" | "|" | "^" | "<<" | ">>" | "&=" | "|=" | "^=" | "<<=" | ">>=");
                let a = if intop && rng.gen_bool(0.7) { Value::Number(rust_decimal::Decimal::from(rng.gen::<i64>() >> rng.gen_range(0..63))) } else { a };
                let b = if intop && rng.gen_bool(0.7) { Value::Number(rust_decimal::Decimal::from(rng.gen::<i64>() >> rng.gen_range(0..63))) } else { b };
                let b = if op == "in" && rng.gen_bool(0.7) { Value::List(vec![random_value(&mut rng, 1), a.clone(), random_value(&mut rng, 1)]) } else { b };
                let b = if matches!(op, "<<" | ">>" | "<<=" | ">>=") && rng.gen_bool(0.7) { Value::Number(rust_decimal::Decimal::from(rng.gen_range(-2i64..70))) } else { b };
                ("bin", op, vec![a, b])
            }
            14..=15 => ("un", ["-", "+", "!", "not", "AND", "OR"][rng.gen_range(0..6)], vec![random_value(&mut rng, 2)]),
            16 => ("post", ["++", "--"][rng.gen_range(0..2)], vec![random_value(&mut rng, 1)]),
            _ => {
                let k = rng.gen_range(0..4);
                ("fn", ["min", "max", "sum", "mul"][rng.gen_range(0..4)], (0..k).map(|_| random_value(&mut rng, 0)).collect())
            }
        };
        let vals: Vec<Value> = vals.into_iter().take(3).collect();
        let (mut actual, _) = apply_case(kind, op, &vals, false);
        if kind == "bin" && is_setter(op) && actual[0] == "ok" {
            // for a setter the observable is the new binding of the target
            let mut ctx = Context::new();
            ctx.set_variable("a0", vals[0].clone());
            ctx.set_variable("a1", vals[1].clone());
            let ast = ExprAST::Binary(leak(op), Box::new(ExprAST::Reference("a0")), Box::new(ExprAST::Reference("a1")));
            let _ = guarded(std::panic::AssertUnwindSafe(|| ast.exec(&mut ctx)));
            actual = json!(["ok", ctx.get_variable("a0").map(|v| value_to_json(&v)).unwrap_or(json!(["none"]))]);
        }
        out.line(&json!({"kind": kind, "op": op, "args": vals.iter().map(value_to_json).collect::<Vec<_>>(), "actual": actual}));
    }
    out.flush();
}

/// C09 leg T: number literals.  {chars (code points of the literal text), actual}
pub fn literal_record(args: &[String]) {
    silence_panics();
    let seed = arg_u64(args, "--seed", 1);
    let n = arg_u64(args, "--n", 1000);
    let mut out = Out::new(arg_value(args, "--out").as_deref());
    let mut rng = rng(seed, 60);
    let fixed = ["0.1", "0.2", "0.3", "1.10", "1.0", "1.00", "1.", "0", "00", "007", "007.50", "1.2.3", "1e5", "1e+5", "1E-2", "1..2", "12e", "3.e1", "1.5.",
                 "79228162514264337593543950335", "7922816251426433759354395033.5", "0.0000000000000000000000000001", "9999999999999999999999999999",
                 "1234567890.123456789012345678", "0.10", "100", "1e", "2E", "1-2", "5.50", "0.0000000000000000000000000001.5", "0.1234567890123456789012345678.5",
                 "0.1234567890123456789012345678..", "1234567890123456789012345678.5.6", "0.12345678901234567890123456789.25",
                 // full scale behind `0.`, leading zeros, 28 significant digits in every position of the point
                 "0.1234567890123456789012345678", "0.0000000000000000000000000010", "00.0000000000000000000000000001", "0000000000000000000000000000001", "000000000000000000000000000000.5",
                 "1.234567890123456789012345678", "12345678901234.56789012345678", "0.9999999999999999999999999999", "0.0000000000000000000000000000", "0001234567890123456789012345678",
                 "0.00000000000000000000000000001", "0.12345678901234567890123456789",
                 "9223372036854775807", "9223372036854775808", "9999999999999999999", "18446744073709551615", "18446744073709551616", "2147483648", "4294967296", "99999999999999999999"];
    for k in 0..n {
        let text: String = if (k as usize) < fixed.len() {
            fixed[k as usize].to_string()
        } else {
            let digits = rng.gen_range(1..29);
            let mut s: String = (0..digits).map(|_| (b'0' + rng.gen_range(0..10)) as char).collect();
            if rng.gen_bool(0.15) {
                // leading zeros (in front of and behind the point) do not count as significant digits
                s = format!("{}{}", "0".repeat(rng.gen_range(1..6)), s);
            }
            if rng.gen_bool(0.7) {
                let p = rng.gen_range(1..=digits);
                s.insert(p, '.');
            }
            match rng.gen_range(0..25) {
                0 => s.push_str(".5"),
                1 => s.push('e'),
                2 => s.push_str("e+3"),
                3 if s.len() > 1 => s.insert(rng.gen_range(1..s.len()), '.'),
                4 => s.push_str("E-1"),
                _ => {}
            }
            s
        };
        // the literal alone; `1-2` style texts are cut where the tokenizer's number scan stops, by taking the whole
        // program's result only when the text has number characters only
        if !text.chars().all(|c| c.is_ascii_digit() || c == '.' || c == 'e' || c == 'E') {
            continue;
        }
        let t2 = text.clone();
        let res = guarded(move || expression_engine::execute(leak(&t2), Context::new()));
        out.line(&json!({"chars": string_to_cps(&text), "actual": result_json(res)}));
    }
    out.flush();
}

pub fn exec_one(args: &[String]) {
    silence_panics();
    let t = args[0].clone();
    let res = guarded(move || expression_engine::execute(leak(&t), Context::new()));
    println!("{}", result_json(res));
}

// ---------------------------------------------------------------------------------------------
// Programs with observable (logging, scripted) handlers: C06, C07, C14, C15, C08 dispatch.

use std::collections::HashMap;
use std::sync::{Arc, Mutex};

/// With several evaluating threads a try_lock probe of a global store fails whenever another thread is inside its own
/// critical section, so the registry lock bits are only observed single-threaded.
pub static CONCURRENT: std::sync::atomic::AtomicBool = std::sync::atomic::AtomicBool::new(false);

pub struct CaseState {
    pub rets: HashMap<String, Value>,
    pub acts: HashMap<String, String>,
    pub fault_k: u64,
    pub fault_kind: String,
    pub n: u64,
    pub log: Vec<J>,
    pub copies: HashMap<String, (String, String)>,
    pub ctx_copy: Option<Box<dyn Fn(&str, &str) + Send>>,
    pub ctx_try_lock: Option<Box<dyn Fn() -> bool + Send>>,
    pub ctx_lock_blocking: Option<Box<dyn Fn() + Send>>,
}

// one case per evaluating thread (handlers run on the thread that evaluates), so that evaluations can run concurrently (C16)
thread_local! {
    pub static CASE: std::cell::RefCell<Option<CaseState>> = std::cell::RefCell::new(None);
}

fn an_error() -> expression_engine::Result<Value> {
    // the crate does not export its Error type; obtain one from an accessor
    Value::None.decimal().map(Value::Number)
}

/// The scripted, logging handler with identity `h`.
pub fn handler_body(h: &str, args: Vec<Value>) -> expression_engine::Result<Value> {
    let (outcome, act, reenter): (Result<Value, String>, String, Option<Box<dyn Fn() + Send>>) = {
        CASE.with(|cell| {
        let mut g = cell.borrow_mut();
        let c = g.as_mut().expect("handler invoked outside a case");
        c.n += 1;
        let ctx_free = c.ctx_try_lock.as_ref().map(|f| f()).unwrap_or(true);
        let regs_free = CONCURRENT.load(std::sync::atomic::Ordering::SeqCst) || expression_engine::verif_hooks::locks_free().iter().all(|b| *b);
        c.log.push(json!([h, args.iter().map(value_to_json).collect::<Vec<_>>(), ctx_free, regs_free]));
        let act = c.acts.get(h).cloned().unwrap_or_default();
        let o = if c.fault_k == c.n { Err(c.fault_kind.clone()) } else { Ok(c.rets.get(h).cloned().unwrap_or(Value::None)) };
        // a handler that writes to the context it is evaluated in (it takes the context lock itself)
        if o.is_ok() {
            if let (Some((from, to)), Some(f)) = (c.copies.get(h), c.ctx_copy.as_ref()) {
                f(from, to);
            }
        }
        let re = if act == "lockctx-blocking" { c.ctx_lock_blocking.take() } else { None };
        (o, act, re)
        })
    };
    // re-entrant actions run outside the harness's own bookkeeping lock
    match act.as_str() {
        "parse" => {
            let _ = expression_engine::parse_expression("1 - 2 * 3");
        }
        "execute" => {
            // a program of several statements inside whatever program is running
            let _ = expression_engine::execute("x9 = 1 - 2 * 3; x9 += 1; x9", Context::new());
        }
        "regfun" => expression_engine::register_function("reent_f", Arc::new(|_| Ok(Value::None))),
        "regprefix" => expression_engine::register_prefix_op("reent_pre", Arc::new(|v| Ok(v))),
        "reginfix" => expression_engine::register_infix_op("reent_in", 33, expression_engine::InfixOpType::CALC, expression_engine::InfixOpAssociativity::LEFT, Arc::new(|a, _| Ok(a))),
        "regpostfix" => expression_engine::register_postfix_op("reent_post", Arc::new(|v| Ok(v))),
        "lockctx-blocking" => {
            if let Some(f) = reenter {
                f();
            }
        }
        _ => {}
    }
    match outcome {
        Ok(v) => Ok(v),
        Err(kind) if kind == "panic" => panic!("scripted panic in handler {}", h),
        Err(_) => an_error(),
    }
}

fn handler_arc(h: &str) -> Arc<dyn Fn(Vec<Value>) -> expression_engine::Result<Value> + Send + Sync> {
    let h = h.to_string();
    Arc::new(move |args| handler_body(&h, args))
}

/// Build an ExprAST from the specification's program encoding.  Literals that cannot be written as literal tokens
/// (negative numbers, lists, None ...) are bound to hidden context variables `__litN`.
pub fn build_ast(j: &J, ctx: &mut Context, hidden: &mut u32) -> ExprAST<'static> {
    let a = j.as_array().unwrap();
    let sub = |x: &J, ctx: &mut Context, hidden: &mut u32| Box::new(build_ast(x, ctx, hidden));
    match a[0].as_str().unwrap() {
        "lit" => {
            let v = json_to_value(&a[1]).unwrap_or_else(|| tool_error("literal not representable"));
            value_ast(&v, ctx, hidden)
        }
        "none" => ExprAST::None,
        "ref" => ExprAST::Reference(leak(a[1].as_str().unwrap())),
        "call" => ExprAST::Function(leak(a[1].as_str().unwrap()), a[2].as_array().unwrap().iter().map(|x| build_ast(x, ctx, hidden)).collect()),
        "un" => ExprAST::Unary(leak(a[1].as_str().unwrap()), sub(&a[2], ctx, hidden)),
        "post" => ExprAST::Postfix(sub(&a[1], ctx, hidden), a[2].as_str().unwrap().to_string()),
        "bin" => {
            let l = sub(&a[2], ctx, hidden);
            let r = sub(&a[3], ctx, hidden);
            ExprAST::Binary(leak(a[1].as_str().unwrap()), l, r)
        }
        "tern" => {
            let c = sub(&a[1], ctx, hidden);
            let x = sub(&a[2], ctx, hidden);
            let y = sub(&a[3], ctx, hidden);
            ExprAST::Ternary(c, x, y)
        }
        "list" => ExprAST::List(a[1].as_array().unwrap().iter().map(|x| build_ast(x, ctx, hidden)).collect()),
        "stmt" => ExprAST::Stmt(a[1].as_array().unwrap().iter().map(|x| build_ast(x, ctx, hidden)).collect()),
        "map" => ExprAST::Map(a[1].as_array().unwrap().iter().map(|kv| (build_ast(&kv[0], ctx, hidden), build_ast(&kv[1], ctx, hidden))).collect()),
        other => tool_error(&format!("unknown node {}", other)),
    }
}

/// An AST that evaluates to `v` without being a name: literal tokens where possible, `- literal` for negative
/// numbers, list / map / None nodes structurally; only strings containing both quote characters need a hidden variable.
fn value_ast(v: &Value, ctx: &mut Context, hidden: &mut u32) -> ExprAST<'static> {
    if let Some(l) = literal_ast(v) {
        return l;
    }
    match v {
        Value::None => ExprAST::None,
        // (when the engine refuses even a plain literal - state leaked by earlier parses, say - the value is bound to a hidden name instead)
        Value::Number(d) if literal_ast(&Value::Number(-*d)).is_some() => ExprAST::Unary("-", Box::new(literal_ast(&Value::Number(-*d)).unwrap())),
        Value::List(vs) => ExprAST::List(vs.iter().map(|x| value_ast(x, ctx, hidden)).collect()),
        Value::Map(kvs) => ExprAST::Map(kvs.iter().map(|(k, x)| (value_ast(k, ctx, hidden), value_ast(x, ctx, hidden))).collect()),
        _ => {
            *hidden += 1;
            let name = leak(&format!("__lit{}", hidden));
            ctx.set_variable(name, v.clone());
            ExprAST::Reference(name)
        }
    }
}

fn obj<'a>(j: &'a J, key: &str) -> Vec<(&'a String, &'a J)> {
    j.get(key).and_then(|o| o.as_object()).map(|o| o.iter().collect()).unwrap_or_default()
}

pub struct Observed {
    pub st: String,
    pub val: J,
    pub ctx: J,          // {name: ["var", v] | ["fn", "same"|"other"]}
    pub log: Vec<J>,     // [h, args, ctx_free, regs_free]
    pub poisoned: bool,
    pub followups: Vec<String>,
}

/// Run one case {prog, ctx0, handlers, acts?, gfun, gprefix?, ginfix?, gpostfix?, fault} on the real engine.
/// determinism replay: once every global handler a file needs has been registered, cases no longer re-register them, so that
/// anything that silently puts a built-in back (or drops a registration) between two evaluations is seen
pub static SKIP_GLOBAL_REGISTRATIONS: std::sync::atomic::AtomicBool = std::sync::atomic::AtomicBool::new(false);

pub fn run_case(r: &J, followups: bool) -> Observed {
    run_case_src(r, followups, None, None)
}

/// Like run_case, but evaluating an AST the caller already holds (the same parsed / built tree evaluated again, C16).
pub fn run_case_ast(r: &J, followups: bool, shared: Option<&ExprAST<'static>>) -> Observed {
    run_case_src(r, followups, shared, None)
}

/// `text`: evaluate by parsing this text (which may live in a buffer the caller reuses) instead of a pre-built tree.
pub fn run_case_src(r: &J, followups: bool, shared: Option<&ExprAST<'static>>, text: Option<&str>) -> Observed {
    expression_engine::verif_hooks::init();
    let mut rets = HashMap::new();
    for (h, v) in obj(r, "handlers") {
        rets.insert(h.clone(), json_to_value(v).unwrap_or(Value::None));
    }
    let mut copies = HashMap::new();
    for (h, v) in obj(r, "copies") {
        copies.insert(h.clone(), (v[0].as_str().unwrap().to_string(), v[1].as_str().unwrap().to_string()));
    }
    let mut acts = HashMap::new();
    for (h, v) in obj(r, "acts") {
        acts.insert(h.clone(), v.as_str().unwrap_or("").to_string());
    }
    // registrations can themselves panic when an earlier evaluation left a registry mutex poisoned: that is an outcome of
    // the code under test, not a harness failure
    let regs_ok = guarded(std::panic::AssertUnwindSafe(|| {
        if SKIP_GLOBAL_REGISTRATIONS.load(std::sync::atomic::Ordering::SeqCst) {
            return;
        }
        for (name, h) in obj(r, "gfun") {
            expression_engine::register_function(name, handler_arc(h.as_str().unwrap()));
        }
        for (name, h) in obj(r, "gprefix") {
            let hh = h.as_str().unwrap().to_string();
            expression_engine::register_prefix_op(name, Arc::new(move |v| handler_body(&hh, vec![v])));
        }
        for (name, h) in obj(r, "gpostfix") {
            let hh = h.as_str().unwrap().to_string();
            expression_engine::register_postfix_op(name, Arc::new(move |v| handler_body(&hh, vec![v])));
        }
        for (name, spec) in obj(r, "ginfix") {
            let hh = spec[0].as_str().unwrap().to_string();
            let ty = if spec[1] == "SETTER" { expression_engine::InfixOpType::SETTER } else { expression_engine::InfixOpType::CALC };
            expression_engine::register_infix_op(name, 115, ty, expression_engine::InfixOpAssociativity::LEFT, Arc::new(move |a, b| handler_body(&hh, vec![a, b])));
        }
    }));
    if let Err(m) = regs_ok {
        return Observed { st: "panic".into(), val: json!(["none"]), ctx: json!({}), log: vec![], poisoned: false, followups: vec![format!("registration panics (registry poisoned by an earlier evaluation?): {}", m)] };
    }
    let mut ctx = Context::new();
    let mut installed: HashMap<String, (String, Arc<dyn Fn(Vec<Value>) -> expression_engine::Result<Value> + Send + Sync>)> = HashMap::new();
    for (name, e) in obj(r, "ctx0") {
        if e[0] == "var" {
            ctx.set_variable(name, json_to_value(&e[1]).unwrap_or(Value::None));
        } else {
            let f = handler_arc(e[1].as_str().unwrap());
            installed.insert(name.clone(), (e[1].as_str().unwrap().to_string(), f.clone()));
            ctx.set_func(name, f);
        }
    }
    let mut hidden = 0u32;
    let built;
    let ast: &ExprAST<'static> = match shared {
        Some(a) => a,
        None => {
            built = build_ast(&r["prog"], &mut ctx, &mut hidden);
            &built
        }
    };
    let handle = ctx.0.clone();
    let handle2 = ctx.0.clone();
    let handle3 = ctx.0.clone();
    let fault = &r["fault"];
    CASE.with(|cell| *cell.borrow_mut() = Some(CaseState {
        rets,
        acts,
        fault_k: fault[0].as_u64().unwrap_or(0),
        fault_kind: fault[1].as_str().unwrap_or("none").to_string(),
        n: 0,
        log: Vec::new(),
        copies,
        // the entry type is not nameable outside the crate; an entry is copied from one name to another instead
        ctx_copy: Some(Box::new(move |from, to| {
            if let Ok(mut g) = handle3.try_lock() {
                if let Some(e) = g.get(from).cloned() {
                    g.insert(to.to_string(), e);
                }
            }
        })),
        ctx_try_lock: Some(Box::new(move || handle.try_lock().is_ok())),
        ctx_lock_blocking: Some(Box::new(move || {
            let _g = handle2.lock();
        })),
    }));
    let res = match text {
        // through execute() itself, on a second handle of the same store (execute takes its Context by value)
        Some(t) => {
            let alias = Context { 0: ctx.0.clone() };
            guarded(std::panic::AssertUnwindSafe(move || expression_engine::execute(t, alias)))
        }
        None => guarded(std::panic::AssertUnwindSafe(|| ast.exec(&mut ctx))),
    };
    let (st, val) = match &res {
        Err(_) => ("panic".to_string(), json!(["none"])),
        Ok(Err(_)) => ("err".to_string(), json!(["none"])),
        Ok(Ok(v)) => ("ok".to_string(), value_to_json(v)),
    };
    let log = CASE.with(|cell| cell.borrow().as_ref().map(|c| c.log.clone()).unwrap_or_default());
    // final context through the public field and the accessors
    let mut poisoned = false;
    let keys: Vec<String> = match ctx.0.lock() {
        Ok(g) => g.keys().cloned().collect(),
        Err(_) => {
            poisoned = true;
            Vec::new()
        }
    };
    let mut cj = serde_json::Map::new();
    if !poisoned {
        for k in keys {
            if k.starts_with("__lit") {
                continue;
            }
            if let Some(v) = ctx.get_variable(&k) {
                cj.insert(k, json!(["var", value_to_json(&v)]));
            } else if let Some(f) = ctx.get_func(&k) {
                // which of the installed handlers is bound here (a handler may have copied an entry to another name)
                let hid = installed.values().find(|(_, g)| Arc::ptr_eq(g, &f)).map(|(h, _)| h.clone()).unwrap_or("other".to_string());
                cj.insert(k, json!(["fn", hid]));
            }
        }
    }
    let mut fu = Vec::new();
    if followups {
        // C15: after a failed evaluation nothing is left held or poisoned
        if poisoned {
            fu.push("context mutex poisoned".to_string());
        } else {
            let probe = guarded(std::panic::AssertUnwindSafe(|| {
                ctx.set_variable("__probe", Value::from(1));
                let v = ctx.get_variable("__probe");
                let e = parse_expression("__probe - -1").and_then(|a| a.exec(&mut ctx));
                (v, e)
            }));
            match probe {
                Ok((Some(v), Ok(e))) if v == Value::from(1) && e == Value::from(2) => {}
                Ok(_) => fu.push("same context misbehaves after the failed evaluation".to_string()),
                Err(m) => fu.push(format!("use of the same context panics afterwards: {}", m)),
            }
            if let Ok(mut g) = ctx.0.lock() {
                g.remove("__probe");
            }
        }
        if !CONCURRENT.load(std::sync::atomic::Ordering::SeqCst) && !expression_engine::verif_hooks::locks_free().iter().all(|b| *b) {
            fu.push("a registry mutex is held or poisoned after the evaluation".to_string());
        }
        let other = std::thread::spawn(|| guarded(|| expression_engine::execute("2 * 3 - -1", Context::new()))).join();
        match other {
            Ok(Ok(Ok(v))) if v == Value::from(7) => {}
            _ => fu.push("evaluation on another thread misbehaves afterwards".to_string()),
        }
        if guarded(|| expression_engine::register_function("__after", Arc::new(|_| Ok(Value::None)))).is_err() {
            fu.push("registration panics afterwards".to_string());
        }
    }
    CASE.with(|cell| *cell.borrow_mut() = None);
    Observed { st, val, ctx: J::Object(cj), log, poisoned, followups: fu }
}

fn ctx_matches(expected: &J, got: &J) -> bool {
    // an empty TLA+ function prints as [] rather than {}
    let empty = serde_json::Map::new();
    let (e, g) = (expected.as_object().unwrap_or(&empty), got.as_object().unwrap_or(&empty));
    if e.len() != g.len() {
        return false;
    }
    e.iter().all(|(k, v)| match g.get(k) {
        None => false,
        Some(w) => {
            if v[0] == "var" {
                w[0] == "var" && veq(&v[1], &w[1])
            } else {
                w[0] == "fn" && w[1] == v[1]
            }
        }
    })
}

/// eval-replay <ndjson>: each line is a MCEval!Record.
pub fn eval_replay(args: &[String]) {
    silence_panics();
    let mut recs = read_ndjson(&args[0]);
    let mut out = Out::new(None);
    let (mut n, mut bad, mut dc) = (0u64, 0u64, 0u64);
    // --act X: every scripted handler additionally performs the re-entrant action X (C14)
    // an action "X+text" additionally runs the OUTER evaluation through execute(text) on the rendered program, twice (the second run is
    // the one judged): whatever execute() keeps between calls is in play while the handlers re-enter
    let mut via_text = false;
    if let Some(act) = arg_value(args, "--act") {
        let act = match act.strip_suffix("+text") {
            Some(a) => {
                via_text = true;
                a.to_string()
            }
            None => act,
        };
        for r in recs.iter_mut() {
            let hs: Vec<String> = r["handlers"].as_object().map(|o| o.keys().cloned().collect()).unwrap_or_default();
            let mut m = serde_json::Map::new();
            for h in hs {
                m.insert(h, J::from(act.clone()));
            }
            r["acts"] = J::Object(m);
        }
    }
    let from = arg_u64(args, "--from", 0) as usize;
    let to = (arg_u64(args, "--to", recs.len() as u64) as usize).min(recs.len());
    let progress = args.iter().any(|a| a == "--progress");
    for (idx, r) in recs.iter().enumerate() {
        if idx < from || idx >= to {
            continue;
        }
        if progress || idx % 256 == 0 {
            out.line(&json!({"at": idx}));
            out.flush();
        }
        n += 1;
        let mut text_form: Option<String> = None;
        if via_text {
            let mut scratch = Context::new();
            let mut hidden = 0u32;
            let ast = build_ast(&r["prog"], &mut scratch, &mut hidden);
            let text = ast.expr();
            let t1 = text.clone();
            let same_tree = guarded(move || parse_expression(leak(&t1)).map(|a| crate::astjson::ast_to_json(&a)).ok()).ok().flatten() == Some(crate::astjson::ast_to_json(&ast));
            if hidden == 0 && same_tree {
                text_form = Some(text);
            }
        }
        let o = match &text_form {
            Some(t) => {
                let _ = run_case_src(r, false, None, Some(t.as_str()));
                run_case_src(r, true, None, Some(t.as_str()))
            }
            None => run_case(r, true),
        };
        let exp_st = r["st"].as_str().unwrap();
        let mut why: Vec<String> = Vec::new();
        if exp_st == "dc" {
            dc += 1;
            if o.st == "panic" && r["fault"][1] != "panic" {
                why.push("panic".into());
            }
        } else {
            if o.st != exp_st {
                why.push(format!("status: spec {} engine {}", exp_st, o.st));
            } else if exp_st == "ok" && !veq(&r["val"], &o.val) {
                why.push("value differs".into());
            }
            let elog = r["log"].as_array().unwrap();
            let same_log = elog.len() == o.log.len()
                && elog.iter().zip(o.log.iter()).all(|(e, g)| e[0] == g[0] && e[1].as_array().unwrap().len() == g[1].as_array().unwrap().len() && e[1].as_array().unwrap().iter().zip(g[1].as_array().unwrap()).all(|(x, y)| veq(x, y)));
            if !same_log {
                why.push(format!("handler log differs: spec {:?} engine {:?}", elog.iter().map(|e| e[0].as_str().unwrap_or("")).collect::<Vec<_>>(), o.log.iter().map(|e| e[0].as_str().unwrap_or("")).collect::<Vec<_>>()));
            }
            if !o.poisoned && !ctx_matches(&r["ctx"], &o.ctx) {
                why.push("final context differs".into());
            }
        }
        if o.log.iter().any(|e| e[2] == false) {
            why.push("context lock held while a handler ran".into());
        }
        if o.log.iter().any(|e| e[3] == false) {
            why.push("registry lock held while a handler ran".into());
        }
        why.extend(o.followups.iter().cloned());
        if !why.is_empty() {
            bad += 1;
            out.line(&json!({"mismatch": idx, "why": why, "engine": {"st": o.st, "val": o.val, "ctx": o.ctx, "log": o.log}}));
        }
    }
    out.line(&json!({"summary": {"cases": n, "mismatches": bad, "dontcare": dc}}));
    out.flush();
}

// ---- leg T: random programs over the wide value domain ------------------------------------------------

fn lit_num(rng: &mut impl Rng) -> J {
    // mostly small numbers, so that programs evaluate deeply; the wide domain is exercised by the operator tables
    let d = match rng.gen_range(0..20) {
        0..=11 => rust_decimal::Decimal::from(rng.gen_range(-20i64..50)),
        12..=16 => rust_decimal::Decimal::from_i128_with_scale(rng.gen_range(-5000i128..5000), rng.gen_range(0..4)),
        17..=18 => rust_decimal::Decimal::from(rng.gen::<i64>() >> rng.gen_range(20..60)),
        _ => random_decimal(rng),
    };
    json!(["lit", dec_to_json(&d)])
}

fn pick<R: Rng>(rng: &mut R, xs: &[&'static str]) -> &'static str {
    xs[rng.gen_range(0..xs.len())]
}

struct Gen<'a, R: Rng> {
    rng: &'a mut R,
    num_vars: Vec<&'static str>,
    bool_vars: Vec<&'static str>,
    num_fns: Vec<&'static str>,  // context functions returning numbers
    bool_fns: Vec<&'static str>, // context functions returning booleans
}

impl<'a, R: Rng> Gen<'a, R> {
    fn num(&mut self, d: u32) -> J {
        if self.rng.gen_range(0..100) < 1 {
            return self.boolean(d.saturating_sub(1)); // a wrongly typed operand now and then
        }
        if d == 0 {
            return match self.rng.gen_range(0..10) {
                0..=4 => lit_num(self.rng),
                5..=6 => json!(["ref", pick(self.rng, &self.num_vars.clone())]),
                7 => json!(["ref", pick(self.rng, &self.num_fns.clone())]),
                _ => json!(["call", pick(self.rng, &self.num_fns.clone()), []]),
            };
        }
        match self.rng.gen_range(0..14) {
            0..=4 => {
                let op = pick(self.rng, &["+", "-", "*", "%", "/", "+", "-", "*"]);
                json!(["bin", op, self.num(d - 1), self.num(d - 1)])
            }
            5 => json!(["bin", pick(self.rng, &["&", "|", "^", "<<", ">>"]), self.num(d - 1), json!(["lit", dec_to_json(&rust_decimal::Decimal::from(self.rng.gen_range(-1i64..66)))])]),
            6 => json!(["un", pick(self.rng, &["-", "+"]), self.num(d - 1)]),
            7 => json!(["post", self.num(d - 1), pick(self.rng, &["++", "--"])]),
            8 => json!(["tern", self.boolean(d - 1), self.num(d - 1), self.num(d - 1)]),
            9 => {
                let k = self.rng.gen_range(0..4);
                json!(["call", pick(self.rng, &["min", "max", "sum", "mul"]), (0..k).map(|_| self.num(d - 1)).collect::<Vec<_>>()])
            }
            10 => json!(["call", pick(self.rng, &["G1", "G2"]), [self.num(d - 1), self.any(d - 1)]]),
            11 => json!(["call", pick(self.rng, &self.num_fns.clone()), [self.num(d - 1)]]),
            _ => self.num(0),
        }
    }
    fn boolean(&mut self, d: u32) -> J {
        if self.rng.gen_range(0..100) < 1 {
            return self.num(d.saturating_sub(1));
        }
        if d == 0 {
            return match self.rng.gen_range(0..8) {
                0..=2 => json!(["lit", ["bool", self.rng.gen_bool(0.5)]]),
                3..=4 => json!(["ref", pick(self.rng, &self.bool_vars.clone())]),
                5 => json!(["ref", pick(self.rng, &self.bool_fns.clone())]),
                _ => json!(["call", pick(self.rng, &self.bool_fns.clone()), []]),
            };
        }
        match self.rng.gen_range(0..10) {
            0..=2 => json!(["bin", pick(self.rng, &["<", "<=", ">", ">=", "==", "!="]), self.num(d - 1), self.num(d - 1)]),
            3..=4 => json!(["bin", pick(self.rng, &["&&", "||"]), self.boolean(d - 1), self.boolean(d - 1)]),
            5 => json!(["un", pick(self.rng, &["!", "not"]), self.boolean(d - 1)]),
            6 => json!(["bin", "in", self.num(d - 1), json!(["list", [self.num(d - 1), self.any(d - 1), self.num(d - 1)]])]),
            7 => json!(["un", pick(self.rng, &["AND", "OR"]), json!(["list", [self.boolean(d - 1), self.boolean(d - 1)]])]),
            8 => json!(["bin", pick(self.rng, &["==", "!="]), self.any(d - 1), self.any(d - 1)]),
            _ => json!(["tern", self.boolean(d - 1), self.boolean(d - 1), self.boolean(d - 1)]),
        }
    }
    fn any(&mut self, d: u32) -> J {
        match self.rng.gen_range(0..10) {
            0..=3 => self.num(d),
            4..=5 => self.boolean(d),
            6 => json!(["lit", ["str", pick(self.rng, &["", "a", "é€"]).chars().map(|c| c as u32).collect::<Vec<_>>()]]),
            7 if d > 0 => json!(["list", (0..self.rng.gen_range(0..3)).map(|_| self.any(d - 1)).collect::<Vec<_>>()]),
            8 if d > 0 => json!(["map", (0..self.rng.gen_range(0..3)).map(|_| json!([self.any(d - 1), self.any(d - 1)])).collect::<Vec<_>>()]),
            9 => json!(["ref", "unbound"]),
            _ => json!(["none"]),
        }
    }
    fn stmt(&mut self, d: u32) -> J {
        match self.rng.gen_range(0..10) {
            0..=3 => {
                let op = pick(self.rng, &["=", "=", "+=", "-=", "*=", "/=", "%=", "<<=", ">>=", "&=", "^=", "|="]);
                let target = if self.rng.gen_range(0..30) == 0 { lit_num(self.rng) } else { json!(["ref", pick(self.rng, &self.num_vars.clone())]) };
                json!(["bin", op, target, self.num(d)])
            }
            4 => json!(["bin", "=", json!(["ref", pick(self.rng, &self.bool_vars.clone())]), self.boolean(d)]),
            5 => json!(["bin", "=", json!(["ref", "a"]), json!(["bin", "=", json!(["ref", "b"]), self.num(d)])]),
            6 => json!(["bin", "=", json!(["ref", self.num_fns[0]]), self.num(d)]), // a target that is bound to a function
            _ => self.any(d),
        }
    }
}

/// eval-record: random programs with scripted handlers; each line is the case plus what the engine did (`obs`).
pub fn eval_record(args: &[String]) {
    silence_panics();
    let seed = arg_u64(args, "--seed", 1);
    let n = arg_u64(args, "--n", 500);
    let maxdepth = arg_u64(args, "--depth", 4) as u32;
    let mut out = Out::new(arg_value(args, "--out").as_deref());
    let mut r = rng(seed, 70);
    let mut cases: Vec<J> = Vec::new();
    for _ in 0..n {
        let mut handlers = serde_json::Map::new();
        for (i, h) in ["h1", "h2", "h3", "h4", "h5", "h6"].iter().enumerate() {
            let v = if i == 2 || i == 3 { json!(["bool", r.gen_bool(0.5)]) } else { lit_num(&mut r)[1].clone() };
            handlers.insert(h.to_string(), v);
        }
        let ctx0 = json!({
            "a": ["var", lit_num(&mut r)[1].clone()], "b": ["var", lit_num(&mut r)[1].clone()], "c": ["var", lit_num(&mut r)[1].clone()],
            "p": ["var", ["bool", r.gen_bool(0.5)]], "q": ["var", ["bool", r.gen_bool(0.5)]],
            "f1": ["fn", "h1"], "f2": ["fn", "h2"], "t1": ["fn", "h3"], "t2": ["fn", "h4"]
        });
        let mut g = Gen { rng: &mut r, num_vars: vec!["a", "b", "c"], bool_vars: vec!["p", "q"], num_fns: vec!["f1", "f2"], bool_fns: vec!["t1", "t2"] };
        let nst = g.rng.gen_range(1..6);
        let stmts: Vec<J> = (0..nst).map(|_| { let d = g.rng.gen_range(0..=maxdepth); g.stmt(d) }).collect();
        let prog = if stmts.len() == 1 { stmts[0].clone() } else { json!(["stmt", stmts]) };
        let fault = match r.gen_range(0..4) {
            0 => json!([r.gen_range(1..6), "err"]),
            1 => json!([r.gen_range(1..6), "panic"]),
            _ => json!([0, "none"]),
        };
        // now and then a handler writes to the context it is evaluated in: f2 copies a over b, G1 copies the function t1 over p
        let copies = match r.gen_range(0..4) {
            0 => json!({"h2": ["a", "b"]}),
            1 => json!({"h2": ["a", "b"], "h5": ["t1", "p"]}),
            _ => json!({}),
        };
        cases.push(json!({"prog": prog, "ctx0": ctx0, "handlers": handlers, "copies": copies, "gfun": {"G1": "h5", "G2": "h6"}, "fault": fault}));
    }
    // run the cases: on one thread, or spread over `--threads` threads that evaluate concurrently, each on its own contexts (C16)
    let nthreads = arg_u64(args, "--threads", 1) as usize;
    CONCURRENT.store(nthreads > 1, std::sync::atomic::Ordering::SeqCst);
    // with several threads the programs go through execute(text), so that tokenizer and parser run concurrently as well; which
    // programs have a text form that parses back to the very tree is settled beforehand, on this thread alone
    let texts: Vec<Option<String>> = cases
        .iter()
        .map(|r| {
            if nthreads <= 1 {
                return None;
            }
            let mut scratch = Context::new();
            let mut hidden = 0u32;
            let ast = build_ast(&r["prog"], &mut scratch, &mut hidden);
            let text = ast.expr();
            let t1 = text.clone();
            let same = guarded(move || parse_expression(leak(&t1)).map(|a| crate::astjson::ast_to_json(&a)).ok()).ok().flatten() == Some(crate::astjson::ast_to_json(&ast));
            if hidden == 0 && same { Some(text) } else { None }
        })
        .collect();
    let texts = Arc::new(texts);
    let cases = Arc::new(cases);
    let results: Arc<Mutex<Vec<Option<J>>>> = Arc::new(Mutex::new(vec![None; cases.len()]));
    let mut hs = Vec::new();
    for k in 0..nthreads {
        let cases = cases.clone();
        let results = results.clone();
        let texts = texts.clone();
        hs.push(std::thread::spawn(move || {
            let mut i = k;
            while i < cases.len() {
                let o = run_case_src(&cases[i], true, None, texts[i].as_deref());
                let mut rec = cases[i].clone();
                rec["obs"] = json!({"st": o.st, "val": o.val, "ctx": o.ctx, "log": o.log, "poisoned": o.poisoned, "followups": o.followups});
                results.lock().unwrap()[i] = Some(rec);
                i += nthreads;
            }
        }));
    }
    for h in hs {
        let _ = h.join();
    }
    for r in results.lock().unwrap().iter() {
        match r {
            Some(rec) => out.line(rec),
            None => out.line(&json!({"lost": true})),
        }
    }
    out.flush();
}


/// determinism-replay <file>: C16.  Every case is evaluated three times on equal, freshly built contexts, interleaved with the
/// evaluation of its neighbours (other programs, other contexts); the outcomes must be identical, the registries (hook H5
/// snapshot: names, configuration, handler identity) must be the same before and after every parse and evaluation, and parsing the
/// program text twice must give equal trees and leave the context alone.
/// The registries as hook H5 reports them; None when reading them panics (a poisoned mutex is an outcome of the code under test).
fn snapshot() -> Option<expression_engine::verif_hooks::RegistrySnapshot> {
    guarded(expression_engine::verif_hooks::registry_snapshot).ok()
}

pub fn determinism_replay(args: &[String]) {
    silence_panics();
    expression_engine::verif_hooks::init();
    let recs = read_ndjson(&args[0]);
    let mut out = Out::new(None);
    let (mut n, mut bad) = (0u64, 0u64);
    let obs_key = |o: &Observed| json!([o.st, o.val, o.ctx, o.log.iter().map(|e| json!([e[0], e[1]])).collect::<Vec<_>>()]);
    // the harness itself registers the global handlers a case names; do all of that first, so that the registries are
    // only ever touched by parse / evaluation afterwards
    let mut seen_globals = std::collections::HashSet::new();
    for r in recs.iter() {
        let key = json!([r.get("gfun"), r.get("gprefix"), r.get("gpostfix"), r.get("ginfix")]).to_string();
        if seen_globals.insert(key) {
            let _ = run_case(r, false);
        }
    }
    // fixed probe programs: parsed at the start and again after every case (whose parses include failing ones); parsing depends on the
    // text and the registrations only, so the results may never change
    let deep = format!("{}1{}", "(".repeat(120), ")".repeat(120));
    let probes: Vec<String> = vec!["1".into(), "a = 1 + 2 * 3; a".into(), "[1, {2: f(3, -x)}] in y ? !z : w++".into(), deep, "f(1,".into(), "2 +".into()];
    let parse_probe = |t: &String| {
        let t = t.clone();
        guarded(move || parse_expression(leak(&t)).map(|a| crate::astjson::ast_to_json(&a)).map_err(|e| format!("{:?}", e).split('(').next().unwrap_or("").to_string())).unwrap_or(Err("panic".into()))
    };
    let probe_base: Vec<Result<J, String>> = probes.iter().map(parse_probe).collect();
    let mut probe_failed = false;
    SKIP_GLOBAL_REGISTRATIONS.store(true, std::sync::atomic::Ordering::SeqCst);
    for idx in 0..recs.len() {
        n += 1;
        let mut why: Vec<String> = Vec::new();
        if !probe_failed {
            for (k, t) in probes.iter().enumerate() {
                if parse_probe(t) != probe_base[k] {
                    probe_failed = true;
                    why.push(format!("parsing {:?} now gives {:?}; at the start of the process it gave {:?} (other programs, failing ones included, were parsed in between)",
                                     if t.len() > 60 { format!("{}...", &t[..60]) } else { t.clone() }, parse_probe(t).map(|_| "a tree"), probe_base[k].clone().map(|_| "a tree")));
                    break;
                }
            }
        }
        // warm-up so that the registrations this case needs are in place before the snapshot
        let first = run_case(&recs[idx], false);
        let snap0 = snapshot();
        let neighbour = &recs[(idx + 1) % recs.len()];
        let other = run_case(neighbour, false);
        // a thread that has never touched the engine makes its first call (one-time initialisation may not happen again)
        let _ = std::thread::spawn(|| guarded(|| parse_expression("1 < 2").map(|_| ()))).join();
        let second = run_case(&recs[idx], false);
        let _ = run_case(&recs[(idx + 7) % recs.len()], false);
        let third = run_case(&recs[idx], false);
        if obs_key(&first) != obs_key(&second) || obs_key(&first) != obs_key(&third) {
            why.push("the same program on equal contexts gave different outcomes when other programs were evaluated in between".into());
        }
        let other_again = run_case(neighbour, false);
        if obs_key(&other) != obs_key(&other_again) {
            why.push("a neighbouring evaluation changed its outcome".into());
        }
        // registrations made by run_case re-register the same names with fresh closures, so compare names and configuration only
        let snap1 = snapshot();
        let names = |s: &expression_engine::verif_hooks::RegistrySnapshot| {
            (s.prefix.iter().map(|x| x.0.clone()).collect::<Vec<_>>(), s.infix.iter().map(|x| (x.0.clone(), x.1, x.2, x.3)).collect::<Vec<_>>(),
             s.postfix.iter().map(|x| x.0.clone()).collect::<Vec<_>>(), s.function.iter().map(|x| x.0.clone()).collect::<Vec<_>>())
        };
        match (&snap0, &snap1) {
            (Some(a), Some(b)) => {
                if names(a) != names(b) {
                    why.push("evaluating programs changed a registry".into());
                }
            }
            _ => why.push("a registry cannot be read any more (its mutex was poisoned by an evaluation)".into()),
        }
        // parse alone: render the tree, parse the text twice, compare, and check that nothing observable changed
        let mut ctx = Context::new();
        let mut hidden = 0u32;
        let ast = build_ast(&recs[idx]["prog"], &mut ctx, &mut hidden);
        let text = ast.expr();
        let before = snapshot();
        let t1 = text.clone();
        let t2 = text.clone();
        let p1 = guarded(move || parse_expression(leak(&t1)).map(|a| crate::astjson::ast_to_json(&a)).ok());
        let _mid = guarded(|| parse_expression("zz = [1, 2 ;"));
        let p2 = guarded(move || parse_expression(leak(&t2)).map(|a| crate::astjson::ast_to_json(&a)).ok());
        if p1 != p2 {
            why.push(format!("parsing {:?} twice gave different results", text));
        }
        if snapshot() != before {
            why.push("parsing changed a registry (names, configuration or handler identity)".into());
        }
        if !why.is_empty() {
            bad += 1;
            out.line(&json!({"mismatch": idx, "why": why}));
        }
    }
    // one tree, many evaluations: records with the same program share ONE ExprAST value, which is evaluated on each record's
    // context in turn (and once more on the first); every outcome must be the one the specification gives for that context
    let mut groups: HashMap<String, Vec<usize>> = HashMap::new();
    for (idx, r) in recs.iter().enumerate() {
        groups.entry(r["prog"].to_string()).or_default().push(idx);
    }
    for (_, idxs) in groups.iter().filter(|(_, v)| v.len() >= 2) {
        let mut scratch = Context::new();
        let mut hidden = 0u32;
        let ast = build_ast(&recs[idxs[0]]["prog"], &mut scratch, &mut hidden);
        if hidden > 0 {
            continue;
        }
        let mut order = idxs.clone();
        order.push(idxs[0]);
        for &i in &order {
            n += 1;
            let o = run_case_ast(&recs[i], false, Some(&ast));
            let r = &recs[i];
            let exp_st = r["st"].as_str().unwrap_or("dc");
            let ok = exp_st == "dc" || (o.st == exp_st && (exp_st != "ok" || veq(&r["val"], &o.val)) && (o.poisoned || ctx_matches(&r["ctx"], &o.ctx)));
            if !ok {
                bad += 1;
                out.line(&json!({"mismatch": i, "why": ["the same tree evaluated again on another context gave an outcome the specification does not give for that context"]}));
            }
        }
    }
    // the text path through ONE reused line buffer (the way a rule file is read line by line): the program is rendered, copied
    // into the buffer that held the previous program, parsed from there and evaluated; where the text parses back to the tree
    // the specification evaluated, the outcome must be the specification's
    let mut line = String::with_capacity(1 << 16);
    let (mut text_cases, mut text_skipped) = (0u64, 0u64);
    for (idx, r) in recs.iter().enumerate() {
        let exp_st = r["st"].as_str().unwrap_or("dc");
        let mut scratch = Context::new();
        let mut hidden = 0u32;
        let ast = build_ast(&r["prog"], &mut scratch, &mut hidden);
        let text = ast.expr();
        let t1 = text.clone();
        let same_tree = guarded(move || parse_expression(leak(&t1)).map(|a| crate::astjson::ast_to_json(&a)).ok()).ok().flatten() == Some(crate::astjson::ast_to_json(&ast));
        if exp_st == "dc" || hidden > 0 || !same_tree || text.len() >= line.capacity() {
            text_skipped += 1;
            continue;
        }
        line.clear();
        line.push_str(&text);
        n += 1;
        text_cases += 1;
        let o = run_case_src(r, false, None, Some(line.as_str()));
        let ok = o.st == exp_st && (exp_st != "ok" || veq(&r["val"], &o.val)) && (o.poisoned || ctx_matches(&r["ctx"], &o.ctx));
        if !ok {
            bad += 1;
            out.line(&json!({"mismatch": idx, "why": [format!("the program text {:?}, parsed from a line buffer that held other programs before, gave an outcome the specification does not give (status {} value {})", text, o.st, o.val)]}));
        }
    }
    // a context created on this thread and first written on another one: contexts created here afterwards are still empty
    {
        let fresh = Context::new();
        let _ = std::thread::spawn(move || guarded(move || expression_engine::execute("leak_probe_var = 42; leak_probe_var", fresh))).join();
        let seen = guarded(|| (Context::new().get_variable("leak_probe_var"), expression_engine::execute("leak_probe_var", Context::new())));
        n += 1;
        match seen {
            Ok((None, Ok(Value::None))) => {}
            other => {
                bad += 1;
                out.line(&json!({"mismatch": 0, "why": [format!("a variable assigned on another thread to a context created on this one shows up in a NEW context: {:?}", other.map(|(a, b)| (a, b.ok())))]}));
            }
        }
    }
    out.line(&json!({"summary": {"cases": n, "mismatches": bad, "text_path": text_cases, "text_path_skipped": text_skipped}}));
    out.flush();
}


/// C14, directed: re-entrancy at depth.  A registered function whose handler evaluates a sub-program that calls it again (levels deep,
/// each level under `pad` prefix minuses), and a context function reached by bare name that evaluates `[[..[again]..]]` on a context
/// holding itself.  Prints {"fn": outcome, "bare": outcome}; a re-entrant evaluation is an ordinary evaluation, so both must be Ok.
pub fn reent_depth(args: &[String]) {
    silence_panics();
    let levels = arg_u64(args, "--levels", 16) as i64;
    let pad = arg_u64(args, "--pad", 40) as usize;
    let pad2 = pad;
    expression_engine::register_function("deepf", Arc::new(move |p: Vec<Value>| {
        let n = p.first().cloned().unwrap_or(Value::None).integer()?;
        if n <= 0 {
            return Ok(Value::from(1));
        }
        expression_engine::execute(leak(&format!("{}deepf({})", "- ".repeat(pad2), n - 1)), Context::new())
    }));
    let r1 = guarded(move || expression_engine::execute(leak(&format!("deepf({})", levels)), Context::new()));
    fn make_ctx(counter: Arc<std::sync::atomic::AtomicI64>, pad: usize) -> Context {
        let mut c = Context::new();
        let c2 = counter.clone();
        c.set_func("again", Arc::new(move |_| {
            if c2.fetch_sub(1, std::sync::atomic::Ordering::SeqCst) <= 0 {
                return Ok(Value::from(1));
            }
            let text = format!("{}again{}", "[".repeat(pad), "]".repeat(pad));
            // the innermost value comes back wrapped in `pad` one-element lists: unwrap it again
            let mut v = expression_engine::execute(leak(&text), make_ctx(c2.clone(), pad))?;
            for _ in 0..pad {
                v = v.list()?.into_iter().next().unwrap_or(Value::None);
            }
            Ok(v)
        }));
        c
    }
    let counter = Arc::new(std::sync::atomic::AtomicI64::new(levels));
    let r2 = guarded(move || expression_engine::execute("again", make_ctx(counter, pad.min(30))));
    println!("{}", json!({"fn": result_json(r1), "bare": result_json(r2)}));
}
