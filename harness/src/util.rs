//! Shared helpers: NDJSON I/O, seeded RNG, text encodings (trusted, deliberately dumb).
use rand::rngs::StdRng;
use rand::SeedableRng;
use serde_json::Value as J;
use std::io::{BufRead, Write};

pub fn read_ndjson(path: &str) -> Vec<J> {
    let f = std::fs::File::open(path).unwrap_or_else(|e| tool_error(&format!("cannot open {}: {}", path, e)));
    let mut out = Vec::new();
    for line in std::io::BufReader::new(f).lines() {
        let line = line.unwrap();
        if line.trim().is_empty() {
            continue;
        }
        // deep programs nest far beyond serde_json's default limit of 128
        let mut de = serde_json::Deserializer::from_str(&line);
        de.disable_recursion_limit();
        let v: J = serde::Deserialize::deserialize(&mut de).unwrap_or_else(|e| tool_error(&format!("bad json line in {}: {}", path, e)));
        out.push(v);
    }
    out
}

pub struct Out {
    w: std::io::BufWriter<Box<dyn Write>>,
}

impl Out {
    pub fn new(path: Option<&str>) -> Out {
        let w: Box<dyn Write> = match path {
            Some(p) => Box::new(std::fs::File::create(p).unwrap_or_else(|e| tool_error(&format!("cannot create {}: {}", p, e)))),
            None => Box::new(std::io::stdout()),
        };
        Out { w: std::io::BufWriter::new(w) }
    }
    pub fn line(&mut self, v: &J) {
        serde_json::to_writer(&mut self.w, v).unwrap();
        self.w.write_all(b"\n").unwrap();
    }
    pub fn flush(&mut self) {
        self.w.flush().unwrap();
    }
}

/// Exit code 2 = tool error (never a verdict).
pub fn tool_error(msg: &str) -> ! {
    eprintln!("TOOL-ERROR: {}", msg);
    std::process::exit(2);
}

pub fn rng(seed: u64, stream: u64) -> StdRng {
    StdRng::seed_from_u64(seed.wrapping_mul(0x9E3779B97F4A7C15).wrapping_add(stream))
}

pub fn cps_to_string(cps: &[J]) -> String {
    cps.iter().map(|c| char::from_u32(c.as_u64().unwrap() as u32).unwrap()).collect()
}

pub fn string_to_cps(s: &str) -> J {
    J::Array(s.chars().map(|c| J::from(c as u32)).collect())
}

/// ASCII-only rendering of a text for TLC (its JSON reader garbles non-ASCII): printable ASCII except
/// backslash is kept, everything else becomes \u{XXXX}.
pub fn esc(s: &str) -> String {
    let mut o = String::new();
    for c in s.chars() {
        if (' '..='~').contains(&c) && c != '\\' {
            o.push(c);
        } else {
            o.push_str(&format!("\\u{{{:X}}}", c as u32));
        }
    }
    o
}

pub fn arg_value(args: &[String], name: &str) -> Option<String> {
    args.iter().position(|a| a == name).and_then(|i| args.get(i + 1).cloned())
}

pub fn arg_u64(args: &[String], name: &str, default: u64) -> u64 {
    arg_value(args, name).map(|v| v.parse().unwrap_or_else(|_| tool_error(&format!("bad value for {}", name)))).unwrap_or(default)
}

/// Run `f`, catching a panic of the code under test. The panic message is silenced.
pub fn guarded<T, F: FnOnce() -> T + std::panic::UnwindSafe>(f: F) -> Result<T, String> {
    std::panic::catch_unwind(f).map_err(|e| {
        if let Some(s) = e.downcast_ref::<&str>() {
            s.to_string()
        } else if let Some(s) = e.downcast_ref::<String>() {
            s.clone()
        } else {
            "panic".to_string()
        }
    })
}

pub fn silence_panics() {
    std::panic::set_hook(Box::new(|_| {}));
}

pub fn unesc(s: &str) -> String {
    let mut o = String::new();
    let cs: Vec<char> = s.chars().collect();
    let mut i = 0;
    while i < cs.len() {
        if cs[i] == '\\' && i + 2 < cs.len() && cs[i + 1] == 'u' && cs[i + 2] == '{' {
            let mut j = i + 3;
            let mut h = String::new();
            while j < cs.len() && cs[j] != '}' {
                h.push(cs[j]);
                j += 1;
            }
            o.push(char::from_u32(u32::from_str_radix(&h, 16).unwrap()).unwrap());
            i = j + 1;
        } else {
            o.push(cs[i]);
            i += 1;
        }
    }
    o
}
