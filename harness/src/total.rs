//! Totality family (C01): parse_expression / execute / expr / describe return on every input.
//! A panic is caught and reported; an abort (stack exhaustion) or a hang kills this process and is
//! detected by the driver, which bisects the batch.
use crate::astjson::*;
use crate::lex;
use crate::parse;
use crate::util::*;
use expression_engine::{execute, parse_expression, Context};
use serde_json::{json, Value as J};

/// Run every entry point on one input; Err(what) names the first one that panicked.
pub fn exercise(text: &str) -> Result<(bool, J), String> {
    let src = leak(text);
    let parsed = guarded(move || parse_expression(src)).map_err(|m| format!("parse_expression panicked: {}", m))?;
    let ok = parsed.is_ok();
    let mut ast_json = J::Null;
    if let Ok(ast) = parsed {
        let a2 = ast.clone();
        guarded(move || {
            let _ = a2.expr();
        })
        .map_err(|m| format!("expr() panicked: {}", m))?;
        let a3 = ast.clone();
        guarded(move || {
            let _ = a3.describe();
        })
        .map_err(|m| format!("describe() panicked: {}", m))?;
        ast_json = ast_to_json(&ast);
    }
    let src2 = leak(text);
    guarded(move || {
        let _ = execute(src2, Context::new());
    })
    .map_err(|m| format!("execute panicked: {}", m))?;
    Ok((ok, ast_json))
}

/// total-replay <ndjson> --kind chars|toks|text [--from i --to j]: one line per panic, then a summary.
pub fn replay(args: &[String]) {
    silence_panics();
    let recs = read_ndjson(&args[0]);
    let kind = arg_value(args, "--kind").unwrap_or_else(|| "chars".into());
    let seed = arg_u64(args, "--seed", 1);
    let from = arg_u64(args, "--from", 0) as usize;
    let to = (arg_u64(args, "--to", recs.len() as u64) as usize).min(recs.len());
    let mut out = Out::new(None);
    let (mut n, mut bad) = (0u64, 0u64);
    for idx in from..to {
        let r = &recs[idx];
        let text = match kind.as_str() {
            "chars" => cps_to_string(r["chars"].as_array().unwrap()),
            "toks" => parse::concretize(r["toks"].as_array().unwrap(), seed, idx as u64, &|_| " ".to_string()).text,
            _ => unesc(r["text"].as_str().unwrap()),
        };
        // progress marker so that the driver can name the input that killed the process
        // progress marker so that the driver can name the input that killed the process
        out.line(&json!({"at": idx}));
        out.flush();
        n += 1;
        if let Err(what) = exercise(&text) {
            bad += 1;
            out.line(&json!({"panic": idx, "text": esc(&text), "what": what}));
        }
    }
    out.line(&json!({"summary": {"ran": n, "panics": bad, "from": from, "to": to}}));
    out.flush();
}

pub fn pump_text(fam: &str, n: usize) -> String {
    match fam {
        "paren" => "( ".repeat(n) + "1" + &" )".repeat(n),
        "bracket" => "[ ".repeat(n) + "1" + &" ]".repeat(n),
        "brace-key" => "{ ".repeat(n) + "1" + &" : 1 }".repeat(n),
        "brace-value" => "{ 1 : ".repeat(n) + "1" + &" }".repeat(n),
        "call" => "f ( ".repeat(n) + "1" + &" )".repeat(n),
        "prefix" => "- ".repeat(n) + "1",
        "not" => "not ".repeat(n) + "true",
        "bang" => "! ".repeat(n) + "true",
        "right-chain" => "a = ".repeat(n) + "1",
        "left-chain" => "1 + ".repeat(n) + "1",
        "mul-chain" => "2 * ".repeat(n) + "2",
        "notin-chain" => "1 ".to_string() + &"not in [ 1 ] == ".repeat(n) + "true",
        "tern-then" => "true ? ".repeat(n) + "1" + &" : 1".repeat(n),
        "tern-else" => "true ? 1 : ".repeat(n) + "1",
        "idents" => "a ".repeat(n),
        "stmts" => "1 ; ".repeat(n),
        "list-flat" => "[ ".to_string() + &"1 , ".repeat(n) + "1 ]",
        "args-flat" => "f ( ".to_string() + &"1 , ".repeat(n) + "1 )",
        "map-flat" => "{ ".to_string() + &"1 : 2 , ".repeat(n) + "1 : 2 }",
        "postfix" => "1".to_string() + &" ++".repeat(n),
        "mixed" => "( 1 + ".repeat(n) + "1" + &" )".repeat(n),
        "unclosed-paren" => "( ".repeat(n),
        "unclosed-bracket" => "[ 1 , ".repeat(n),
        "unclosed-brace" => "{ 1 : ".repeat(n),
        "unclosed-call" => "f ( ".repeat(n),
        "open-tern" => "true ? ".repeat(n),
        "string-long" => format!("'{}'", "é".repeat(n)),
        "number-long" => "1".repeat(n),
        "ws-long" => " \t\r\n".repeat(n) + "1",
        "multibyte-run" => "é ".repeat(n),
        "ops-run" => "+ ".repeat(n),
        _ => tool_error(&format!("unknown pump family {}", fam)),
    }
}

pub const PUMPS: &[&str] = &[
    "paren", "bracket", "brace-key", "brace-value", "call", "prefix", "not", "bang", "right-chain", "left-chain", "mul-chain", "notin-chain", "tern-then",
    "tern-else", "idents", "stmts", "list-flat", "args-flat", "map-flat", "postfix", "mixed", "unclosed-paren", "unclosed-bracket", "unclosed-brace",
    "unclosed-call", "open-tern", "string-long", "number-long", "ws-long", "multibyte-run", "ops-run",
];

/// pump <family> <n> [--stack bytes]: runs on a thread with the given stack (default: Rust's 2 MiB thread default).
pub fn pump(args: &[String]) {
    silence_panics();
    let fam = args[0].clone();
    let n: usize = args[1].parse().unwrap_or_else(|_| tool_error("pump: bad n"));
    let stack = arg_u64(args, "--stack", 2 * 1024 * 1024) as usize;
    let text = pump_text(&fam, n);
    let h = std::thread::Builder::new()
        .stack_size(stack)
        .spawn(move || exercise(&text))
        .unwrap();
    match h.join() {
        Ok(Ok((ok, _))) => println!("{}", json!({"family": fam, "n": n, "outcome": "returned", "ok": ok})),
        Ok(Err(what)) => println!("{}", json!({"family": fam, "n": n, "outcome": "panicked", "what": what})),
        Err(_) => println!("{}", json!({"family": fam, "n": n, "outcome": "panicked", "what": "thread panicked"})),
    }
}

const DIRECTED: &[&str] = &[
    "min()", "max()", "sum()", "mul()", "min([])", "max('a')", "sum(true, None)", "mul([1], {})", "1 + max()", "[min(), 2]", "AND[]", "OR[]", "AND 1", "OR 'x'", "AND[1, 'a']",
    "! 1", "not 'a'", "- 'a'", "+ true", "- []", "1 in 2", "[] in []", "'a' beginWith 1", "1 endWith 'a'", "'' beginWith ''", "1 ++ ++", "'a' ++", "[] --", "true ? 1", "1 ? 2 : 3",
    "1 / 0", "1 % 0", "1 << 64", "1 >> -1", "1 << 1.5", "1.5 | 1", "9223372036854775808 & 1", "79228162514264337593543950335 + 1", "79228162514264337593543950335 * 2",
    "0.0000000000000000000000000001 / 10", "x += 1", "x <<= y", "1 = 2", "[a] = 1", "f()", "f(1)()", "x()", "{}()", "{1: 2}[1]", "a.b.c()", "\u{7f}", "a\u{7f}", "12\u{7f}", "f(\u{7f})",
    "a +\u{7f}", "\u{0}", "'\u{0}'", "\u{1}(", "true()", "True (1)", "false ++", "not", "in", "not in", "a not", "a not b", "? :", ": ?", "a ? b ? c : d : e", "- - - - 1", "! ! ! true",
    "-9223372036854775808 % -1", "a = -9223372036854775808; a %= -1; a", "-9223372036854775808 / -1", "9223372036854775807 + 1 | 0", "a = 1; a <<= 4294967296", "'", "\"", "a + '", "[1, 'two', \"",
    "f(1, '", "{'k': '", "1 ? '", "x = '",
];

pub fn pump_list() {
    println!("{}", json!(PUMPS));
}

/// total-record: random UTF-8 inputs; writes a lexer trace and a parser trace of the same executions and reports panics.
pub fn record(args: &[String]) {
    silence_panics();
    let seed = arg_u64(args, "--seed", 1);
    let n = arg_u64(args, "--n", 1000);
    let maxlen = arg_u64(args, "--maxlen", 200) as usize;
    expression_engine::verif_hooks::init();
    let mut lex_out = Out::new(arg_value(args, "--lex-out").as_deref());
    let mut parse_out = Out::new(arg_value(args, "--parse-out").as_deref());
    let mut out = Out::new(None);
    let mut rng = rng(seed, 40);
    let mut bad = 0u64;
    let skip = arg_u64(args, "--skip", 0);
    let progress = args.iter().any(|a| a == "--progress");
    for k in 0..n {
        let ml = if k % 40 == 39 { maxlen * 10 } else { maxlen };
        // the first inputs are directed: every built-in applied to no, one and oddly typed arguments (execute must return, C01)
        let s = if (k as usize) < DIRECTED.len() { DIRECTED[k as usize].to_string() } else { lex::random_input(&mut rng, ml) };
        if k < skip {
            continue; // already examined by an earlier (killed) process: keep the generator in step
        }
        if progress {
            // announce the input before running it, so that a hang or an abort can be attributed to it
            out.line(&json!({"at": k, "text": esc(&s)}));
            out.flush();
        }
        let mut lrec = lex::observe(&s);
        lrec["chars"] = string_to_cps(&s);
        let lex_ok = lrec["ok"].as_bool().unwrap();
        let toks: Vec<J> = if lex_ok {
            // parser-level view of the same tokens: kinds and escaped texts (numbers canonical)
            let owned = s.clone();
            expression_engine::verif_hooks::tokenize(&owned).unwrap().iter().map(|(k, t, _, _)| json!([k, esc(t)])).collect()
        } else {
            vec![]
        };
        lex_out.line(&lrec);
        match exercise(&s) {
            Ok((ok, ast)) => parse_out.line(&json!({"text": esc(&s), "lex_ok": lex_ok, "toks": toks, "ok": ok, "panic": false, "ast": if ok { ast } else { json!([]) }})),
            Err(what) => {
                bad += 1;
                out.line(&json!({"panic": k, "text": esc(&s), "what": what}));
                parse_out.line(&json!({"text": esc(&s), "lex_ok": lex_ok, "toks": toks, "ok": false, "panic": true, "ast": []}));
            }
        }
    }
    lex_out.flush();
    parse_out.flush();
    out.line(&json!({"summary": {"ran": n, "panics": bad}}));
    out.flush();
}
