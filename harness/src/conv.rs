//! Conversion family (C17): Value::from on every integer type and on floats, accessors, round trips.
use crate::util::*;
use crate::valjson::*;
use expression_engine::Value;
use rand::Rng;
use serde_json::{json, Value as J};

fn big(neg: bool, mag: u128) -> J {
    json!([neg, limbs_of(mag)])
}

fn float_parts(f: f64) -> (&'static str, bool, u64, i32) {
    if f.is_nan() {
        return ("nan", false, 0, 0);
    }
    if f.is_infinite() {
        return ("inf", f < 0.0, 0, 0);
    }
    let bits = f.to_bits();
    let neg = bits >> 63 == 1;
    let exp = ((bits >> 52) & 0x7ff) as i32;
    let frac = bits & ((1u64 << 52) - 1);
    if exp == 0 {
        ("finite", neg, frac, -1074)
    } else {
        ("finite", neg, frac | (1u64 << 52), exp - 1075)
    }
}

fn acc_result(acc: &str, v: &Value) -> J {
    let v = v.clone();
    match acc {
        "decimal" => v.decimal().map(|d| json!(["ok", dec_to_json(&d)])).unwrap_or(json!(["err"])),
        "integer" => v.integer().map(|n| json!(["ok", [n < 0, limbs_of(n.unsigned_abs() as u128)]])).unwrap_or(json!(["err"])),
        "float" => v.float().map(|_| json!(["ok"])).unwrap_or(json!(["err"])),
        "string" => v.string().map(|s| json!(["ok", value_to_json(&Value::String(s))])).unwrap_or(json!(["err"])),
        "bool" => v.bool().map(|b| json!(["ok", ["bool", b]])).unwrap_or(json!(["err"])),
        "list" => v.list().map(|l| json!(["ok", value_to_json(&Value::List(l))])).unwrap_or(json!(["err"])),
        _ => tool_error("accessor"),
    }
}

macro_rules! ints {
    ($out:expr, $rng:expr, $n:expr, $( $t:ty ),+) => {
        $(
            {
                let ty = stringify!($t);
                let mut vals: Vec<$t> = vec![<$t>::MIN, <$t>::MAX, 0 as $t, 1 as $t, <$t>::MAX - 1, <$t>::MIN + 1, <$t>::MAX / 2, 42 as $t];
                for _ in 0..$n {
                    let r: $t = $rng.gen();
                    vals.push(r >> $rng.gen_range(0..(std::mem::size_of::<$t>() * 8 - 1)));
                }
                // around the decimal range and the 64-bit boundaries, where the type can hold them
                for p in [63u32, 64, 95, 96, 97] {
                    if (p as usize) < std::mem::size_of::<$t>() * 8 - 1 {
                        let b: $t = (1 as $t) << p;
                        vals.extend_from_slice(&[b, b - 1, b + 1]);
                    }
                }
                for v in vals {
                    let x = v as i128;
                    let (neg, mag): (bool, u128) = if (v as f64) < 0.0 && x < 0 { (true, x.unsigned_abs()) } else { (false, v as u128) };
                    let actual = match guarded(move || Value::from(v)) {
                        Ok(val) => value_to_json(&val),
                        Err(m) => json!(["panic", m]),
                    };
                    $out.line(&json!({"kind": "from_int", "ty": ty, "n": big(neg, mag), "actual": actual}));
                }
            }
        )+
    };
}

/// conv-record --seed --n --out
pub fn record(args: &[String]) {
    if std::env::var("VH_DEBUG").is_err() {
        silence_panics();
    }
    let seed = arg_u64(args, "--seed", 1);
    let n = arg_u64(args, "--n", 50);
    let mut out = Out::new(arg_value(args, "--out").as_deref());
    let mut rng = rng(seed, 90);
    ints!(out, rng, n, i8, i16, i32, i64, i128, u8, u16, u32, u64, u128);
    // accessor x variant matrix, several payloads per variant
    let samples: Vec<Value> = vec![
        Value::from(0), Value::from(-7), Value::Number("3.0".parse().unwrap()), Value::Number("3.50".parse().unwrap()), Value::Number("-0.000".parse().unwrap()),
        Value::Number("9223372036854775807".parse().unwrap()), Value::Number("9223372036854775808".parse().unwrap()), Value::Number("-9223372036854775808.00".parse().unwrap()),
        Value::Number("-9223372036854775809".parse().unwrap()), Value::Number("79228162514264337593543950335".parse().unwrap()), Value::Number("0.0000000000000000000000000001".parse().unwrap()),
        Value::from("text"), Value::from(""), Value::from("é😀".to_string()), Value::from("12"), Value::from(true), Value::from(false),
        // built directly (not through From): text with white space and line ends at its edges must survive both string conversions
        Value::String("line\n".into()), Value::String("x\r\n".into()), Value::String(" pad ".into()), Value::String("\n".into()), Value::String("tab\t".into()), Value::String("\u{feff}bom".into()),
        Value::from(vec![]), Value::from(vec![Value::from(1), Value::from("a"), Value::None]), Value::Map(vec![]), Value::Map(vec![(Value::from(1), Value::from(2))]), Value::None,
    ];
    for v in &samples {
        for acc in ["decimal", "integer", "float", "string", "bool", "list"] {
            out.line(&json!({"kind": "accessor", "acc": acc, "v": value_to_json(v), "actual": acc_result(acc, v)}));
        }
        // round trip through From and the accessor naming the variant
        let back: Option<Value> = match v {
            Value::String(s) => Value::from(s.as_str()).string().ok().map(Value::String),
            Value::Bool(b) => Value::from(*b).bool().ok().map(Value::Bool),
            Value::Number(d) => Value::from(*d).decimal().ok().map(Value::Number),
            Value::List(l) => Value::from(l.clone()).list().ok().map(Value::List),
            _ => None,
        };
        if let Some(b) = back {
            out.line(&json!({"kind": "roundtrip", "v": value_to_json(v), "back": value_to_json(&b)}));
        }
        if let Value::String(s) = v {
            // ... and through the owned-String conversion
            if let Ok(t) = Value::from(s.clone()).string() {
                out.line(&json!({"kind": "roundtrip", "v": value_to_json(v), "back": value_to_json(&Value::String(t))}));
            }
        }
    }
    // integer() and float() on random decimals of every scale
    for k in 0..(n * 8) {
        let scale = (k % 29) as u32;
        let mant: i128 = match rng.gen_range(0..6) {
            0 => rng.gen_range(-1000i128..1000) * 10i128.pow(scale.min(25)),
            1 => (i64::MAX as i128 - rng.gen_range(0..3)) * 10i128.pow(scale.min(9)),
            2 => (i64::MIN as i128 + rng.gen_range(-2..3)) * 10i128.pow(scale.min(9)),
            3 => rng.gen_range(-(1i128 << 95)..(1i128 << 95)),
            4 => rng.gen_range(-100000i128..100000),
            _ => rng.gen_range(-(1i128 << 70)..(1i128 << 70)),
        };
        let d = rust_decimal::Decimal::from_i128_with_scale(mant, scale);
        let v = Value::Number(d);
        out.line(&json!({"kind": "integer", "v": value_to_json(&v), "actual": acc_result("integer", &v)}));
        if let Ok(f) = v.clone().float() {
            let (class, neg, m, e) = float_parts(f);
            out.line(&json!({"kind": "float_acc", "v": value_to_json(&v), "class": class, "neg": neg, "m": limbs_of(m as u128), "e": e}));
        }
    }
    // floats
    let mut fs: Vec<f64> = vec![0.0, -0.0, 1.0, -1.5, 0.1, 0.2, 0.1 + 0.2, 1e-7, 123456.789, 1e15, 1e28, 7.9e28, 7.93e28, 1e29, 1e40, -1e40, f64::MAX, f64::MIN_POSITIVE, 1e-28, 1e-30,
                            5e-324, f64::NAN, f64::INFINITY, f64::NEG_INFINITY, 79228162514264337593543950335.0, 2f64.powi(96), 2f64.powi(95), 4503599627370497.0];
    // whole floats at the edges of the integer types and of the mantissa
    for k in [7, 8, 15, 16, 24, 31, 32, 52, 53, 54, 62, 63, 64, 65, 94, 95] {
        for d in [-1.0f64, 0.0, 1.0] {
            fs.push(2f64.powi(k) + d);
            fs.push(-(2f64.powi(k) + d));
        }
    }
    for _ in 0..n {
        let k = rng.gen_range(0..96);
        fs.push(((rng.gen::<f64>() * 2f64.powi(k)).floor()) * if rng.gen_bool(0.5) { -1.0 } else { 1.0 });
    }
    for _ in 0..(n * 4) {
        let e = rng.gen_range(-40..32);
        fs.push((rng.gen::<f64>() - 0.5) * 10f64.powi(e));
    }
    for f in fs {
        let (class, neg, m, e) = float_parts(f);
        out.line(&json!({"kind": "from_float", "ty": "f64", "class": class, "neg": neg, "m": limbs_of(m as u128), "e": e, "actual": guarded(move || Value::from(f)).map(|v| value_to_json(&v)).unwrap_or(json!(["panic"])), "text": format!("{:e}", f)}));
        let g = f as f32;
        let (class, neg, m, e) = float_parts(g as f64);
        out.line(&json!({"kind": "from_float", "ty": "f32", "class": class, "neg": neg, "m": limbs_of(m as u128), "e": e, "actual": guarded(move || Value::from(g)).map(|v| value_to_json(&v)).unwrap_or(json!(["panic"])), "text": format!("{:e}", g)}));
    }
    out.flush();
}

/// conv-replay <file>: the accessor x variant matrix TLC enumerated: {acc, v, out}
pub fn replay(args: &[String]) {
    silence_panics();
    let recs = read_ndjson(&args[0]);
    let mut out = Out::new(None);
    let (mut n, mut bad) = (0u64, 0u64);
    for (idx, r) in recs.iter().enumerate() {
        let v = match json_to_value(&r["v"]) {
            Some(v) => v,
            None => continue,
        };
        n += 1;
        let acc = r["acc"].as_str().unwrap();
        let acc2 = acc.to_string();
        let v2 = v.clone();
        let actual = match guarded(move || acc_result(&acc2, &v2)) {
            Ok(a) => a,
            Err(m) => json!(["panic", m]),
        };
        // integer() reports [neg, limbs]; compare as a number
        let actual_v = if acc == "integer" && actual[0] == "ok" { json!(["ok", ["num", actual[1][0], actual[1][1], 0]]) } else { actual.clone() };
        if !allowed(&r["out"], &actual_v) {
            bad += 1;
            out.line(&json!({"mismatch": idx, "acc": acc, "v": r["v"], "expected": r["out"], "actual": actual}));
        }
    }
    out.line(&json!({"summary": {"cells": n, "mismatches": bad}}));
    out.flush();
}

/// conv-one <file>: re-execute recorded conversions (replay of a trace-found case); prints the records with fresh `actual`.
pub fn one(args: &[String]) {
    silence_panics();
    let recs = read_ndjson(&args[0]);
    let mut out = Out::new(None);
    for mut r in recs {
        let kind = r["kind"].as_str().unwrap_or("").to_string();
        match kind.as_str() {
            "from_int" => {
                let neg = r["n"][0].as_bool().unwrap();
                let mag = limbs_to_u128(r["n"][1].as_array().unwrap()).unwrap_or(0);
                let ty = r["ty"].as_str().unwrap().to_string();
                let actual = guarded(move || match ty.as_str() {
                    "i8" => Value::from(if neg { (mag as i128).wrapping_neg() as i8 } else { mag as i8 }),
                    "i16" => Value::from(if neg { (mag as i128).wrapping_neg() as i16 } else { mag as i16 }),
                    "i32" => Value::from(if neg { (mag as i128).wrapping_neg() as i32 } else { mag as i32 }),
                    "i64" => Value::from(if neg { (mag as i128).wrapping_neg() as i64 } else { mag as i64 }),
                    "i128" => Value::from(if neg { (mag as i128).wrapping_neg() } else { mag as i128 }),
                    "u8" => Value::from(mag as u8),
                    "u16" => Value::from(mag as u16),
                    "u32" => Value::from(mag as u32),
                    "u64" => Value::from(mag as u64),
                    _ => Value::from(mag),
                });
                r["actual"] = actual.map(|v| value_to_json(&v)).unwrap_or(json!(["panic"]));
            }
            "integer" => {
                if let Some(v) = json_to_value(&r["v"]) {
                    r["actual"] = acc_result("integer", &v);
                }
            }
            "accessor" => {
                if let Some(v) = json_to_value(&r["v"]) {
                    r["actual"] = acc_result(r["acc"].as_str().unwrap(), &v);
                }
            }
            _ => {}
        }
        out.line(&r);
    }
    out.flush();
}
