//! Context API family (spec/ContextApi.tla): operation sequences on real Contexts.
//! Leg R: `ctxapi-replay <file>` steps every TLC-enumerated history ({"hist":[{op,h,a1,a2,obs}]}) through the engine and
//! compares each result; leg T: `ctxapi-record` runs random histories and records what the engine returned.
use crate::util::*;
use expression_engine::{create_context, execute, Context, Value};
use rand::Rng;
use serde_json::{json, Value as J};
use std::collections::HashMap;
use std::sync::Arc;

type Handler = Arc<dyn Fn(Vec<Value>) -> expression_engine::Result<Value> + Send + Sync>;

fn val(id: &str) -> Value {
    match id {
        "v1" => Value::from(1),
        "v2" => Value::from("s"),
        "v3" => Value::List(vec![Value::from(1), Value::from("s")]),
        _ => Value::None,
    }
}

fn literal(id: &str) -> &'static str {
    match id {
        "v1" => "1",
        "v2" => "'s'",
        "v3" => "[1, 's']",
        _ => "zz_never_bound",
    }
}

fn val_id(v: &Value) -> String {
    for id in ["v1", "v2", "v3", "none"] {
        if *v == val(id) {
            return id.to_string();
        }
    }
    format!("other:{:?}", v)
}

fn an_error() -> expression_engine::Result<Value> {
    Value::None.decimal().map(Value::Number)
}

struct World {
    handlers: HashMap<String, Handler>,
    handles: HashMap<u64, Context>,
}

impl World {
    fn new() -> World {
        let mut handlers: HashMap<String, Handler> = HashMap::new();
        handlers.insert("h1".into(), Arc::new(|p| if p.is_empty() { Ok(val("v2")) } else { an_error() }));
        handlers.insert("h2".into(), Arc::new(|_| an_error()));
        handlers.insert("h3".into(), Arc::new(|p| if p.is_empty() { Ok(Value::None) } else { an_error() }));
        World { handlers, handles: HashMap::new() }
    }

    fn hid(&self, f: &Handler) -> String {
        self.handlers.iter().find(|(_, g)| Arc::ptr_eq(g, f)).map(|(k, _)| k.clone()).unwrap_or("other".into())
    }

    /// the create_context! invocations, numbered as Template(t) in the specification
    fn template(&self, t: u64) -> Context {
        let h1 = self.handlers["h1"].clone();
        let h2 = self.handlers["h2"].clone();
        match t {
            1 => create_context!(),
            2 => create_context!("n1" => 1),
            3 => {
                let c = create_context!("n1" => Arc::new(|p: Vec<Value>| if p.is_empty() { Ok(Value::from("s")) } else { Value::None.decimal().map(Value::Number) }), "n2" => "s");
                // the macro only takes a closure literal for a function entry; rebind the scripted handler so that identity can be observed
                let mut c2 = Context { 0: c.0.clone() };
                if c.get_func("n1").is_some() {
                    c2.set_func("n1", h1);
                }
                c
            }
            4 => {
                let c = create_context!("n1" => 1, "n1" => Arc::new(|_| Value::None.decimal().map(Value::Number)));
                let mut c2 = Context { 0: c.0.clone() };
                if c.get_func("n1").is_some() {
                    c2.set_func("n1", h2);
                }
                c
            }
            _ => {
                let c = create_context!("n2" => Arc::new(|_| Ok(Value::from("s"))), "n1" => "s", "n2" => 1,);
                c
            }
        }
    }

    fn result_json(r: expression_engine::Result<Value>) -> J {
        match r {
            Ok(v) => json!(["ok", val_id(&v)]),
            Err(_) => json!(["err"]),
        }
    }

    /// One operation; None when the operation is not applicable in the current state (harness misuse).
    fn step(&mut self, op: &str, h: u64, a1: &str, a2: &str) -> Option<J> {
        let alias = |w: &World| w.handles.get(&h).map(|c| Context { 0: c.0.clone() });
        Some(match op {
            "new" => {
                self.handles.insert(h, Context::new());
                json!(["unit"])
            }
            "macro" => {
                let c = self.template(a1.parse().ok()?);
                self.handles.insert(h, c);
                json!(["unit"])
            }
            "alias" => {
                let g: u64 = a1.parse().ok()?;
                let c = Context { 0: self.handles.get(&g)?.0.clone() };
                self.handles.insert(h, c);
                json!(["unit"])
            }
            "set_variable" => {
                self.handles.get_mut(&h)?.set_variable(a1, val(a2));
                json!(["unit"])
            }
            "set_func" => {
                let f = self.handlers.get(a2)?.clone();
                self.handles.get_mut(&h)?.set_func(a1, f);
                json!(["unit"])
            }
            "get_variable" => match self.handles.get(&h)?.get_variable(a1) {
                Some(v) => json!(["some", val_id(&v)]),
                None => json!(["nothing"]),
            },
            "get_func" => match self.handles.get(&h)?.get_func(a1) {
                Some(f) => json!(["some", self.hid(&f)]),
                None => json!(["nothing"]),
            },
            "value" => World::result_json(self.handles.get(&h)?.value(a1)),
            "exec_read" => World::result_json(execute(a1, alias(self)?)),
            "exec_assign" => World::result_json(execute(&format!("{} = {}", a1, literal(a2)), alias(self)?)),
            "exec_call" => World::result_json(execute(&format!("{}()", a1), alias(self)?)),
            _ => return None,
        })
    }
}

fn guarded_step(w: &mut World, op: &str, h: u64, a1: &str, a2: &str) -> J {
    match guarded(std::panic::AssertUnwindSafe(|| w.step(op, h, a1, a2))) {
        Ok(Some(j)) => j,
        Ok(None) => json!(["inapplicable"]),
        Err(m) => json!(["panic", m]),
    }
}

pub fn replay(args: &[String]) {
    silence_panics();
    let recs = read_ndjson(&args[0]);
    let mut out = Out::new(None);
    let (mut n, mut bad, mut steps) = (0u64, 0u64, 0u64);
    for (idx, r) in recs.iter().enumerate() {
        let mut w = World::new();
        n += 1;
        for (k, e) in r["hist"].as_array().unwrap().iter().enumerate() {
            steps += 1;
            let got = guarded_step(&mut w, e["op"].as_str().unwrap(), e["h"].as_u64().unwrap(), e["a1"].as_str().unwrap_or(""), e["a2"].as_str().unwrap_or(""));
            if got != e["obs"] {
                bad += 1;
                out.line(&json!({"mismatch": idx, "step": k, "op": e, "got": got}));
                break;
            }
        }
    }
    out.line(&json!({"summary": {"histories": n, "steps": steps, "mismatches": bad}}));
    out.flush();
}

/// Random histories over 4 handles, 3 names, 4 values (one of them None), 3 handlers; histories are separated by a reset record.
pub fn record(args: &[String]) {
    silence_panics();
    let seed = arg_u64(args, "--seed", 1);
    let n = arg_u64(args, "--n", 200);
    let len = arg_u64(args, "--len", 40);
    let mut out = Out::new(arg_value(args, "--out").as_deref());
    let mut rng = rng(seed, 77);
    let names = ["n1", "n2", "n3"];
    let vals = ["v1", "v2", "v3", "none"];
    let hs = ["h1", "h2", "h3"];
    for _ in 0..n {
        out.line(&json!({"op": "reset", "h": 0, "a1": "", "a2": "", "obs": ["init"]}));
        let mut w = World::new();
        let mut stores = 0u64;
        for _ in 0..len {
            let live: Vec<u64> = (1..=4).filter(|h| w.handles.contains_key(h)).collect();
            let fresh = (1..=4u64).find(|h| !w.handles.contains_key(h));
            let name = names[rng.gen_range(0..3)];
            let (op, h, a1, a2): (&str, u64, String, String) = match rng.gen_range(0..100) {
                0..=9 if fresh.is_some() && stores < 3 => {
                    stores += 1;
                    if rng.gen_bool(0.5) { ("new", fresh.unwrap(), String::new(), String::new()) } else { ("macro", fresh.unwrap(), rng.gen_range(1..=5).to_string(), String::new()) }
                }
                10..=17 if fresh.is_some() && !live.is_empty() => ("alias", fresh.unwrap(), live[rng.gen_range(0..live.len())].to_string(), String::new()),
                _ if live.is_empty() => {
                    stores += 1;
                    ("new", fresh.unwrap(), String::new(), String::new())
                }
                k => {
                    let h = live[rng.gen_range(0..live.len())];
                    match k % 9 {
                        0 | 1 => ("set_variable", h, name.to_string(), vals[rng.gen_range(0..4)].to_string()),
                        2 => ("set_func", h, name.to_string(), hs[rng.gen_range(0..3)].to_string()),
                        3 => ("exec_assign", h, name.to_string(), vals[rng.gen_range(0..4)].to_string()),
                        4 => ("get_variable", h, name.to_string(), String::new()),
                        5 => ("get_func", h, name.to_string(), String::new()),
                        6 => ("value", h, name.to_string(), String::new()),
                        7 => ("exec_read", h, name.to_string(), String::new()),
                        _ => ("exec_call", h, name.to_string(), String::new()),
                    }
                }
            };
            let got = guarded_step(&mut w, op, h, &a1, &a2);
            out.line(&json!({"op": op, "h": h, "a1": a1, "a2": a2, "obs": got}));
        }
    }
    out.flush();
}
