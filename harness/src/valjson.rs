//! Value <-> JSON in the specification's encoding (trusted): numbers as sign + base-10^4 limbs + scale,
//! strings as code-point arrays.
use expression_engine::Value;
use rust_decimal::Decimal;
use serde_json::{json, Value as J};

pub fn limbs_of(mut m: u128) -> Vec<J> {
    let mut out = Vec::new();
    while m > 0 {
        out.push(J::from((m % 10000) as u64));
        m /= 10000;
    }
    out
}

pub fn limbs_to_u128(l: &[J]) -> Option<u128> {
    let mut m: u128 = 0;
    for x in l.iter().rev() {
        m = m.checked_mul(10000)?.checked_add(x.as_u64()? as u128)?;
    }
    Some(m)
}

pub fn dec_to_json(d: &Decimal) -> J {
    let m = d.mantissa();
    json!(["num", m < 0, limbs_of(m.unsigned_abs()), d.scale()])
}

pub fn value_to_json(v: &Value) -> J {
    match v {
        Value::Number(d) => dec_to_json(d),
        Value::Bool(b) => json!(["bool", b]),
        Value::String(s) => json!(["str", s.chars().map(|c| c as u32).collect::<Vec<_>>()]),
        Value::List(vs) => json!(["list", vs.iter().map(value_to_json).collect::<Vec<_>>()]),
        Value::Map(kvs) => json!(["map", kvs.iter().map(|(k, v)| json!([value_to_json(k), value_to_json(v)])).collect::<Vec<_>>()]),
        Value::None => json!(["none"]),
    }
}

/// None when the JSON number is not representable as a Decimal (mantissa above 96 bits or scale above 28).
pub fn json_to_value(j: &J) -> Option<Value> {
    let a = j.as_array()?;
    Some(match a[0].as_str()? {
        "num" => {
            let m = limbs_to_u128(a[2].as_array()?)?;
            let scale = a[3].as_u64()? as u32;
            if m > 79228162514264337593543950335u128 || scale > 28 {
                return None;
            }
            let signed = if a[1].as_bool()? { -(m as i128) } else { m as i128 };
            let mut d = Decimal::from_i128_with_scale(signed, scale);
            if a[1].as_bool()? && m == 0 {
                d.set_sign_negative(true); // negative zero: the sign flag unary minus leaves on a zero
            }
            Value::Number(d)
        }
        "bool" => Value::Bool(a[1].as_bool()?),
        "str" => Value::String(a[1].as_array()?.iter().map(|c| char::from_u32(c.as_u64().unwrap() as u32).unwrap()).collect()),
        "list" => Value::List(a[1].as_array()?.iter().map(json_to_value).collect::<Option<Vec<_>>>()?),
        "map" => Value::Map(a[1].as_array()?.iter().map(|kv| Some((json_to_value(&kv[0])?, json_to_value(&kv[1])?))).collect::<Option<Vec<_>>>()?),
        "none" => Value::None,
        _ => return None,
    })
}

/// Canonical (sign, mantissa, scale) of a JSON number: no trailing zeros in the fraction, zero unsigned.
fn canon_num(a: &[J]) -> Option<(bool, u128, u64)> {
    // trailing zeros are dropped on the digit string first: a specified result such as 9223372036854775810.00000000000000000000 has a
    // mantissa beyond u128 before it is canonical
    let limbs = a[2].as_array()?;
    let mut digits = String::new();
    for (k, l) in limbs.iter().enumerate().rev() {
        let v = l.as_u64()?;
        if k == limbs.len() - 1 { digits.push_str(&v.to_string()) } else { digits.push_str(&format!("{:04}", v)) }
    }
    let mut s = a[3].as_u64()?;
    while s > 0 && digits.ends_with('0') {
        digits.pop();
        s -= 1;
    }
    let digits = digits.trim_start_matches('0');
    let m: u128 = if digits.is_empty() { 0 } else { digits.parse().ok()? };
    Some((a[1].as_bool()? && m != 0, m, if m == 0 { 0 } else { s }))
}

/// The engine's structural equality on the JSON encoding: numbers numerically, everything else by structure.
pub fn veq(x: &J, y: &J) -> bool {
    let (a, b) = (x.as_array().unwrap(), y.as_array().unwrap());
    if a[0] != b[0] {
        return false;
    }
    match a[0].as_str().unwrap() {
        "num" => canon_num(a) == canon_num(b) && canon_num(a).is_some(),
        "list" => {
            let (p, q) = (a[1].as_array().unwrap(), b[1].as_array().unwrap());
            p.len() == q.len() && p.iter().zip(q).all(|(u, v)| veq(u, v))
        }
        "map" => {
            let (p, q) = (a[1].as_array().unwrap(), b[1].as_array().unwrap());
            p.len() == q.len() && p.iter().zip(q).all(|(u, v)| veq(&u[0], &v[0]) && veq(&u[1], &v[1]))
        }
        _ => a == b,
    }
}

/// Does an observed result satisfy a specification outcome?  "div" is decided by TLC (trace validation), here only: a number.
pub fn allowed(outcome: &J, actual: &J) -> bool {
    match outcome[0].as_str().unwrap() {
        "ok" => actual[0] == "ok" && veq(&outcome[1], &actual[1]),
        "err" => actual[0] == "err",
        "any" => outcome[1].as_array().unwrap().iter().any(|o| allowed(o, actual)),
        "div" => actual[0] == "ok" && actual[1][0] == "num",
        "dc" => actual[0] == "ok" || actual[0] == "err",
        _ => false,
    }
}
