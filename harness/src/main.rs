//! vh — conformance harness binding the TLA+ specification in /verif/spec to the real engine.
mod astjson;
mod engine;
mod conv;
mod ctxapi;
mod describe;
mod eval;
mod valjson;
mod lex;
mod parse;
mod total;
mod util;

fn main() {
    let args: Vec<String> = std::env::args().skip(1).collect();
    if args.is_empty() {
        util::tool_error("usage: vh <command> ...");
    }
    let rest = &args[1..];
    match args[0].as_str() {
        "lex-replay" => lex::replay(rest),
        "lex-record" => lex::record(rest),
        "lex-history" => lex::history(rest),
        "lex-observe" => lex::observe_file(rest),
        "parse-replay" => parse::replay(rest),
        "parse-record" => parse::record(rest),
        "parse-one" => parse::one(rest),
        "total-replay" => total::replay(rest),
        "total-record" => total::record(rest),
        "pump" => total::pump(rest),
        "pump-list" => total::pump_list(),
        "builtins-replay" => eval::builtins_replay(rest),
        "builtins-record" => eval::builtins_record(rest),
        "literal-record" => eval::literal_record(rest),
        "exec-one" => eval::exec_one(rest),
        "engine-run" => engine::run(rest),
        "conv-record" => conv::record(rest),
        "conv-replay" => conv::replay(rest),
        "conv-one" => conv::one(rest),
        "ctxapi-replay" => ctxapi::replay(rest),
        "ctxapi-record" => ctxapi::record(rest),
        "describe-child" => describe::child(rest),
        "describe-replay" => describe::replay(rest),
        "describe-record" => describe::record(rest),
        "eval-replay" => eval::eval_replay(rest),
        "eval-record" => eval::eval_record(rest),
        "determinism-replay" => eval::determinism_replay(rest),
        "reent-depth" => eval::reent_depth(rest),
        "render-replay" => parse::render_replay(rest),
        "render-record" => parse::render_record(rest),
        "render-one" => parse::render_one(rest),
        "layout-replay" => parse::layout_replay(rest),
        "paren-replay" => parse::paren_replay(rest),
        other => util::tool_error(&format!("unknown command {}", other)),
    }
}
