//! Parser family (C02, C05, C08 tables, C11, C12): replay of TLC-enumerated token strings, recording of random programs.
use crate::astjson::*;
use crate::util::*;
use expression_engine::{parse_expression, verif_hooks, InfixOpAssociativity, InfixOpType};
use rand::Rng;
use serde_json::{json, Value as J};
use std::collections::HashMap;
use std::sync::Arc;

/// Register user operators from a JSON file: [[name, precedence, "L"|"R"], ...] (marker handlers).
pub fn register_ops_file(path: &str) {
    let txt = std::fs::read_to_string(path).unwrap_or_else(|e| tool_error(&format!("{}: {}", path, e)));
    let ops: J = serde_json::from_str(&txt).unwrap_or_else(|e| tool_error(&format!("{}: {}", path, e)));
    for o in ops.as_array().unwrap() {
        let name = o[0].as_str().unwrap();
        let prec = o[1].as_i64().unwrap() as i32;
        let assoc = if o[2] == "R" { InfixOpAssociativity::RIGHT } else { InfixOpAssociativity::LEFT };
        let ty = if o.get(3).map(|t| t == "SETTER").unwrap_or(false) { InfixOpType::SETTER } else { InfixOpType::CALC };
        expression_engine::register_infix_op(name, prec, ty, assoc, Arc::new(|a, _| Ok(a)));
    }
}

const NUMS: &[&str] = &["1", "42", "0.5", "1.10", "7", "1234567890123456789012345678", "0.0000000000000000000000000001", "3.", "007",
                       // around the integer types' edges (a literal is a decimal, not an i64 / u64)
                       "9223372036854775807", "9223372036854775808", "9999999999999999999", "18446744073709551616", "4294967296", "79228162514264337593543950335"];
const STRS: &[&str] = &["'a'", "\"b c\"", "''", "'x\"y'", "\"it's\"", "'é€😀'", "' 1 + 2 '", "'(,;'", "','", "':'", "')'", "']'", "'}'", "';'", "\",\"", "'?'",
                       // no escape sequences exist: a backslash is a character like any other, also right before the closing quote
                       "'C:\\temp'", "'a\nb'", "'tab\there'", "'C:\\'", "\"\\\"", "'\\n'"];
const NAME_TAILS: &[&str] = &["", "", "1", "_t", ".b", "_9.q"];
const NAME_HEADS: &[&str] = &["", "", "", "é", "@", "_"];

pub struct Concretizer {
    pub seed: u64,
}

impl Concretizer {
    /// Concrete spelling for an abstract token; the same abstract text always gets the same spelling within one case.
    fn spell(&self, kind: &str, text: &str, case: u64, memo: &mut HashMap<(String, String), String>, rng: &mut impl Rng) -> String {
        let key = (kind.to_string(), text.to_string());
        if let Some(s) = memo.get(&key) {
            return s.clone();
        }
        let _ = case;
        let s = match kind {
            "num" => {
                if text == "n" || text.starts_with("n") && text[1..].chars().all(|c| c.is_ascii_digit()) {
                    // distinct abstract numbers get distinct spellings
                    let used: Vec<String> = memo.values().cloned().collect();
                    let mut pick = NUMS[rng.gen_range(0..NUMS.len())].to_string();
                    let mut tries = 0;
                    while used.contains(&pick) && tries < 50 {
                        pick = format!("{}", rng.gen_range(2..9999));
                        tries += 1;
                    }
                    pick
                } else {
                    text.to_string()
                }
            }
            "str" => {
                if text == "s" {
                    STRS[rng.gen_range(0..STRS.len())].to_string()
                } else {
                    format!("'{}'", text)
                }
            }
            "bool" => {
                if text == "true" {
                    ["true", "True"][rng.gen_range(0..2)].to_string()
                } else {
                    ["false", "False"][rng.gen_range(0..2)].to_string()
                }
            }
            "ref" | "fun" => {
                let tail = NAME_TAILS[rng.gen_range(0..NAME_TAILS.len())];
                let head = NAME_HEADS[rng.gen_range(0..NAME_HEADS.len())];
                let cand = format!("{}{}{}", head, text, tail);
                let used: Vec<String> = memo.values().cloned().collect();
                if used.contains(&cand) || is_reserved(&cand) { text.to_string() } else { cand }
            }
            // text the tokenizer cannot tokenize; it is always the last token of a string (the machine reads nothing behind it)
            "bad" => ["1e5", "2e", "1.2.3", "'abc", "\"x ]", "3.e1"][rng.gen_range(0..6)].to_string(),
            _ => text.to_string(),
        };
        memo.insert(key, s.clone());
        s
    }
}

fn is_reserved(w: &str) -> bool {
    matches!(w, "in" | "not" | "true" | "True" | "false" | "False" | "beginWith" | "endWith" | "AND" | "OR" | "hi")
}

/// Canonical AST-leaf text the engine will produce for a concrete spelling.
fn canonical(kind: &str, spelled: &str) -> String {
    match kind {
        "num" => {
            use std::str::FromStr;
            rust_decimal::Decimal::from_str(spelled).map(|d| d.to_string()).unwrap_or_else(|_| spelled.to_string())
        }
        "str" => {
            let cs: Vec<char> = spelled.chars().collect();
            esc(&cs[1..cs.len() - 1].iter().collect::<String>())
        }
        "bool" => spelled.to_lowercase(),
        _ => esc(spelled),
    }
}

/// Token strings the real lexer cannot produce from any text: a function-name token not followed by `(`,
/// a reference directly followed by `(`.
fn realizable(toks: &[J]) -> bool {
    for (i, t) in toks.iter().enumerate() {
        let next_is_lp = toks.get(i + 1).map(|n| n[0] == "delim" && n[1] == "(").unwrap_or(false);
        if t[0] == "fun" && !next_is_lp {
            return false;
        }
        if t[0] == "ref" && next_is_lp {
            return false;
        }
    }
    true
}

pub struct Case {
    pub text: String,
    pub back: HashMap<(String, String), String>, // (leaf kind, canonical concrete text) -> abstract text
}

pub fn concretize(toks: &[J], seed: u64, case: u64, sep: &dyn Fn(usize) -> String) -> Case {
    let c = Concretizer { seed };
    let mut rng = rng(seed, 1000 + case);
    let mut memo = HashMap::new();
    let mut back = HashMap::new();
    let mut text = String::new();
    for (i, t) in toks.iter().enumerate() {
        let (kind, abs) = (t[0].as_str().unwrap(), t[1].as_str().unwrap());
        let sp = c.spell(kind, abs, case, &mut memo, &mut rng);
        if matches!(kind, "num" | "str" | "bool" | "ref" | "fun") {
            back.insert((kind.to_string(), canonical(kind, &sp)), abs.to_string());
        }
        if i > 0 {
            text.push_str(&sep(i));
        }
        text.push_str(&sp);
    }
    Case { text, back }
}

pub fn parse_observe(text: &str) -> (bool, bool, J) {
    let owned = text.to_string();
    match guarded(move || parse_expression(leak(&owned)).map(|a| ast_to_json(&a))) {
        Err(_) => (false, true, J::Null),
        Ok(Err(_)) => (false, false, J::Null),
        Ok(Ok(j)) => (true, false, j),
    }
}

/// The Error variant the parser reports for a rejected text (name only), None when it accepts or panics.
pub fn parse_error_variant(text: &str) -> Option<String> {
    let owned = text.to_string();
    match guarded(move || parse_expression(leak(&owned)).map(|_| ())) {
        Ok(Err(e)) => {
            let d = format!("{:?}", e);
            Some(d.split(|c: char| !(c.is_alphanumeric() || c == '_')).next().unwrap_or("").to_string())
        }
        _ => None,
    }
}

fn conforms(verdict: &str, exp_ast: &J, ok: bool, ast: &J) -> bool {
    match verdict {
        "MustAccept" => ok && ast == exp_ast,
        "MayAccept" => !ok || ast == exp_ast,
        "Unspecified" => true,
        "MustReject" => !ok,
        _ => false,
    }
}

/// Replay TLC-enumerated token strings: each line {toks:[[kind,text]], ok, ast, v}.
pub fn replay(args: &[String]) {
    silence_panics();
    let path = &args[0];
    let seed = arg_u64(args, "--seed", 1);
    let recs = read_ndjson(path);
    if let Some(f) = arg_value(args, "--pre-ops-file") {
        // registration history: the same names registered first with another configuration, every sentence parsed once, then replaced
        register_ops_file(&f);
        for (idx, r) in recs.iter().enumerate() {
            let toks = r["toks"].as_array().unwrap();
            if realizable(toks) {
                let case = concretize(toks, seed, idx as u64, &|_| " ".to_string());
                let _ = parse_observe(&case.text);
            }
        }
    }
    if let Some(f) = arg_value(args, "--ops-file") {
        register_ops_file(&f);
    }
    let emit_ast = args.iter().any(|a| a == "--emit-ast");
    let mut out = Out::new(None);
    let (mut n, mut bad, mut skipped, mut unspec) = (0u64, 0u64, 0u64, 0u64);
    let mut by_verdict: HashMap<String, u64> = HashMap::new();
    // informational projection: which Error variant a rejection carries (no listed property fixes it, so a
    // difference is reported as drift, never as a violation)
    let (mut variant_agree, mut variant_differ) = (0u64, 0u64);
    let mut by_variant: HashMap<String, u64> = HashMap::new();
    for (idx, r) in recs.iter().enumerate() {
        let toks = r["toks"].as_array().unwrap();
        if !realizable(toks) {
            skipped += 1;
            continue;
        }
        let v = r["v"].as_str().unwrap();
        *by_verdict.entry(v.to_string()).or_insert(0) += 1;
        if v == "Unspecified" {
            unspec += 1;
        }
        let case = concretize(toks, seed, idx as u64, &|_| " ".to_string());
        let (ok, panicked, ast) = parse_observe(&case.text);
        n += 1;
        let abs = if ok { map_leaves(&ast, &|k, t| case.back.get(&(k.to_string(), t.to_string())).cloned().unwrap_or_else(|| format!("?{}", t))) } else { J::Null };
        // the specification's own machine must agree with the real parser wherever the verdict pins the outcome
        if emit_ast {
            out.line(&json!({"parsed": idx, "ok": ok, "panic": panicked, "ast": abs, "text": case.text}));
        }
        let good = !panicked && conforms(v, &r["ast"], ok, &abs);
        if good && !ok && r["ast"][0] == "error" {
            if let (Some(spec), Some(got)) = (r["ast"][1].as_str(), parse_error_variant(&case.text)) {
                *by_variant.entry(got.clone()).or_insert(0) += 1;
                if spec == got || (spec == "LexicalError" && (got == "InvalidNumber" || got == "UnterminatedString")) {
                    variant_agree += 1;
                } else {
                    variant_differ += 1;
                    if variant_differ <= 10 {
                        out.line(&json!({"variant_drift": idx, "text": case.text, "spec": spec, "impl": got}));
                    }
                }
            }
        }
        if !good {
            bad += 1;
            out.line(&json!({"mismatch": idx, "text": case.text, "verdict": v, "why": if panicked {"panic"} else if ok {"tree or acceptance differs"} else {"rejected"},
                             "expected_ast": r["ast"], "got_ok": ok, "got_ast": abs, "panic": panicked}));
        }
    }
    out.line(&json!({"summary": {"replayed": n, "mismatches": bad, "unrealizable": skipped, "unspecified": unspec, "by_verdict": by_verdict,
                                 "variant_agree": variant_agree, "variant_differ": variant_differ, "by_variant": by_variant}}));
    out.flush();
}

// ---------------------------------------------------------------------------------------------
// Leg T: random programs rendered from random trees by a generator that is *not* trusted: the oracle
// is the reference grammar applied to the token sequence hook H1 reports.

const INFIX: &[&str] = &[
    "=", "+=", "-=", "*=", "/=", "%=", "<<=", ">>=", "&=", "^=", "|=", "||", "&&", "<", "<=", ">", ">=", "==", "!=", "|", "^", "&", "<<", ">>", "+",
    "-", "*", "/", "%", "beginWith", "endWith", "in",
];
const PREFIX: &[&str] = &["-", "+", "!", "not", "AND", "OR", "-", "!", "++", "--"];
const POSTFIX: &[&str] = &["++", "--"];

fn gen_expr(rng: &mut impl Rng, depth: u32, out: &mut Vec<String>, user_ops: &[String]) {
    let r = rng.gen_range(0..100);
    if depth == 0 || r < 22 {
        gen_atom(rng, depth, out, user_ops);
        return;
    }
    match r {
        22..=62 => {
            // chain of infix operators, occasionally negated, operands sometimes parenthesised
            let n = rng.gen_range(1..5);
            gen_operand(rng, depth - 1, out, user_ops);
            for _ in 0..n {
                if rng.gen_bool(0.12) {
                    out.push("not".into());
                }
                let op = if !user_ops.is_empty() && rng.gen_bool(0.3) { user_ops[rng.gen_range(0..user_ops.len())].clone() } else { INFIX[rng.gen_range(0..INFIX.len())].to_string() };
                out.push(op);
                gen_operand(rng, depth - 1, out, user_ops);
            }
        }
        63..=72 => {
            gen_operand(rng, depth - 1, out, user_ops);
            out.push("?".into());
            gen_expr(rng, depth - 1, out, user_ops);
            out.push(":".into());
            gen_expr(rng, depth - 1, out, user_ops);
        }
        73..=82 => {
            out.push(PREFIX[rng.gen_range(0..PREFIX.len())].into());
            gen_operand(rng, depth - 1, out, user_ops);
        }
        _ => gen_atom(rng, depth, out, user_ops),
    }
}

fn gen_operand(rng: &mut impl Rng, depth: u32, out: &mut Vec<String>, user_ops: &[String]) {
    match rng.gen_range(0..10) {
        0..=1 => {
            out.push("(".into());
            gen_expr(rng, depth, out, user_ops);
            out.push(")".into());
        }
        2 => {
            out.push(PREFIX[rng.gen_range(0..PREFIX.len())].into());
            gen_atom(rng, depth, out, user_ops);
        }
        _ => gen_atom(rng, depth, out, user_ops),
    }
    if rng.gen_bool(0.1) {
        out.push(POSTFIX[rng.gen_range(0..2)].into());
    }
}

fn gen_atom(rng: &mut impl Rng, depth: u32, out: &mut Vec<String>, user_ops: &[String]) {
    match rng.gen_range(0..20) {
        0..=5 => out.push(NUMS[rng.gen_range(0..NUMS.len())].into()),
        6..=10 => out.push(["a", "b", "x", "y", "cfg.limit", "_t", "éa"][rng.gen_range(0..7)].into()),
        11..=12 => out.push(STRS[rng.gen_range(0..STRS.len())].into()),
        13 => out.push(["true", "False"][rng.gen_range(0..2)].into()),
        14..=15 if depth > 0 => {
            out.push(["f", "min", "g2"][rng.gen_range(0..3)].into());
            out.push("(".into());
            let n = rng.gen_range(0..4);
            for i in 0..n {
                if i > 0 {
                    out.push(",".into());
                }
                gen_expr(rng, depth - 1, out, user_ops);
            }
            out.push(")".into());
        }
        16..=17 if depth > 0 => {
            out.push("[".into());
            let n = rng.gen_range(0..4);
            for i in 0..n {
                if i > 0 {
                    out.push(",".into());
                }
                gen_expr(rng, depth - 1, out, user_ops);
            }
            if n > 0 && rng.gen_bool(0.1) {
                out.push(",".into());
            }
            out.push("]".into());
        }
        18 if depth > 0 => {
            out.push("{".into());
            let n = rng.gen_range(0..3);
            for i in 0..n {
                if i > 0 {
                    out.push(",".into());
                }
                gen_expr(rng, depth - 1, out, user_ops);
                out.push(":".into());
                gen_expr(rng, depth - 1, out, user_ops);
            }
            out.push("}".into());
        }
        _ => out.push(NUMS[rng.gen_range(0..NUMS.len())].into()),
    }
}

pub fn gen_program(rng: &mut impl Rng, user_ops: &[String]) -> Vec<String> {
    let mut out = Vec::new();
    let stmts = rng.gen_range(1..4);
    for i in 0..stmts {
        if i > 0 {
            out.push(";".into());
        }
        let depth = rng.gen_range(1..5);
        gen_expr(rng, depth, &mut out, user_ops);
    }
    if rng.gen_bool(0.05) {
        out.push(";".into());
    }
    out
}

/// Corrupt a token list: delete / insert / replace / swap a delimiter (C05 leg T).
pub fn corrupt(rng: &mut impl Rng, toks: &mut Vec<String>) {
    const JUNK: &[&str] = &["(", ")", "[", "]", "{", "}", ",", ";", ":", "?", "+", "not", "in", "1", "x", "++", "!", "=="];
    // one edit in five: a separator / closer / opener replaced by a STRING whose content is that very text (a token is what it is
    // by kind, never by what it spells)
    if rng.gen_bool(0.2) {
        let spots: Vec<usize> = toks.iter().enumerate().filter(|(_, t)| matches!(t.as_str(), "," | ":" | ";" | ")" | "]" | "}" | "(" | "?")).map(|(i, _)| i).collect();
        if !spots.is_empty() {
            let i = spots[rng.gen_range(0..spots.len())];
            toks[i] = format!("'{}'", toks[i]);
            return;
        }
    }
    let edits = rng.gen_range(1..3);
    for _ in 0..edits {
        if toks.is_empty() {
            toks.push(JUNK[rng.gen_range(0..JUNK.len())].into());
            continue;
        }
        let i = rng.gen_range(0..toks.len());
        match rng.gen_range(0..4) {
            0 => {
                toks.remove(i);
            }
            1 => toks.insert(i, JUNK[rng.gen_range(0..JUNK.len())].into()),
            2 => toks[i] = JUNK[rng.gen_range(0..JUNK.len())].into(),
            _ => {
                let t = match toks[i].as_str() {
                    "(" => "[", ")" => "]", "[" => "{", "]" => ")", "{" => "(", "}" => "]", "," => ";", ";" => ",", ":" => ",", "?" => ":",
                    other => if rng.gen_bool(0.5) { "," } else { other },
                };
                toks[i] = t.to_string();
            }
        }
    }
}

/// Character-level corruption of a program text: delete, insert or replace one or two characters.
pub fn corrupt_chars(rng: &mut impl Rng, text: &str) -> String {
    const JUNK: &[char] = &['\'', '"', '.', 'e', '1', '(', ')', '[', ']', '{', '}', ',', ';', ':', '?', ' ', '+', '=', 'n', 'é', '\\'];
    let mut cs: Vec<char> = text.chars().collect();
    // now and then damage a number literal specifically: a second point, an exponent, a doubled point
    if rng.gen_bool(0.25) {
        if let Some(p) = cs.iter().position(|c| c.is_ascii_digit()) {
            let ins: &[char] = [&['.', '5', '.', '1'][..], &['e', '5'][..], &['.', '.', '2'][..], &['e'][..], &['.', '2', '.'][..]][rng.gen_range(0..5)];
            let mut q = p;
            while q < cs.len() && (cs[q].is_ascii_digit() || cs[q] == '.') {
                q += 1;
            }
            for (k, c) in ins.iter().enumerate() {
                cs.insert(q + k, *c);
            }
            return cs.into_iter().collect();
        }
    }
    // now and then a lexically invalid token right behind a closing delimiter (its error may not be lost with the closer)
    if rng.gen_bool(0.1) {
        let spots: Vec<usize> = cs.iter().enumerate().filter(|(_, c)| matches!(**c, ']' | ')' | '}')).map(|(i, _)| i).collect();
        if !spots.is_empty() {
            let at = spots[rng.gen_range(0..spots.len())] + 1;
            let ins: Vec<char> = [" 1e5", "'abc", " 2e", "\"x", " 1.2.3"][rng.gen_range(0..5)].chars().collect();
            for (k, c) in ins.iter().enumerate() {
                cs.insert(at + k, *c);
            }
            return cs.into_iter().collect();
        }
    }
    // now and then a word operator glued to what follows (then it is a name, not an operator: the whole run up to the next blank counts)
    if rng.gen_bool(0.1) {
        let text: String = cs.iter().collect();
        for w in [" in ", " beginWith ", " endWith ", " not in "] {
            if let Some(p) = text.find(w) {
                let after = text[p + w.len()..].chars().next();
                if matches!(after, Some('\'') | Some('"') | Some('-') | Some('!') | Some('[') | Some('(')) || rng.gen_bool(0.3) {
                    let mut t = text.clone();
                    t.remove(p + w.len() - 1);
                    return t;
                }
            }
        }
    }
    // now and then a blank the engine does NOT treat as white space (NBSP, VT, FF, EM SPACE) in place of an ordinary one, and a surplus closer
    if rng.gen_bool(0.2) {
        const BLANKS: &[char] = &['\u{A0}', '\u{B}', '\u{C}', '\u{2003}', '\u{85}', '\u{3000}', '\u{2020}', '\u{120}', '\u{10A}', '\u{2009}', '\u{200D}', '\u{10D}', '\u{2028}'];
        let spots: Vec<usize> = cs.iter().enumerate().filter(|(_, c)| **c == ' ').map(|(i, _)| i).collect();
        if !spots.is_empty() {
            cs[spots[rng.gen_range(0..spots.len())]] = BLANKS[rng.gen_range(0..BLANKS.len())];
            if rng.gen_bool(0.5) {
                let at = rng.gen_range(0..=cs.len());
                cs.insert(at, [')', ']', '}'][rng.gen_range(0..3)]);
            }
            return cs.into_iter().collect();
        }
    }
    for _ in 0..rng.gen_range(1..3) {
        if cs.is_empty() {
            cs.push(JUNK[rng.gen_range(0..JUNK.len())]);
            continue;
        }
        let i = rng.gen_range(0..cs.len());
        match rng.gen_range(0..3) {
            0 => {
                cs.remove(i);
            }
            1 => cs.insert(i, JUNK[rng.gen_range(0..JUNK.len())]),
            _ => cs[i] = JUNK[rng.gen_range(0..JUNK.len())],
        }
    }
    cs.into_iter().collect()
}

fn tokens_of(text: &str) -> Option<Vec<J>> {
    // token sequence as the real tokenizer sees it (hook H1); texts escaped; numbers canonical; booleans lower-case
    let owned = text.to_string();
    match guarded(move || verif_hooks::tokenize(&owned)) {
        Ok(Ok(toks)) => Some(toks.iter().map(|(k, t, _, _)| json!([k, esc(t)])).collect()),
        _ => None,
    }
}

/// Record: {text, toks (H1), lex_ok, ok, panic, ast}
pub fn record(args: &[String]) {
    silence_panics();
    let seed = arg_u64(args, "--seed", 1);
    let n = arg_u64(args, "--n", 500);
    let corrupt_pct = arg_u64(args, "--corrupt", 0);
    let char_corrupt_pct = arg_u64(args, "--charcorrupt", 0);
    let random_layout = args.iter().any(|a| a == "--layout");
    let mut user_ops: Vec<String> = Vec::new();
    if let Some(f) = arg_value(args, "--ops-file") {
        register_ops_file(&f);
        let ops: J = serde_json::from_str(&std::fs::read_to_string(&f).unwrap()).unwrap();
        user_ops = ops.as_array().unwrap().iter().map(|o| o[0].as_str().unwrap().to_string()).collect();
    }
    verif_hooks::init();
    let mut out = Out::new(arg_value(args, "--out").as_deref());
    let mut rng = rng(seed, 20);
    for _ in 0..n {
        let mut toks = gen_program(&mut rng, &user_ops);
        if rng.gen_range(0..100) < corrupt_pct {
            corrupt(&mut rng, &mut toks);
        }
        // layout: single spaces (other layouts are C11's)
        let mut text = toks.join(" ");
        if random_layout {
            // whitespace strings over {space, tab, CR, LF} at every gap; nothing at all next to a delimiter (sometimes)
            let isd = |t: &String| matches!(t.as_str(), "(" | ")" | "[" | "]" | "{" | "}");
            text = String::new();
            for (i, t) in toks.iter().enumerate() {
                let near = i > 0 && (isd(&toks[i - 1]) || isd(t));
                if i == 0 || near {
                    if rng.gen_bool(0.6) {
                        text.push_str(GAPS[rng.gen_range(0..GAPS.len())]);
                    }
                } else {
                    text.push_str(GAPS[rng.gen_range(0..GAPS.len())]);
                }
                text.push_str(t);
            }
            if rng.gen_bool(0.5) {
                text.push_str(GAPS[rng.gen_range(0..GAPS.len())]);
            }
        }
        if rng.gen_range(0..100) < char_corrupt_pct {
            text = corrupt_chars(&mut rng, &text);
        }
        let lexed = tokens_of(&text);
        let (ok, panicked, ast) = parse_observe(&text);
        out.line(&json!({"text": esc(&text), "lex_ok": lexed.is_some(), "toks": lexed.unwrap_or_default(), "ok": ok, "panic": panicked,
                         "ast": if ok { ast } else { json!([]) }}));
    }
    out.flush();
}

/// Parse one program given on the command line (replay of a trace-found case).
pub fn one(args: &[String]) {
    silence_panics();
    if let Some(f) = arg_value(args, "--ops-file") {
        register_ops_file(&f);
    }
    // the program text is stored escaped
    let text = unesc(&args[0]);
    let (ok, panicked, ast) = parse_observe(&text);
    println!("{}", json!({"ok": ok, "panic": panicked, "ast": if ok { ast } else { json!([]) }}));
}

// ---------------------------------------------------------------------------------------------
// C12: expr() round trip.  C11: layouts and redundant parentheses.

/// Checks on one parsed tree: expr() re-parses to the same tree, rendering is idempotent, describe() returns.
/// Returns (reason of failure if any, trace record for TLC: the tokens of the rendered text with the tree it must mean).
fn render_check(text: &str) -> Option<(Option<String>, J)> {
    let src = leak(text);
    let t = match guarded(move || parse_expression(src)) {
        Ok(Ok(t)) => t,
        _ => return None,
    };
    let t2 = t.clone();
    let rendered = match guarded(move || (t2.expr(), t2.describe())) {
        Ok((s, _)) => s,
        Err(_) => return Some((Some("expr() or describe() panicked".into()), J::Null)),
    };
    let s2 = leak(&rendered);
    let mut why = None;
    match guarded(move || parse_expression(s2)) {
        Ok(Ok(p2)) => {
            if p2 != t {
                why = Some(format!("expr() = {:?} re-parses to a different tree", rendered));
            } else {
                let s3 = p2.expr();
                if s3 != rendered {
                    why = Some(format!("rendering not idempotent: {:?} then {:?}", rendered, s3));
                }
            }
        }
        Ok(Err(e)) => why = Some(format!("expr() = {:?} is rejected: {}", rendered, e)),
        Err(_) => why = Some(format!("parse of expr() = {:?} panicked", rendered)),
    }
    let lexed = tokens_of(&rendered);
    let rec = json!({"text": esc(&rendered), "lex_ok": lexed.is_some(), "toks": lexed.unwrap_or_default(), "ok": true, "panic": false, "ast": ast_to_json(&t), "from": esc(text)});
    Some((why, rec))
}

/// C12 leg R: every accepted behaviour TLC enumerated, concretised, parsed, rendered, re-parsed.
pub fn render_replay(args: &[String]) {
    silence_panics();
    let seed = arg_u64(args, "--seed", 1);
    let recs = read_ndjson(&args[0]);
    if let Some(f) = arg_value(args, "--pre-ops-file") {
        // registration history: the same operator names are first registered with OTHER precedences and associativities, every
        // program is parsed and rendered once under that table (on this thread), and only then the table under test is registered
        register_ops_file(&f);
        for (idx, r) in recs.iter().enumerate() {
            let toks = r["toks"].as_array().unwrap();
            if realizable(toks) {
                let case = concretize(toks, seed, idx as u64, &|_| " ".to_string());
                let _ = render_check(&case.text);
            }
        }
    }
    if let Some(f) = arg_value(args, "--ops-file") {
        register_ops_file(&f);
    }
    let mut out = Out::new(None);
    let mut trace = Out::new(arg_value(args, "--trace-out").as_deref());
    let (mut n, mut bad, mut skipped) = (0u64, 0u64, 0u64);
    for (idx, r) in recs.iter().enumerate() {
        let toks = r["toks"].as_array().unwrap();
        if !r["ok"].as_bool().unwrap() || r["v"] == "Unspecified" || !realizable(toks) {
            skipped += 1;
            continue;
        }
        let case = concretize(toks, seed, idx as u64, &|_| " ".to_string());
        match render_check(&case.text) {
            None => skipped += 1, // the parser rejected a MayAccept string (allowed) or diverges (C02/C05 report that)
            Some((why, rec)) => {
                n += 1;
                if let Some(w) = why {
                    bad += 1;
                    out.line(&json!({"mismatch": idx, "text": case.text, "why": w}));
                }
                if !rec.is_null() {
                    trace.line(&rec);
                }
            }
        }
    }
    trace.flush();
    out.line(&json!({"summary": {"checked": n, "mismatches": bad, "skipped": skipped}}));
    out.flush();
}

/// C12 leg T: random programs.
pub fn render_record(args: &[String]) {
    silence_panics();
    let seed = arg_u64(args, "--seed", 1);
    let n = arg_u64(args, "--n", 500);
    let mut user_ops: Vec<String> = Vec::new();
    if let Some(f) = arg_value(args, "--ops-file") {
        register_ops_file(&f);
        let ops: J = serde_json::from_str(&std::fs::read_to_string(&f).unwrap()).unwrap();
        user_ops = ops.as_array().unwrap().iter().map(|o| o[0].as_str().unwrap().to_string()).collect();
    }
    let mut out = Out::new(None);
    let mut trace = Out::new(arg_value(args, "--trace-out").as_deref());
    let mut rng = rng(seed, 30);
    let (mut checked, mut bad) = (0u64, 0u64);
    for k in 0..n {
        let toks = gen_program(&mut rng, &user_ops);
        let text = toks.join(" ");
        if let Some((why, rec)) = render_check(&text) {
            checked += 1;
            if let Some(w) = why {
                bad += 1;
                out.line(&json!({"mismatch": k, "text": text, "why": w}));
            }
            if !rec.is_null() {
                trace.line(&rec);
            }
        }
    }
    trace.flush();
    out.line(&json!({"summary": {"checked": checked, "mismatches": bad, "skipped": n - checked}}));
    out.flush();
}

const GAPS: &[&str] = &[" ", "\t", "\r", "\n", "  ", " \n\t ", "\r\n"];

fn is_delim_tok(t: &J) -> bool {
    t[0] == "delim"
}

/// C11 leg R: layouts.  For each accepted record: the single-space layout is the reference; every other layout
/// (whitespace strings over {space, tab, CR, LF} at every gap, nothing at all next to a delimiter) must give the
/// same token kinds/texts and the same tree.
pub fn layout_replay(args: &[String]) {
    silence_panics();
    let seed = arg_u64(args, "--seed", 1);
    let layouts = arg_u64(args, "--layouts", 4);
    if let Some(f) = arg_value(args, "--ops-file") {
        register_ops_file(&f);
    }
    let recs = read_ndjson(&args[0]);
    let mut out = Out::new(None);
    let mut trace = Out::new(arg_value(args, "--trace-out").as_deref());
    let mut tight_out = Out::new(Some(&arg_value(args, "--tight-out").unwrap_or("/dev/null".to_string())));
    let (mut n, mut bad, mut skipped, mut variants) = (0u64, 0u64, 0u64, 0u64);
    for (idx, r) in recs.iter().enumerate() {
        let toks = r["toks"].as_array().unwrap();
        if !r["ok"].as_bool().unwrap() || r["v"] == "Unspecified" || !realizable(toks) || toks.is_empty() {
            skipped += 1;
            continue;
        }
        let base = concretize(toks, seed, idx as u64, &|_| " ".to_string());
        let (ok0, p0, ast0) = parse_observe(&base.text);
        if !ok0 || p0 {
            skipped += 1;
            continue;
        }
        let toks0 = tokens_of(&base.text);
        n += 1;
        let mut lrng = rng(seed, 5000 + idx as u64);
        for l in 0..layouts {
            let gaps: Vec<String> = (0..toks.len() + 1)
                .map(|i| {
                    let edge = i == 0 || i == toks.len();
                    let near_delim = !edge && (is_delim_tok(&toks[i - 1]) || is_delim_tok(&toks[i]));
                    if (edge || near_delim) && lrng.gen_bool(0.4) { String::new() } else { GAPS[lrng.gen_range(0..GAPS.len())].to_string() }
                })
                .collect();
            let v = concretize(toks, seed, idx as u64, &|i| gaps[i].clone());
            let text = format!("{}{}{}", gaps[0], v.text, gaps[toks.len()]);
            let (ok, pn, ast) = parse_observe(&text);
            let tk = tokens_of(&text);
            variants += 1;
            if pn || !ok || ast != ast0 || tk != toks0 {
                bad += 1;
                out.line(&json!({"mismatch": idx, "layout": l, "text": text, "base": base.text,
                                 "why": if pn {"panic"} else if !ok {"rejected under another layout"} else if tk != toks0 {"token kinds/texts changed"} else {"tree changed"}}));
            }
            if l == 0 {
                trace.line(&json!({"text": esc(&text), "lex_ok": tk.is_some(), "toks": tk.unwrap_or_default(), "ok": ok, "panic": pn, "ast": if ok { ast } else { json!([]) }}));
            }
        }
        // the bare program and its fully parenthesised twin are the same tree (C11): where the record carries the specified tree of a
        // sentence the grammar pins down, the single-space layout must already give it
        if r["v"] == "MustAccept" && r.get("src").is_some() {
            let abs0 = map_leaves(&ast0, &|k, t| base.back.get(&(k.to_string(), t.to_string())).cloned().unwrap_or_else(|| format!("?{}", t)));
            if abs0 != r["ast"] {
                bad += 1;
                out.line(&json!({"mismatch": idx, "layout": "base", "text": base.text, "base": base.text, "why": "the bare form and the fully parenthesised form of one tree parse differently"}));
            }
        }
        // white space dropped without asking the real tokenizer: the check decides with the Lexer specification which of these
        // variants still are the same token sequence, and those must parse exactly like the base
        for tight in 0..2 {
            let gaps: Vec<String> = (0..toks.len() + 1).map(|i| if i == 0 || i == toks.len() || tight == 0 || lrng.gen_bool(0.5) { String::new() } else { " ".to_string() }).collect();
            let v = concretize(toks, seed, idx as u64, &|j| gaps[j].clone());
            if v.text == base.text {
                continue;
            }
            let (ok, pn, ast) = parse_observe(&v.text);
            tight_out.line(&json!({"idx": idx, "base": esc(&base.text), "tight": esc(&v.text), "same_parse": !pn && ok && ast == ast0, "tight_ok": ok, "tight_panic": pn}));
        }
        // tight layouts: white space is dropped wherever the tokenizer (hook H1; judged on its own by C10) still reports the same
        // tokens, first greedily at every boundary and then at a random half of the boundaries
        for tight in 0..2 {
            let mut gaps: Vec<String> = (0..toks.len() + 1).map(|i| if i == 0 || i == toks.len() { String::new() } else { " ".to_string() }).collect();
            for i in 1..toks.len() {
                if tight == 1 && lrng.gen_bool(0.5) {
                    continue;
                }
                let keep = std::mem::take(&mut gaps[i]);
                let v = concretize(toks, seed, idx as u64, &|j| gaps[j].clone());
                if tokens_of(&v.text) != toks0 {
                    gaps[i] = keep;
                }
            }
            let v = concretize(toks, seed, idx as u64, &|j| gaps[j].clone());
            if v.text == base.text {
                continue;
            }
            let (ok, pn, ast) = parse_observe(&v.text);
            variants += 1;
            if pn || !ok || ast != ast0 {
                bad += 1;
                out.line(&json!({"mismatch": idx, "layout": format!("tight{}", tight), "text": v.text, "base": base.text,
                                 "why": if pn {"panic"} else if !ok {"rejected once white space the tokenizer does not need is dropped"} else {"tree changed once white space the tokenizer does not need is dropped"}}));
            }
        }
    }
    trace.flush();
    tight_out.flush();
    out.line(&json!({"summary": {"checked": n, "variants": variants, "mismatches": bad, "skipped": skipped}}));
    out.flush();
}

/// C11 leg R: paren multiplicity.  Each record is a token string with redundant parentheses around every
/// sub-expression (Render!Wrap, k = 1); every parenthesis is written `mult` times.
pub fn paren_replay(args: &[String]) {
    silence_panics();
    let seed = arg_u64(args, "--seed", 1);
    let mult = arg_u64(args, "--mult", 2) as usize;
    let single = args.iter().any(|a| a == "--single");
    if let Some(f) = arg_value(args, "--ops-file") {
        register_ops_file(&f);
    }
    let recs = read_ndjson(&args[0]);
    let mut out = Out::new(None);
    let (mut n, mut bad, mut toodeep) = (0u64, 0u64, 0u64);
    for (idx, r) in recs.iter().enumerate() {
        let toks = r["toks"].as_array().unwrap();
        // multiply only parentheses that are *not* call parentheses; with --single only one (seeded) pair
        let mut multiplied: Vec<J> = Vec::new();
        let mut stack: Vec<(bool, usize)> = Vec::new(); // (is_call, pair number)
        let npairs = toks.iter().enumerate().filter(|(i, t)| t[0] == "delim" && t[1] == "(" && !(*i > 0 && toks[*i - 1][0] == "fun")).count();
        let chosen = if single && npairs > 0 { Some(rng(seed, 7000 + idx as u64).gen_range(0..npairs)) } else { None };
        let mut pair_no = 0usize;
        for (i, t) in toks.iter().enumerate() {
            if t[0] == "delim" && t[1] == "(" {
                let is_call = i > 0 && toks[i - 1][0] == "fun";
                let me = pair_no;
                if !is_call {
                    pair_no += 1;
                }
                stack.push((is_call, me));
                let m = if is_call { 1 } else if single { if chosen == Some(me) { mult } else { 1 } } else { mult };
                for _ in 0..m {
                    multiplied.push(t.clone());
                }
            } else if t[0] == "delim" && t[1] == ")" {
                let (is_call, me) = stack.pop().unwrap_or((false, usize::MAX));
                let m = if is_call { 1 } else if single { if chosen == Some(me) { mult } else { 1 } } else { mult };
                for _ in 0..m {
                    multiplied.push(t.clone());
                }
            } else {
                multiplied.push(t.clone());
            }
        }
        let case = concretize(&multiplied, seed, idx as u64, &|_| " ".to_string());
        let (ok, pn, ast) = parse_observe(&case.text);
        n += 1;
        let abs = if ok { map_leaves(&ast, &|k, t| case.back.get(&(k.to_string(), t.to_string())).cloned().unwrap_or_else(|| format!("?{}", t))) } else { J::Null };
        if pn || (ok && abs != r["ast"]) {
            bad += 1;
            out.line(&json!({"mismatch": idx, "text": case.text, "why": if pn {"panic"} else {"tree changed by redundant parentheses"}, "ntoks": multiplied.len()}));
        } else if !ok {
            // rejected: only the nesting budget may do that, and only for long inputs (the grammar's TokenFloor)
            if multiplied.len() <= 200 {
                bad += 1;
                out.line(&json!({"mismatch": idx, "text": case.text, "why": "rejected with redundant parentheses", "ntoks": multiplied.len()}));
            } else {
                toodeep += 1;
            }
        }
    }
    out.line(&json!({"summary": {"checked": n, "mismatches": bad, "beyond_budget": toodeep}}));
    out.flush();
}

pub fn render_one(args: &[String]) {
    silence_panics();
    if let Some(f) = arg_value(args, "--pre-ops-file") {
        // an earlier registration of the same operator names, used once, then replaced
        register_ops_file(&f);
        let _ = render_check(&args[0]);
    }
    if let Some(f) = arg_value(args, "--ops-file") {
        register_ops_file(&f);
    }
    match render_check(&args[0]) {
        None => println!("{}", json!({"parsed": false})),
        Some((why, rec)) => println!("{}", json!({"parsed": true, "why": why, "expr": rec["text"]})),
    }
}
