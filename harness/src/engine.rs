//! Concurrency family (C13, C08 histories, C16): scenarios of API calls on several threads in a *fresh process*
//! (the registries and the once-cell are process-global), recorded as one totally ordered event list.
//!
//! Scenario (JSON): {"threads": [[call, ...], ...], "mode": "free" | "sched", "schedule": [thread index, ...]}
//!   call: {"op": "reg", "r": "func"|"prefix"|"infix"|"postfix", "name": .., "val": handler id [, "prec": n, "assoc": "L"|"R"]}
//!         {"op": "exec", "r": .., "name": ..}      evaluates the probe program of (r, name), see `probe_program`
//!         {"op": "parse", "r": .., "name": ..}     parses it only
//! Events: call / ret per thread, probes (init stages, first registry access of each call), handler entries, all
//! stamped with the engine's own sequence counter (verif_hooks::next_seq).
use crate::util::*;
use crate::valjson::*;
use expression_engine::{verif_hooks, Context, InfixOpAssociativity, InfixOpType, Value};
use serde_json::{json, Value as J};
use std::cell::RefCell;
use std::collections::HashMap;
use std::sync::atomic::{AtomicBool, AtomicUsize, Ordering};
use std::sync::{Arc, Condvar, Mutex};

thread_local! {
    static TID: RefCell<String> = RefCell::new(String::new());
    static FIRST_ACCESS_DONE: RefCell<bool> = RefCell::new(false);
}
static EVENTS: Mutex<Vec<J>> = Mutex::new(Vec::new());

fn tid() -> String {
    TID.with(|t| t.borrow().clone())
}

static RECORD: AtomicBool = AtomicBool::new(true);
static PANICS: AtomicUsize = AtomicUsize::new(0);
static WRONG: AtomicUsize = AtomicUsize::new(0);
static SYNC_TIMEOUTS: AtomicUsize = AtomicUsize::new(0);

fn emit(mut e: J) {
    if !RECORD.load(Ordering::Relaxed) {
        if e["ev"] == "ret" {
            let r = e["res"].as_str().unwrap_or("");
            if r.starts_with("panic") {
                PANICS.fetch_add(1, Ordering::SeqCst);
            } else if r.starts_with("other") {
                WRONG.fetch_add(1, Ordering::SeqCst);
            }
        }
        return;
    }
    let seq = verif_hooks::next_seq();
    e["seq"] = J::from(seq);
    EVENTS.lock().unwrap_or_else(|p| p.into_inner()).push(e);
}

fn emit_at(seq: u64, mut e: J) {
    if !RECORD.load(Ordering::Relaxed) {
        return;
    }
    e["seq"] = J::from(seq);
    EVENTS.lock().unwrap_or_else(|p| p.into_inner()).push(e);
}

/// The program whose result depends on exactly the registry cell (r, name), and what it yields when that cell holds
/// the built-in handler ("b") or nothing ("none").  A user handler with identity id yields Str(id).
pub fn probe_program(r: &str, name: &str) -> (String, Option<Value>, Option<Value>) {
    // (text, result with the built-in handler, result with nothing registered); None = Err
    match (r, name) {
        ("func", "min") => ("min(2)".into(), Some(Value::from(2)), None),
        ("func", "max") => ("max(2)".into(), Some(Value::from(2)), None),
        ("func", n) => (format!("{}()", n), None, None),
        ("prefix", "-") => ("- 2".into(), Some(Value::from(-2)), None),
        ("prefix", "!") => ("! true".into(), Some(Value::from(false)), None),
        ("prefix", n) => (format!("{} 7", n), None, Some(Value::from(7))),
        ("infix", "+") => ("1 + 2".into(), Some(Value::from(3)), None),
        ("infix", "*") => ("2 * 3".into(), Some(Value::from(6)), None),
        ("infix", n) => (format!("3 {} 4", n), None, Some(Value::from(4))),
        ("postfix", "++") => ("2 ++".into(), Some(Value::from(3)), None),
        ("postfix", n) => (format!("5 {}", n), None, Some(Value::None)),
        _ => tool_error("probe_program: unknown registry"),
    }
}

fn classify(r: &str, name: &str, res: &Result<expression_engine::Result<Value>, String>) -> String {
    let (_, with_builtin, with_nothing) = probe_program(r, name);
    match res {
        Err(_) => "panic".into(),
        Ok(Ok(Value::String(s))) if s.starts_with('h') => s.clone(),
        Ok(Ok(v)) => {
            if with_builtin.as_ref() == Some(v) {
                "b".into()
            } else if with_nothing.as_ref() == Some(v) {
                "none".into()
            } else {
                format!("other:{}", value_to_json(v))
            }
        }
        Ok(Err(_)) => {
            // Err is what an unregistered function / an operator with neither handler gives
            if with_nothing.is_none() { "none".into() } else { "other:err".into() }
        }
    }
}

struct Gate {
    open: Mutex<HashMap<String, u64>>, // permits per thread
    cv: Condvar,
    waiting: Mutex<HashMap<String, String>>, // thread -> site it is parked at
    enabled: AtomicBool,
}
static GATE: once_gate::Lazy = once_gate::Lazy::new();
mod once_gate {
    use super::*;
    pub struct Lazy(std::sync::OnceLock<Gate>);
    impl Lazy {
        pub const fn new() -> Lazy {
            Lazy(std::sync::OnceLock::new())
        }
        pub fn get(&self) -> &Gate {
            self.0.get_or_init(|| Gate { open: Mutex::new(HashMap::new()), cv: Condvar::new(), waiting: Mutex::new(HashMap::new()), enabled: AtomicBool::new(false) })
        }
    }
}

/// Yield point: under a forced schedule, park until the controller grants this thread a step.
fn yield_point(site: &str) {
    let g = GATE.get();
    if !g.enabled.load(Ordering::SeqCst) {
        return;
    }
    let me = tid();
    if me.is_empty() {
        return;
    }
    g.waiting.lock().unwrap().insert(me.clone(), site.to_string());
    let mut open = g.open.lock().unwrap();
    loop {
        if !g.enabled.load(Ordering::SeqCst) {
            break;
        }
        let p = open.get(&me).copied().unwrap_or(0);
        if p > 0 {
            open.insert(me.clone(), p - 1);
            break;
        }
        // time-limited wait: the controller may disable the gate between our check and the wait
        open = g.cv.wait_timeout(open, std::time::Duration::from_millis(20)).unwrap().0;
    }
    drop(open);
    g.waiting.lock().unwrap().remove(&me);
}

fn probe_cb(site: &'static str, seq: u64) {
    let me = tid();
    if me.is_empty() {
        return;
    }
    if site.starts_with("init:") {
        emit_at(seq, json!({"ev": "probe", "t": me, "site": site}));
        if site == "init:enter" || site == "init:stage4" {
            return; // no yield inside the closure's bookkeeping edges
        }
        yield_point(site);
        return;
    }
    // registry access: record the first one of each call (NoPartialInit), yield at every one
    let first = FIRST_ACCESS_DONE.with(|f| {
        let was = *f.borrow();
        *f.borrow_mut() = true;
        !was
    });
    if first {
        emit_at(seq, json!({"ev": "probe", "t": me, "site": "access", "at": site}));
    }
    yield_point(site);
}

fn marker_fn(id: &str) -> Arc<dyn Fn(Vec<Value>) -> expression_engine::Result<Value> + Send + Sync> {
    marker_fn_ret(id, None)
}

/// the application keeps a handle on every function it registers (as a host that hot-reloads rules would): a replaced handler
/// stays alive, so anything that assumes "replaced means dropped" shows
static KEPT: Mutex<Vec<Arc<dyn Fn(Vec<Value>) -> expression_engine::Result<Value> + Send + Sync>>> = Mutex::new(Vec::new());

fn marker_fn_ret(id: &str, ret: Option<Value>) -> Arc<dyn Fn(Vec<Value>) -> expression_engine::Result<Value> + Send + Sync> {
    let id = id.to_string();
    let f: Arc<dyn Fn(Vec<Value>) -> expression_engine::Result<Value> + Send + Sync> = Arc::new(move |_| {
        handler_entry(&id);
        Ok(ret.clone().unwrap_or(Value::String(id.clone())))
    });
    if let Ok(mut k) = KEPT.lock() {
        if k.len() < 100_000 {
            k.push(f.clone());
        }
    }
    f
}

fn handler_entry(id: &str) {
    let regs = verif_hooks::locks_free();
    emit(json!({"ev": "handler", "t": tid(), "h": id, "regsfree": regs.iter().all(|b| *b)}));
    // F1 rendez-vous: a handler named in SYNC lets another thread run one call to completion before it returns
    let s = SYNC.lock().unwrap_or_else(|p| p.into_inner()).clone();
    if let Some((h, flag, done)) = s {
        if h == id {
            flag.store(true, Ordering::SeqCst);
            let t0 = std::time::Instant::now();
            while !done.load(Ordering::SeqCst) && t0.elapsed().as_secs() < 6 {
                std::thread::yield_now();
            }
            if !done.load(Ordering::SeqCst) {
                // the other thread's engine calls did not complete while this handler was running: had the handler waited for
                // them without a time limit, both threads would be stuck (the harness gives up so that the run can be reported)
                SYNC_TIMEOUTS.fetch_add(1, Ordering::SeqCst);
            }
        }
    }
}
static SYNC: Mutex<Option<(String, Arc<AtomicBool>, Arc<AtomicBool>)>> = Mutex::new(None);

fn do_call(c: &J, idx: usize) {
    FIRST_ACCESS_DONE.with(|f| *f.borrow_mut() = false);
    let op = c["op"].as_str().unwrap();
    let r = c["r"].as_str().unwrap_or("");
    let name = c["name"].as_str().unwrap_or("");
    let mut ev = c.clone();
    ev["ev"] = J::from("call");
    ev["t"] = J::from(tid());
    ev["i"] = J::from(idx);
    emit(ev);
    let res: String = match op {
        "reg" => {
            let id = c["val"].as_str().unwrap().to_string();
            let outcome = guarded(std::panic::AssertUnwindSafe(|| match r {
                "func" => expression_engine::register_function(name, marker_fn_ret(&id, c.get("ret").and_then(json_to_value))),
                "prefix" => {
                    let i2 = id.clone();
                    expression_engine::register_prefix_op(name, Arc::new(move |_| {
                        handler_entry(&i2);
                        Ok(Value::String(i2.clone()))
                    }))
                }
                "postfix" => {
                    let i2 = id.clone();
                    expression_engine::register_postfix_op(name, Arc::new(move |_| {
                        handler_entry(&i2);
                        Ok(Value::String(i2.clone()))
                    }))
                }
                _ => {
                    let i2 = id.clone();
                    let prec = c["prec"].as_i64().unwrap_or(115) as i32;
                    let assoc = if c["assoc"] == "R" { InfixOpAssociativity::RIGHT } else { InfixOpAssociativity::LEFT };
                    // a user handler for a built-in arithmetic operator computes something visibly different (F1)
                    let arith = c["arith"].as_str().map(|s| s.to_string());
                    let ret = c.get("ret").and_then(json_to_value);
                    expression_engine::register_infix_op(name, prec, InfixOpType::CALC, assoc, Arc::new(move |a, b| {
                        handler_entry(&i2);
                        match arith.as_deref() {
                            Some("sub") => Ok(Value::Number(a.decimal()? - b.decimal()?)),
                            Some("mul") => Ok(Value::Number(a.decimal()? * b.decimal()?)),
                            Some("mul10add") => Ok(Value::Number(a.decimal()? * rust_decimal::Decimal::from(10) + b.decimal()?)),
                            _ => Ok(ret.clone().unwrap_or(Value::String(i2.clone()))),
                        }
                    }))
                }
            }));
            if outcome.is_err() { "panic".into() } else { "ok".into() }
        }
        "exec" | "parse" | "text" => {
            let (text, _, _) = if c.get("text").is_some() { (c["text"].as_str().unwrap().to_string(), None, None) } else { probe_program(r, name) };
            let mut ctx = Context::new();
            if let Some(o) = c.get("ctx").and_then(|x| x.as_object()) {
                for (k, e) in o {
                    if e[0] == "var" {
                        ctx.set_variable(k, json_to_value(&e[1]).unwrap_or(Value::None));
                    } else {
                        ctx.set_func(k, marker_fn(e[1].as_str().unwrap()));
                    }
                }
            }
            if op == "parse" {
                let t = text.clone();
                match guarded(move || expression_engine::parse_expression(crate::astjson::leak(&t)).map(|_| ())) {
                    Err(_) => "panic".into(),
                    Ok(Ok(())) => "ok".into(),
                    Ok(Err(_)) => "err".into(),
                }
            } else {
                let t = text.clone();
                let out = guarded(std::panic::AssertUnwindSafe(move || expression_engine::execute(crate::astjson::leak(&t), ctx)));
                if op == "text" {
                    match &out {
                        Err(_) => "panic".into(),
                        Ok(Ok(v)) => format!("value:{}", value_to_json(v)),
                        Ok(Err(_)) => "err".into(),
                    }
                } else if let Some(classes) = c.get("classes").and_then(|x| x.as_object()) {
                    // an explicit program whose result tells which handler of (r, name) produced it
                    match &out {
                        Err(_) => "panic".into(),
                        Ok(Err(_)) => classes.iter().find(|(_, v)| v.is_string() && v.as_str() == Some("err")).map(|(k, _)| k.clone()).unwrap_or("other:err".into()),
                        Ok(Ok(v)) => {
                            let vj = value_to_json(v);
                            classes.iter().find(|(_, want)| want.is_array() && veq(want, &vj)).map(|(k, _)| k.clone()).unwrap_or(format!("other:{}", vj))
                        }
                    }
                } else {
                    classify(r, name, &out)
                }
            }
        }
        _ => tool_error("unknown op"),
    };
    // {"expect": id}: program order within this thread guarantees the outcome (its own registration came first and nobody replaces it)
    let res = match c.get("expect").and_then(|e| e.as_str()) {
        Some(e) if res != e && !res.starts_with("panic") => format!("other:expected {} got {}", e, res),
        _ => res,
    };
    emit(json!({"ev": "ret", "t": tid(), "i": idx, "res": res}));
}

/// engine-run <scenario.json>: prints the events (sorted by seq) as NDJSON on stdout, then {"summary": ..}.
pub fn run(args: &[String]) {
    silence_panics();
    let sc: J = serde_json::from_str(&std::fs::read_to_string(&args[0]).unwrap_or_else(|e| tool_error(&e.to_string()))).unwrap_or_else(|e| tool_error(&e.to_string()));
    let threads = sc["threads"].as_array().unwrap().clone();
    let nthreads = threads.len();
    let sched = sc["mode"] == "sched";
    // "hammer": every thread repeats its call list `repeat` times, nothing is recorded; only deadlock / panic / impossible
    // results are reported (C13: no deadlock, no panic under sustained concurrent registration and evaluation)
    let repeat = sc["repeat"].as_u64().unwrap_or(1) as usize;
    if sc["mode"] == "hammer" {
        RECORD.store(false, Ordering::SeqCst);
    }
    verif_hooks::set_probe(Some(Arc::new(probe_cb)));
    if let Some(s) = sc.get("sync") {
        // {"handler": "h1", "then_thread": k}: when handler h1 is entered, thread k is released and h1 waits for it to finish
        *SYNC.lock().unwrap() = Some((s["handler"].as_str().unwrap().to_string(), Arc::new(AtomicBool::new(false)), Arc::new(AtomicBool::new(false))));
    }
    // "setup": calls made on this thread before the others start (registrations every thread relies on)
    if let Some(setup) = sc.get("setup").and_then(|x| x.as_array()) {
        for c in setup {
            do_call(c, 0);
        }
    }
    let g = GATE.get();
    g.enabled.store(sched, Ordering::SeqCst);
    let start = Arc::new(std::sync::Barrier::new(nthreads));
    let finished = Arc::new(AtomicUsize::new(0));
    let mut handles = Vec::new();
    for (k, calls) in threads.into_iter().enumerate() {
        let start = start.clone();
        let finished = finished.clone();
        let sync_thread = sc.get("sync").and_then(|s| s["then_thread"].as_u64()).map(|x| x as usize);
        handles.push(std::thread::spawn(move || {
            TID.with(|t| *t.borrow_mut() = format!("t{}", k + 1));
            start.wait();
            if sync_thread == Some(k) {
                // wait until the named handler has been entered
                let s = SYNC.lock().unwrap().clone();
                if let Some((_, flag, _)) = s {
                    let t0 = std::time::Instant::now();
                    while !flag.load(Ordering::SeqCst) && t0.elapsed().as_secs() < 10 {
                        std::thread::yield_now();
                    }
                }
            }
            yield_point("thread:start");
            for _ in 0..repeat {
                for (i, c) in calls.as_array().unwrap().iter().enumerate() {
                    do_call(c, i + 1);
                }
            }
            if sync_thread == Some(k) {
                if let Some((_, _, done)) = SYNC.lock().unwrap().clone() {
                    done.store(true, Ordering::SeqCst);
                }
            }
            finished.fetch_add(1, Ordering::SeqCst);
        }));
    }
    let mut deadlock = false;
    if sched {
        // controller: walk the schedule, granting one step at a time to the named thread
        let schedule: Vec<usize> = sc["schedule"].as_array().map(|a| a.iter().map(|x| x.as_u64().unwrap() as usize).collect()).unwrap_or_default();
        for th in schedule {
            let name = format!("t{}", th + 1);
            // wait (briefly) until that thread is parked at a yield point; if it is blocked elsewhere, move on
            let t0 = std::time::Instant::now();
            loop {
                if g.waiting.lock().unwrap().contains_key(&name) || finished.load(Ordering::SeqCst) == nthreads {
                    break;
                }
                if t0.elapsed().as_millis() > 30 {
                    break;
                }
                std::thread::yield_now();
            }
            if g.waiting.lock().unwrap().contains_key(&name) {
                *g.open.lock().unwrap().entry(name.clone()).or_insert(0) += 1;
                g.cv.notify_all();
                // let it run to its next yield point (or block, or finish)
                let t1 = std::time::Instant::now();
                std::thread::yield_now();
                while t1.elapsed().as_millis() < 30 {
                    let parked_again = g.waiting.lock().unwrap().contains_key(&name) && g.open.lock().unwrap().get(&name).copied().unwrap_or(0) == 0;
                    if parked_again || finished.load(Ordering::SeqCst) == nthreads {
                        break;
                    }
                    std::thread::yield_now();
                }
            }
        }
        // schedule exhausted: everything runs free
        {
            let _held = g.open.lock().unwrap();
            g.enabled.store(false, Ordering::SeqCst);
        }
        g.cv.notify_all();
    }
    let t0 = std::time::Instant::now();
    while finished.load(Ordering::SeqCst) < nthreads {
        if t0.elapsed().as_secs() > 20 {
            deadlock = true;
            break;
        }
        std::thread::sleep(std::time::Duration::from_millis(1));
    }
    if !deadlock {
        for h in handles {
            let _ = h.join();
        }
    }
    let mut evs = EVENTS.lock().unwrap_or_else(|p| p.into_inner()).clone();
    evs.sort_by_key(|e| e["seq"].as_u64().unwrap_or(0));
    let mut out = Out::new(None);
    for e in &evs {
        out.line(e);
    }
    let parked: Vec<(String, String)> = g.waiting.lock().unwrap().iter().map(|(a, b)| (a.clone(), b.clone())).collect();
    out.line(&json!({"summary": {"events": evs.len(), "deadlock": deadlock, "parked": parked, "panics": PANICS.load(Ordering::SeqCst), "impossible_results": WRONG.load(Ordering::SeqCst),
                                 "sync_timeouts": SYNC_TIMEOUTS.load(Ordering::SeqCst)}}));
    out.flush();
    if deadlock {
        std::process::exit(0);
    }
}
