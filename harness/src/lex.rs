//! Lexer family (C10, lexical part of C01/C05): replay of TLC-enumerated inputs, recording of random inputs.
use crate::util::*;
use expression_engine::verif_hooks;
use rand::Rng;
use serde_json::{json, Value as J};
use std::sync::Arc;

/// user operators whose first character is neither a letter nor a character of a built-in symbolic operator
pub fn register_odd() {
    use expression_engine::*;
    register_prefix_op("~", Arc::new(|v| Ok(v)));
    register_postfix_op("@@", Arc::new(|v| Ok(v)));
    register_infix_op("\u{2260}", 111, InfixOpType::CALC, InfixOpAssociativity::LEFT, Arc::new(|a, _| Ok(a)));
    register_infix_op("a~", 111, InfixOpType::CALC, InfixOpAssociativity::LEFT, Arc::new(|a, _| Ok(a)));
    register_infix_op(":=", 25, InfixOpType::CALC, InfixOpAssociativity::RIGHT, Arc::new(|a, _| Ok(a)));
    register_infix_op("?:", 30, InfixOpType::CALC, InfixOpAssociativity::LEFT, Arc::new(|a, _| Ok(a)));
}

pub fn register_extended() {
    use expression_engine::*;
    register_prefix_op("+++", Arc::new(|v| Ok(v)));
    register_postfix_op("---", Arc::new(|v| Ok(v)));
    register_infix_op("hi", 111, InfixOpType::CALC, InfixOpAssociativity::LEFT, Arc::new(|a, _| Ok(a)));
}

/// Tokenize through hook H1 under catch_unwind: {"ok":bool,"panic":bool,"toks":[[kind,lo,hi,text cps]]}
pub fn observe(s: &str) -> J {
    let owned = s.to_string();
    match guarded(move || verif_hooks::tokenize(&owned)) {
        Err(msg) => json!({"ok": false, "panic": true, "msg": msg, "toks": []}),
        Ok(Err(e)) => {
            let d = format!("{:?}", e);
            json!({"ok": false, "panic": false, "toks": [], "evariant": d.split(|c: char| !(c.is_alphanumeric() || c == '_')).next().unwrap_or("")})
        }
        Ok(Ok(toks)) => {
            let arr: Vec<J> = toks
                .iter()
                .map(|(k, text, lo, hi)| {
                    // number tokens carry a Decimal, not text: the text compared is the source slice
                    // (the value is C09's business); booleans carry the value
                    let t = if *k == "num" { s.get(*lo..*hi).unwrap_or("").to_string() } else { text.clone() };
                    json!([k, lo, hi, string_to_cps(&t)])
                })
                .collect();
            json!({"ok": true, "panic": false, "toks": arr})
        }
    }
}

fn bool_text_ok(expected: &J, got: &J) -> bool {
    // expected: the spelled text (true/True/false/False); got: "true"/"false"
    let e = cps_to_string(expected.as_array().unwrap()).to_lowercase();
    let g = cps_to_string(got.as_array().unwrap());
    e == g
}

/// Replay TLC-enumerated behaviours. Each line: {chars, ok, dc, toks:[[kind, blo, bhi, text]]}.
pub fn replay(args: &[String]) {
    silence_panics();
    let path = &args[0];
    if arg_value(args, "--ops").as_deref() == Some("odd") {
        register_odd();
    }
    if arg_value(args, "--ops").as_deref() == Some("extended") {
        register_extended();
    }
    verif_hooks::init();
    let mut out = Out::new(None);
    replay_file(path, &mut out, "");
    out.flush();
}

fn register_one(kind: &str, op: &str) {
    use expression_engine::*;
    match kind {
        "prefix" => register_prefix_op(op, Arc::new(|v| Ok(v))),
        "postfix" => register_postfix_op(op, Arc::new(|v| Ok(v))),
        "infix" => register_infix_op(op, 111, InfixOpType::CALC, InfixOpAssociativity::LEFT, Arc::new(|a, _| Ok(a))),
        "function" => register_function(op, Arc::new(|_| Ok(Value::None))),
        _ => tool_error("bad registration kind"),
    }
}

/// A history in one process: [{"replay": file, "stage": name} | {"reg": [kind, op]}] - tokenizations under the operator
/// set registered so far, interleaved with registrations (C10 under extended operator sets, C08/C16: the tokenizer may
/// not remember anything across registrations).
pub fn history(args: &[String]) {
    silence_panics();
    let script: J = serde_json::from_str(&std::fs::read_to_string(&args[0]).unwrap_or_else(|e| tool_error(&e.to_string()))).unwrap_or_else(|e| tool_error(&e.to_string()));
    verif_hooks::init();
    let mut out = Out::new(None);
    for step in script.as_array().unwrap() {
        if let Some(r) = step.get("reg") {
            register_one(r[0].as_str().unwrap(), r[1].as_str().unwrap());
        } else {
            replay_file(step["replay"].as_str().unwrap(), &mut out, step["stage"].as_str().unwrap_or(""));
        }
    }
    out.flush();
}

fn replay_file(path: &str, out: &mut Out, stage: &str) {
    let recs = read_ndjson(path);
    let (mut n, mut bad, mut dcs, mut errs) = (0u64, 0u64, 0u64, 0u64);
    // informational: which Error variant a lexical rejection carries (no listed property fixes it: drift, not a violation)
    let (mut variant_agree, mut variant_differ) = (0u64, 0u64);
    for (idx, r) in recs.iter().enumerate() {
        let s = cps_to_string(r["chars"].as_array().unwrap());
        let got = observe(&s);
        if let (Some(a), Some(b)) = (r.get("evariant").and_then(|v| v.as_str()), got.get("evariant").and_then(|v| v.as_str())) {
            if !a.is_empty() && !r["dc"].as_bool().unwrap_or(false) {
                if a == b { variant_agree += 1 } else { variant_differ += 1 }
            }
        }
        n += 1;
        if r["dc"].as_bool().unwrap_or(false) {
            dcs += 1;
            if got["panic"].as_bool().unwrap() {
                bad += 1;
                out.line(&json!({"mismatch": idx, "stage": stage, "why": "panic", "input": s, "chars": r["chars"], "got": got}));
            }
            continue;
        }
        let exp_ok = r["ok"].as_bool().unwrap();
        if !exp_ok {
            errs += 1;
        }
        let mut why = None;
        if got["panic"].as_bool().unwrap() {
            why = Some("panic".to_string());
        } else if got["ok"].as_bool().unwrap() != exp_ok {
            why = Some(format!("verdict: spec ok={} impl ok={}", exp_ok, got["ok"]));
        } else if exp_ok {
            let et = r["toks"].as_array().unwrap();
            let gt = got["toks"].as_array().unwrap();
            if et.len() != gt.len() {
                why = Some(format!("token count: spec {} impl {}", et.len(), gt.len()));
            } else {
                for (k, (e, g)) in et.iter().zip(gt.iter()).enumerate() {
                    let same_text = if e[0] == "bool" { bool_text_ok(&e[3], &g[3]) } else { e[3] == g[3] };
                    if e[0] != g[0] || e[1] != g[1] || e[2] != g[2] || !same_text {
                        why = Some(format!("token {}: spec {} impl {}", k, e, g));
                        break;
                    }
                }
            }
        }
        if let Some(w) = why {
            bad += 1;
            out.line(&json!({"mismatch": idx, "stage": stage, "why": w, "input": s, "chars": r["chars"], "expected": {"ok": r["ok"], "toks": r["toks"]}, "got": got}));
        }
    }
    out.line(&json!({"summary": {"replayed": n, "mismatches": bad, "dontcare": dcs, "expected_err": errs, "stage": stage, "variant_agree": variant_agree, "variant_differ": variant_differ}}));
}

const WORDS: &[&str] = &[
    "in", "not", "true", "True", "false", "False", "beginWith", "endWith", "AND", "OR", "min", "max", "sum", "mul", "inside", "nota",
    "hi", "a", "x", "f", "a.b", "_t9", "d09f_5",
];
const SYMS: &[&str] = &[
    "+", "-", "*", "/", "^", "%", "&", "!", "=", "?", ":", ">", "<", "|", "==", "!=", "<=", ">=", "&&", "||", "<<", ">>", "<<=", ">>=", "+=",
    "-=", "*=", "/=", "%=", "&=", "^=", "|=", "++", "--", "+++", "---", "=>", "<>", "**",
];
const MULTI: &[char] = &['é', 'ß', '€', '中', '😀', '\u{10FFFF}', '\u{80}', '\u{7FF}', '\u{800}', '\u{FFFF}', '\u{10000}', '\u{A0}', '\u{2028}', '\u{B}', '\u{C}', '\u{85}', '\u{3000}', '\u{2003}', '\u{FEFF}', '\u{7F}', '\u{1}', '\u{1F}', '\u{80}', '\u{2020}', '\u{120}', '\u{10A}', '\u{2009}', '\u{200D}', '\u{10D}'];

/// A random input biased towards the character classes the tokenizer distinguishes.
pub fn random_input(rng: &mut impl Rng, max_chars: usize) -> String {
    let target = rng.gen_range(0..=max_chars);
    let mut s = String::new();
    let mut n = 0usize;
    while n < target {
        let piece: String = match rng.gen_range(0..100) {
            0..=17 => [" ", "\t", "\r", "\n", "  ", " \n "][rng.gen_range(0..6)].to_string(),
            18..=19 => {
                // long literals: the integer part alone (nearly) fills the 96-bit mantissa, then a fraction, then well- or ill-formed tails
                let mut d = String::new();
                for k in 0..rng.gen_range(17..31) {
                    d.push(b"0123456789"[rng.gen_range(if k == 0 { 1 } else { 0 }..10)] as char);
                }
                if rng.gen_bool(0.8) {
                    d.push('.');
                    for _ in 0..rng.gen_range(0..31) {
                        d.push(b"0123456789"[rng.gen_range(0..10)] as char);
                    }
                }
                if rng.gen_bool(0.5) {
                    d.push_str([".5", ".", "e5", "e", "E+3", ".5.5", "..", "e-"][rng.gen_range(0..8)]);
                }
                d
            }
            20..=29 => {
                let mut d = String::new();
                for _ in 0..rng.gen_range(1..6) {
                    d.push(b"0123456789"[rng.gen_range(0..10)] as char);
                }
                if rng.gen_bool(0.3) {
                    d.push('.');
                    for _ in 0..rng.gen_range(0..4) {
                        d.push(b"0123456789"[rng.gen_range(0..10)] as char);
                    }
                }
                if rng.gen_bool(0.08) {
                    d.push_str(["e", "E", "e+", "e-", ".", "-", "+"][rng.gen_range(0..7)]);
                }
                d
            }
            30..=44 => SYMS[rng.gen_range(0..SYMS.len())].to_string(),
            45..=54 => ["(", ")", "[", "]", "{", "}"][rng.gen_range(0..6)].to_string(),
            55..=60 => [",", ";"][rng.gen_range(0..2)].to_string(),
            61..=68 => {
                let q = ['"', '\''][rng.gen_range(0..2)];
                let mut t = String::new();
                t.push(q);
                for _ in 0..rng.gen_range(0..6) {
                    let c = match rng.gen_range(0..10) {
                        0 => ' ',
                        1 => if q == '"' { '\'' } else { '"' },
                        2 => MULTI[rng.gen_range(0..MULTI.len())],
                        3 => '\\',
                        4 => '\n',
                        _ => b"abcxyz019+-(),;"[rng.gen_range(0..15)] as char,
                    };
                    t.push(c);
                }
                if rng.gen_bool(0.9) {
                    t.push(q);
                }
                t
            }
            69..=86 => WORDS[rng.gen_range(0..WORDS.len())].to_string(),
            87..=93 => MULTI[rng.gen_range(0..MULTI.len())].to_string(),
            94..=96 => ["@", "#", "$", "~", "`", "\\", ".", "_"][rng.gen_range(0..8)].to_string(),
            _ => {
                let c = loop {
                    if let Some(c) = char::from_u32(rng.gen_range(1..0x11000)) {
                        break c;
                    }
                };
                c.to_string()
            }
        };
        n += piece.chars().count();
        s.push_str(&piece);
    }
    s
}

/// Record the tokenizer's behaviour on random inputs: {chars, ok, panic, toks}.
pub fn record(args: &[String]) {
    silence_panics();
    let seed = arg_u64(args, "--seed", 1);
    let n = arg_u64(args, "--n", 1000);
    let maxlen = arg_u64(args, "--maxlen", 200) as usize;
    let path = arg_value(args, "--out");
    if arg_value(args, "--ops").as_deref() == Some("odd") {
        register_odd();
    }
    if arg_value(args, "--ops").as_deref() == Some("extended") {
        register_extended();
    }
    verif_hooks::init();
    let mut out = Out::new(path.as_deref());
    let mut rng = rng(seed, 10);
    for k in 0..n {
        // a few long inputs, the rest short
        let ml = if k % 50 == 49 { maxlen * 10 } else { maxlen };
        let s = random_input(&mut rng, ml);
        let mut o = observe(&s);
        o["chars"] = string_to_cps(&s);
        out.line(&o);
    }
    out.flush();
}

/// lex-observe <ndjson with a "text" field (escaped)> --out <file>: tokenizer records for given texts (C05 lexical corruptions).
pub fn observe_file(args: &[String]) {
    silence_panics();
    verif_hooks::init();
    let recs = read_ndjson(&args[0]);
    let mut out = Out::new(arg_value(args, "--out").as_deref());
    for r in recs {
        let s = unesc(r["text"].as_str().unwrap_or(""));
        let mut o = observe(&s);
        o["chars"] = string_to_cps(&s);
        out.line(&o);
    }
    out.flush();
}
