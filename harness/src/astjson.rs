//! ExprAST <-> JSON in the specification's tag-first tuple shape (trusted encoding).
use crate::util::esc;
use expression_engine::ExprAST;
use serde_json::{json, Value as J};

/// Inverse of the escaping `impl Debug for str` applies: \\ \" \' \n \r \t \0 \u{hex}.
fn undebug(s: &str) -> String {
    let mut out = String::new();
    let mut it = s.chars().peekable();
    while let Some(c) = it.next() {
        if c != '\\' {
            out.push(c);
            continue;
        }
        match it.next() {
            Some('n') => out.push('\n'),
            Some('r') => out.push('\r'),
            Some('t') => out.push('\t'),
            Some('0') => out.push('\0'),
            Some('u') => {
                let mut hex = String::new();
                if it.next() == Some('{') {
                    for h in it.by_ref() {
                        if h == '}' {
                            break;
                        }
                        hex.push(h);
                    }
                }
                if let Some(ch) = u32::from_str_radix(&hex, 16).ok().and_then(char::from_u32) {
                    out.push(ch);
                }
            }
            Some(other) => out.push(other),
            None => {}
        }
    }
    out
}

/// Literal has a private path (`parser::Literal`) but is reachable through pattern matching on the public enum.
pub fn ast_to_json(a: &ExprAST) -> J {
    match a {
        ExprAST::Literal(l) => {
            // Literal's Debug output is stable: Number(1.10) | Bool(true) | String("..")
            let d = format!("{:?}", l);
            if let Some(rest) = d.strip_prefix("Number(") {
                json!(["num", rest.trim_end_matches(')')])
            } else if let Some(rest) = d.strip_prefix("Bool(") {
                json!(["bool", rest.trim_end_matches(')')])
            } else {
                // String("..."): undo the escaping of str's Debug output (independent of expr(), which is under test in C12)
                let inner = d.strip_prefix("String(\"").and_then(|r| r.strip_suffix("\")")).map(undebug).unwrap_or_default();
                json!(["str", esc(&inner)])
            }
        }
        ExprAST::Reference(n) => json!(["ref", esc(n)]),
        ExprAST::Function(n, args) => json!(["call", esc(n), args.iter().map(ast_to_json).collect::<Vec<_>>()]),
        ExprAST::Unary(op, e) => json!(["un", esc(op), ast_to_json(e)]),
        ExprAST::Binary(op, l, r) => json!(["bin", esc(op), ast_to_json(l), ast_to_json(r)]),
        ExprAST::Postfix(e, op) => json!(["post", ast_to_json(e), esc(op)]),
        ExprAST::Ternary(c, a, b) => json!(["tern", ast_to_json(c), ast_to_json(a), ast_to_json(b)]),
        ExprAST::List(es) => json!(["list", es.iter().map(ast_to_json).collect::<Vec<_>>()]),
        ExprAST::Map(kvs) => json!(["map", kvs.iter().map(|(k, v)| json!([ast_to_json(k), ast_to_json(v)])).collect::<Vec<_>>()]),
        ExprAST::Stmt(es) => json!(["stmt", es.iter().map(ast_to_json).collect::<Vec<_>>()]),
        ExprAST::None => json!(["none"]),
    }
}

/// Rewrite leaf texts through `f(kind, text)`.
pub fn map_leaves(a: &J, f: &dyn Fn(&str, &str) -> String) -> J {
    let arr = a.as_array().unwrap();
    let tag = arr[0].as_str().unwrap();
    match tag {
        "num" | "str" | "bool" | "ref" => json!([tag, f(tag, arr[1].as_str().unwrap())]),
        "call" => json!(["call", f("fun", arr[1].as_str().unwrap()), arr[2].as_array().unwrap().iter().map(|x| map_leaves(x, f)).collect::<Vec<_>>()]),
        "un" => json!(["un", arr[1], map_leaves(&arr[2], f)]),
        "bin" => json!(["bin", arr[1], map_leaves(&arr[2], f), map_leaves(&arr[3], f)]),
        "post" => json!(["post", map_leaves(&arr[1], f), arr[2]]),
        "tern" => json!(["tern", map_leaves(&arr[1], f), map_leaves(&arr[2], f), map_leaves(&arr[3], f)]),
        "list" | "stmt" => json!([tag, arr[1].as_array().unwrap().iter().map(|x| map_leaves(x, f)).collect::<Vec<_>>()]),
        "map" => json!(["map", arr[1].as_array().unwrap().iter().map(|kv| json!([map_leaves(&kv[0], f), map_leaves(&kv[1], f)])).collect::<Vec<_>>()]),
        _ => a.clone(),
    }
}

pub fn leak(s: &str) -> &'static str {
    Box::leak(s.to_string().into_boxed_str())
}
