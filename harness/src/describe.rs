//! describe() family (C18): registration histories of marker descriptors, each in a fresh child process
//! (the descriptor store is process-global and has no reset).
use crate::astjson::*;
use crate::parse;
use crate::util::*;
use expression_engine::verif_hooks::DescriptorManager;
use expression_engine::{parse_expression, ExprAST};
use rand::Rng;
use serde_json::{json, Value as J};
use std::sync::Arc;

/// every marker descriptor also calls back into the engine (parse + describe of a literal) before it answers: user descriptors may
/// do that, and describe() must still return
fn reenter() {
    thread_local!(static INSIDE: std::cell::Cell<bool> = std::cell::Cell::new(false));
    if INSIDE.with(|c| c.replace(true)) {
        return; // only the outermost descriptor re-enters
    }
    // a small tree whose rendering looks up descriptors of several kinds itself (none of its names is in the key universe)
    let _ = parse_expression("[zz9, - zz8 ++, qq(1) ? 2 : {3: 4}]").map(|a| a.describe());
    INSIDE.with(|c| c.set(false));
}

fn set_marker(kind: &str, name: &str, id: &str) {
    let id = id.to_string();
    let mut dm = DescriptorManager::new();
    match kind {
        "unary" => dm.set_unary_descriptor(name.to_string(), Arc::new(move |op, rhs| { reenter(); format!("<{}|{}|{}>", id, op, rhs) })),
        "binary" => dm.set_binary_descriptor(name.to_string(), Arc::new(move |op, l, r| { reenter(); format!("<{}|{}|{},{}>", id, op, l, r) })),
        "postfix" => dm.set_postfix_descriptor(name.to_string(), Arc::new(move |l, op| { reenter(); format!("<{}|{}|{}>", id, l, op) })),
        "ternary" => dm.set_ternary_descriptor(Arc::new(move |c, l, r| { reenter(); format!("<{}|{},{},{}>", id, c, l, r) })),
        "function" => dm.set_function_descriptor(name.to_string(), Arc::new(move |n, ps| { reenter(); format!("<{}|{}|{}>", id, n, ps.join(",")) })),
        "reference" => dm.set_reference_descriptor(name.to_string(), Arc::new(move |n| { reenter(); format!("<{}|{}>", id, n) })),
        "list" => dm.set_list_descriptor(Arc::new(move |ps| format!("<{}|{}>", id, ps.join(",")))),
        "map" => dm.set_map_descriptor(Arc::new(move |kvs| format!("<{}|{}>", id, kvs.iter().map(|(k, v)| format!("{}={}", k, v)).collect::<Vec<_>>().join(",")))),
        "chain" => dm.set_chain_descriptor(Arc::new(move |ps| format!("<{}|{}>", id, ps.join(",")))),
        _ => tool_error("unknown descriptor kind"),
    }
}

/// Programs in Describe's encoding: like Eval's, but a literal carries its text.
fn build(j: &J) -> ExprAST<'static> {
    let a = j.as_array().unwrap();
    let sub = |x: &J| Box::new(build(x));
    match a[0].as_str().unwrap() {
        "lit" => match parse_expression(leak(a[1].as_str().unwrap())) {
            Ok(l @ ExprAST::Literal(_)) => l,
            _ => tool_error("describe: literal text is not a literal"),
        },
        "none" => ExprAST::None,
        // names travel ASCII-escaped
        "ref" => ExprAST::Reference(leak(&unesc(a[1].as_str().unwrap()))),
        "call" => ExprAST::Function(leak(&unesc(a[1].as_str().unwrap())), a[2].as_array().unwrap().iter().map(build).collect()),
        "un" => ExprAST::Unary(leak(&unesc(a[1].as_str().unwrap())), sub(&a[2])),
        "post" => ExprAST::Postfix(sub(&a[1]), unesc(a[2].as_str().unwrap())),
        "bin" => ExprAST::Binary(leak(&unesc(a[1].as_str().unwrap())), sub(&a[2]), sub(&a[3])),
        "tern" => ExprAST::Ternary(sub(&a[1]), sub(&a[2]), sub(&a[3])),
        "list" => ExprAST::List(a[1].as_array().unwrap().iter().map(build).collect()),
        "stmt" => ExprAST::Stmt(a[1].as_array().unwrap().iter().map(build).collect()),
        "map" => ExprAST::Map(a[1].as_array().unwrap().iter().map(|kv| (build(&kv[0]), build(&kv[1]))).collect()),
        other => tool_error(&format!("unknown node {}", other)),
    }
}

/// describe-child <file> <index>: apply the record's registrations, describe its programs, print the strings.
pub fn child(args: &[String]) {
    silence_panics();
    let recs = read_ndjson(&args[0]);
    let r = &recs[args[1].parse::<usize>().unwrap()];
    expression_engine::verif_hooks::init();
    // in every second history each program is described once BEFORE anything is registered, and again between the registrations:
    // a rendering that was already produced may not pin a descriptor (a registration takes effect whenever it is made)
    let warm = args[1].parse::<usize>().unwrap() % 2 == 1;
    let describe_all = |_: ()| {
        for p in r["programs"].as_array().unwrap() {
            let ast = build(p);
            let _ = guarded(move || ast.describe());
        }
    };
    if warm {
        describe_all(());
    }
    for s in r["sets"].as_array().unwrap() {
        set_marker(s[0].as_str().unwrap(), s[1].as_str().unwrap(), s[2].as_str().unwrap());
        if warm {
            describe_all(());
        }
    }
    let mut outs = Vec::new();
    for p in r["programs"].as_array().unwrap() {
        let ast = build(p);
        outs.push(match guarded(move || ast.describe()) {
            Ok(s) => json!(["ok", esc(&s)]),
            Err(m) => json!(["panic", m]),
        });
    }
    println!("{}", json!({"actual": outs}));
}

fn run_child(file: &str, idx: usize) -> J {
    let exe = std::env::current_exe().unwrap();
    let mut child = std::process::Command::new(exe)
        .args(["describe-child", file, &idx.to_string()])
        .stdout(std::process::Stdio::piped())
        .stderr(std::process::Stdio::null())
        .spawn()
        .unwrap_or_else(|e| tool_error(&e.to_string()));
    // a describe() that never returns (a descriptor re-entering the engine under a held lock) is reported, not waited for
    let t0 = std::time::Instant::now();
    loop {
        match child.try_wait() {
            Ok(Some(_)) => break,
            Ok(None) if t0.elapsed().as_secs() >= 30 => {
                let _ = child.kill();
                let _ = child.wait();
                return json!({"actual": [], "died": "describe() did not return within 30 s"});
            }
            Ok(None) => std::thread::sleep(std::time::Duration::from_millis(5)),
            Err(e) => tool_error(&e.to_string()),
        }
    }
    let o = child.wait_with_output().unwrap_or_else(|e| tool_error(&e.to_string()));
    if !o.status.success() {
        return json!({"actual": [], "died": format!("{:?}", o.status)});
    }
    serde_json::from_slice(o.stdout.split(|b| *b == b'\n').find(|l| l.starts_with(b"{")).unwrap_or(b"{}")).unwrap_or(json!({"actual": []}))
}

/// describe-replay <file>: each record {sets, programs, expected} in a fresh child process.
pub fn replay(args: &[String]) {
    let recs = read_ndjson(&args[0]);
    let mut out = Out::new(None);
    let (mut n, mut bad) = (0u64, 0u64);
    let mut hung = 0u32;
    for (idx, r) in recs.iter().enumerate() {
        // three histories in which describe() never returned are reported; the rest of the file is not waited for (30 s each)
        if hung >= 3 {
            break;
        }
        let got = run_child(&args[0], idx);
        if got.get("died").and_then(|d| d.as_str()).map(|d| d.contains("did not return")).unwrap_or(false) {
            hung += 1;
            bad += 1;
            out.line(&json!({"mismatch": idx, "program": 0, "expected": r["expected"][0], "actual": ["hung", "describe() did not return within 30 s"], "sets": r["sets"]}));
            continue;
        }
        let exp = r["expected"].as_array().unwrap();
        let act = got["actual"].as_array().cloned().unwrap_or_default();
        n += exp.len() as u64;
        for (k, e) in exp.iter().enumerate() {
            let a = act.get(k).cloned().unwrap_or(json!(["missing"]));
            if !(a[0] == "ok" && a[1] == *e) {
                bad += 1;
                out.line(&json!({"mismatch": idx, "program": k, "expected": e, "actual": a, "sets": r["sets"]}));
            }
        }
    }
    out.line(&json!({"summary": {"histories": recs.len(), "renderings": n, "mismatches": bad}}));
    out.flush();
}

fn to_describe_prog(a: &J) -> Option<J> {
    // parse-form AST (astjson) -> Describe encoding; string literals are not used (their rendering is expr()'s business)
    let arr = a.as_array()?;
    let seq = |x: &J| x.as_array().unwrap().iter().map(to_describe_prog).collect::<Option<Vec<_>>>();
    Some(match arr[0].as_str()? {
        "num" | "bool" => json!(["lit", arr[1]]),
        "str" => return None,
        "ref" => json!(["ref", arr[1]]),
        "call" => json!(["call", arr[1], seq(&arr[2])?]),
        "un" => json!(["un", arr[1], to_describe_prog(&arr[2])?]),
        "bin" => json!(["bin", arr[1], to_describe_prog(&arr[2])?, to_describe_prog(&arr[3])?]),
        "post" => json!(["post", to_describe_prog(&arr[1])?, arr[2]]),
        "tern" => json!(["tern", to_describe_prog(&arr[1])?, to_describe_prog(&arr[2])?, to_describe_prog(&arr[3])?]),
        "list" => json!(["list", seq(&arr[1])?]),
        "stmt" => json!(["stmt", seq(&arr[1])?]),
        "map" => json!(["map", arr[1].as_array()?.iter().map(|kv| Some(json!([to_describe_prog(&kv[0])?, to_describe_prog(&kv[1])?]))).collect::<Option<Vec<_>>>()?]),
        "none" => json!(["none"]),
        _ => return None,
    })
}

/// describe-record: random registration histories x random parsed programs; {sets, programs, actual}
pub fn record(args: &[String]) {
    let seed = arg_u64(args, "--seed", 1);
    let n = arg_u64(args, "--n", 60);
    let path = arg_value(args, "--out").unwrap_or_else(|| tool_error("--out required"));
    let mut rng = rng(seed, 80);
    let named = [("unary", vec!["-", "!", "not", "+", "++", "--"]), ("binary", vec!["-", "+", "*", "==", "=", "in", "&&"]), ("postfix", vec!["++", "--"]),
                 ("function", vec!["f", "g2", "min", "a"]), ("reference", vec!["a", "b", "x", "f", "cfg.limit"])];
    let unnamed = ["ternary", "list", "map", "chain"];
    let mut recs = Vec::new();
    for _ in 0..n {
        let mut sets = Vec::new();
        for k in 0..rng.gen_range(0..7) {
            if rng.gen_bool(0.6) {
                let (kind, names) = &named[rng.gen_range(0..named.len())];
                sets.push(json!([kind, names[rng.gen_range(0..names.len())], format!("D{}", k)]));
            } else {
                sets.push(json!([unnamed[rng.gen_range(0..4)], "", format!("D{}", k)]));
            }
        }
        let mut programs = Vec::new();
        while programs.len() < 6 {
            let toks = parse::gen_program(&mut rng, &[]);
            let text = toks.join(" ");
            if let Ok(ast) = parse_expression(leak(&text)) {
                if let Some(p) = to_describe_prog(&ast_to_json(&ast)) {
                    programs.push(p);
                }
            }
        }
        recs.push(json!({"sets": sets, "programs": programs}));
    }
    // children read the cases from a file
    let tmp = format!("{}.cases", path);
    {
        let mut o = Out::new(Some(&tmp));
        for r in &recs {
            o.line(r);
        }
        o.flush();
    }
    let mut out = Out::new(Some(&path));
    let mut hung = 0u32;
    for (idx, r) in recs.iter().enumerate() {
        // a describe() that never returns costs 30 s: after three such histories the recording stops (they are in the trace, with no output)
        if hung >= 3 {
            break;
        }
        let got = run_child(&tmp, idx);
        if got.get("died").and_then(|d| d.as_str()).map(|d| d.contains("did not return")).unwrap_or(false) {
            hung += 1;
        }
        let mut rec = r.clone();
        rec["actual"] = got["actual"].clone();
        out.line(&rec);
    }
    out.flush();
    let _ = std::fs::remove_file(&tmp);
}
