#!/bin/sh
# tools/verify_seeded.sh <seeded-dir>...  confirms in a scratch worktree (outside /repo and /verif) that each seeded change
# compiles, passes the existing tests, and that its demo fails with the change and passes without.  Prints one line per mutant.
WT=/tmp/wt/verify
git -C /repo worktree remove --force $WT 2>/dev/null
git -C /repo worktree add -q --detach $WT HEAD || exit 2
for d in "$@"; do
  n=$(basename $d)
  cd $WT && git checkout -q -- . && rm -rf tests
  git apply $d/patch.diff 2>/dev/null || { echo "$n APPLY-FAILED"; continue; }
  if cargo test --offline > /tmp/wt/verify-$n-suite.log 2>&1; then suite=pass; else suite=FAIL; fi
  mkdir -p tests && cp $d/demo.rs tests/demo.rs
  if timeout 600 cargo test --offline --features verif-hooks --test demo > /tmp/wt/verify-$n-with.log 2>&1; then with=pass; else with=fail; fi
  git checkout -q -- .
  if timeout 600 cargo test --offline --features verif-hooks --test demo > /tmp/wt/verify-$n-without.log 2>&1; then without=pass; else without=fail; fi
  rm -rf tests
  ok=NO; [ $suite = pass ] && [ $with = fail ] && [ $without = pass ] && ok=CONFIRMED
  echo "$n suite=$suite demo_with_patch=$with demo_without_patch=$without $ok"
done
cd / && git -C /repo worktree remove --force $WT
