#!/bin/sh
# tools/regress_seeded.sh <sandbox-dir> [id ...]: re-runs archived seeded changes (default: all of seeded/) against the checks that
# detected them (meta.json detected_by), in a private copy made with tools/sandbox_copy.sh.  One line per (change, check).
D=$1; shift
cd "$(dirname "$0")/.."
tools/sandbox_copy.sh $D >/dev/null 2>&1
ids="$@"
[ -z "$ids" ] && ids=$(ls seeded)
for id in $ids; do
  checks=$(python3 -c "import json;print(' '.join(json.load(open('seeded/$id/meta.json'))['detected_by'][:1]))")
  VERIF_DIR=$D/verif REPO_DIR=$D/repo tools/try_seeded.sh $(pwd)/seeded/$id $checks
done
