#!/bin/sh
# tools/try_seeded.sh <seeded-dir> <check-id>...   applies the patch to /repo, runs the checks (evidence diverted), reverts.
# Prints one line per check: DETECTED / MISSED / TOOLERR.
d=$1; shift
cd /repo && git diff --quiet || { echo "/repo not clean"; exit 2; }
git apply "$d/patch.diff" || { echo "patch does not apply: $d"; exit 2; }
mkdir -p /verif/work/seeded-evidence
for id in "$@"; do
  (cd /verif && VERIF_EVIDENCE_DIR=/verif/work/seeded-evidence ./check $id --tier ${TIER:-quick} > /verif/work/seeded-$(basename $d)-$id.log 2>&1); rc=$?
  case $rc in 1) r=DETECTED;; 0) r=MISSED;; *) r=TOOLERR;; esac
  echo "$(basename $d) $id $r  $(grep -m1 -A1 '^VIOLATION' /verif/work/seeded-$(basename $d)-$id.log | tail -1 | cut -c1-160)"
done
git -C /repo checkout -- . && git -C /repo status --short | head -3
