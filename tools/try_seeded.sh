#!/bin/sh
# tools/try_seeded.sh <seeded-dir> <check-id>...
# Applies the patch to $REPO_DIR (default /repo), runs the checks of $VERIF_DIR (default /verif) with evidence diverted, reverts.
# Prints one line per check: DETECTED / MISSED / TOOLERR.
V=${VERIF_DIR:-/verif}; R=${REPO_DIR:-/repo}
d=$1; shift
cd $R && git diff --quiet || { echo "$R not clean"; exit 2; }
git apply "$d/patch.diff" || { echo "patch does not apply: $d"; exit 2; }
mkdir -p $V/work/seeded-evidence
for id in "$@"; do
  (cd $V && VERIF_EVIDENCE_DIR=$V/work/seeded-evidence ./check $id --tier ${TIER:-quick} > $V/work/seeded-$(basename $d)-$id.log 2>&1); rc=$?
  case $rc in 1) r=DETECTED;; 0) r=MISSED;; *) r=TOOLERR;; esac
  echo "$(basename $d) $id $r  $(grep -m1 -A1 '^VIOLATION' $V/work/seeded-$(basename $d)-$id.log | tail -1 | cut -c1-160)"
done
git -C $R checkout -- . && git -C $R status --short | head -3
