#!/usr/bin/env python3
"""tools/keep_seeded.py <name> <property> <detected-by comma list> <missed-by comma list or -> [note]
Copies /tmp/seeded/<name> to /verif/seeded/<name> and writes meta.json."""
import json, os, shutil, sys
name, prop, det, miss = sys.argv[1:5]
note = sys.argv[5] if len(sys.argv) > 5 else ""
src, dst = "/tmp/seeded/" + name, "/verif/seeded/" + name
os.makedirs(dst, exist_ok=True)
for f in ("patch.diff", "demo.rs", "notes.md"):
    shutil.copy(os.path.join(src, f), os.path.join(dst, f))
notes = open(os.path.join(src, "notes.md")).read()
meta = {"id": name, "base_commit": "8def960", "breaks_property": prop, "origin": "fresh sub-agent given only the property text and a scratch worktree (later rounds: asked for changes harder to notice than the earlier ones)",
        "needs_to_manifest": " ".join(notes.split())[:600],
        "confirmed": {"how": "tools/verify_seeded.sh in a scratch worktree of /repo HEAD: patch applies, `cargo test --offline` (187 + doc tests) passes with it, demo.rs as tests/demo.rs fails with it and passes without",
                      "result": "CONFIRMED"},
        "checks_run": "tools/try_seeded.sh (patch applied to a private copy of /repo, quick tier, evidence diverted)",
        "detected_by": [d for d in det.split(",") if d and d != "-"], "missed_by": [m for m in miss.split(",") if m and m != "-"], "note": note}
json.dump(meta, open(os.path.join(dst, "meta.json"), "w"), indent=1)
print("kept", name)
