#!/bin/sh
# Runs every claimed check (quick tier by default) on the current /repo tree and rewrites the evidence files.
cd "$(dirname "$0")/.."
tier=${1:-quick}
mkdir -p work
for id in $(python3 -c "import json;print(' '.join(c['property_id'] for c in json.load(open('MANIFEST.json'))['checks']))"); do
  ./check $id --tier $tier > work/run-$id.log 2>&1; echo "$id exit $?  $(tail -1 work/run-$id.log)"
done
