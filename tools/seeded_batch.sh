#!/bin/sh
# runs each seeded mutant under /tmp/seeded against the checks listed for it
cd /verif
run() { d=$1; shift; tools/try_seeded.sh /tmp/seeded/$d "$@"; }
run c01-a C01
run c01-b C01 C10
run c02-a C02
run c02-b C02
run c05-a C05
run c05-b C05 C10
run c10-a C10
run c10-b C10 C01
run c11-a C11 C10
run c11-b C11 C02
run c12-a C12
run c12-b C12
