#!/bin/sh
# tools/sandbox_copy.sh <dir>: private copies of /verif and /repo under <dir> so that seeded patches can be tried
# without touching /repo and without being disturbed by edits to /verif.  Remove <dir> afterwards.
set -e
D=$1
mkdir -p $D
rsync -a --delete --exclude work --exclude replays --exclude design-probes /verif/ $D/verif/
rsync -a --delete --exclude target /repo/ $D/repo/
sed -i "s|path = \"/repo\"|path = \"$D/repo\"|" $D/verif/harness/Cargo.toml
mkdir -p $D/verif/work
echo "VERIF_DIR=$D/verif REPO_DIR=$D/repo"
