#!/usr/bin/env python3
"""Regenerates MANIFEST.json from the table below (single source of truth for what is claimed)."""
import json, os, subprocess
HERE = os.path.dirname(os.path.dirname(os.path.abspath(__file__)))
props = [json.loads(l)["id"] for l in open(os.path.join(HERE, "properties.jsonl"))]

CHECKS = {
 "C10": dict(
   text="TLC explores the character-level Lexer machine (one action per loop of src/tokenizer.rs) over every input up to 4 (thorough 5) characters from four 14-character alphabets covering every character class and 1-4 byte characters, under the built-in and an extended operator set, checking tiling, payload, maximal-munch, whole-word and classification invariants in every state; every complete behaviour is replayed through the real tokenizer (hook H1) and random UTF-8 executions of the real tokenizer are validated by TLC against the same machine. Exhaustive in the small scope, sampled with an exact oracle beyond it.",
   note="Trusted: TLC, hook H1 driving the tokenizer as the parser does, the JSON encodings, the harness comparison. Number tokens are compared by span and validity only.",
   technique="TLA+ Lexer state machine: TLC exhaustive small-scope model checking + spec-to-code replay + code-to-spec trace validation",
   design="5/C10"),
 "C02": dict(
   text="TLC explores a PlusCal transcription of src/parser.rs (one label per call site, including the repaired parse_op) and checks in every final state that its result conforms to an independent stratified reference grammar (one non-terminal per precedence level, no binding powers): exhaustively for every token string up to 4 (thorough 5) tokens over a 14-token operator alphabet, and for sentence families covering all 32x32 ordered pairs of built-in infix operators in 6 shapes, all triples over one representative per level/associativity, and 14 decorations (prefix, postfix, not, conditionals, calls, lists, maps, chains). Every behaviour TLC enumerated is concretised and parsed by the real parser (AST compared structurally), and random programs parsed by the real parser are judged by TLC with the reference grammar on the token sequence the real tokenizer reported.",
   note="Trusted: TLC, hook H1 (token sequence), the JSON/AST encodings, the concretisation table. Exhaustive only within the stated scopes; sampled with an exact oracle beyond.",
   technique="PlusCal Pratt machine vs stratified reference grammar in TLA+: TLC exhaustive small-scope + sentence families, replayed in the real parser; trace validation of random programs",
   design="5/C02"),
 "C05": dict(
   text="Same machine and reference grammar as C02, with a four-valued verdict (MustAccept / MayAccept for the lenient readings the property allows / Unspecified / MustReject): TLC explores every token string up to 5 tokens over a 13-token delimiter/separator alphabet and up to 6 (thorough 7) tokens over four focused alphabets (calls, lists, maps, conditionals); an accepted string must be a sentence with exactly the reference tree and a MustReject string must be rejected; every behaviour is replayed in the real parser. Random programs with token-level and character-level corruptions are parsed by the real code and judged by TLC (lexical failure or MustReject => Err).",
   note="Trusted: TLC, hook H1, encodings. MayAccept classes (omitted/trailing `;`, trailing comma in list/map, unregistered operator in prefix position, > 200 tokens) can be accepted or rejected but never with another tree.",
   technique="PlusCal Pratt machine vs reference grammar verdicts: TLC exhaustive over token strings, replay in the real parser, trace validation of corrupted programs",
   design="5/C05"),
 "C01": dict(
   text="Termination and crash-freedom are checked as safety properties of the two machines (Lexer: every input up to 4/5 characters incl. 2-, 3- and 4-byte characters, deadlock check on, step budget, every slice on a character boundary; Pratt: every token string up to 4/5 tokens, step budget, bounded call stack, nesting budget exercised with MaxDepth = 3, termination under fairness on the smallest configuration). Every input TLC enumerated is then run through parse_expression, execute, expr() and describe() in a supervised child process (panic caught; abort and hang detected by exit status / watchdog and bisected to the input), 31 pump families derived from the machines' recursion cycles are scaled to 10^5 (10^6 thorough), and random UTF-8 inputs are run and their recorded outcomes validated by TLC against the Lexer machine and the reference grammar.",
   note="The abort/hang half is observed by process supervision; the specification contributes the input families, the recursion cycles and the termination argument. Trusted: TLC, watchdogs (120-300 s for millisecond work), 2 MiB thread stack in a debug build.",
   technique="TLA+ Lexer/Pratt machines (TLC: deadlock, step budget, depth bound, liveness) + supervised replay of enumerated inputs and pump families + trace validation of random inputs",
   design="5/C01"),
 "C11": dict(
   text="On the specification TLC checks that wrapping every sub-expression of every tree the Pratt machine returns in 1 and 2 redundant parentheses leaves RefParse unchanged. Every accepted program of the operator, pair, decoration and delimiter configurations is parsed by the real parser in 4 (thorough 16) seeded layouts (whitespace strings over space/tab/CR/LF at every boundary, none next to delimiters): token kinds/texts and tree must not change; the wrapped token strings are parsed with every redundant parenthesis written 1, 2, 5 times and one pair 64 times; random programs under random layouts are validated by TLC against the reference grammar on the reported tokens.",
   note="Known finding C11/nesting-budget: beyond 256 nesting levels extra parentheses are refused (documented limit of the C01 repair). Names are not operator words. Trusted: TLC, hook H1, encodings.",
   technique="TLA+ Render/Wrap theorem checked by TLC + replay of laid-out and parenthesised variants in the real parser + trace validation",
   design="5/C11"),
 "C12": dict(
   text="TLC checks on the specification that RefParse(Render(t)) = t and that Render is idempotent for every tree the Pratt machine returns on all token strings up to 4 tokens, all operator pairs in 6 shapes and 14 decorations (all triples in thorough) - validating where parentheses are needed. Each such program is parsed by the real parser, expr() is re-parsed (must be equal), rendered again (must be the same string), and the token sequence of expr() is given to TLC, which checks with the reference grammar that the text means the tree, independently of the implementation's parser. Random programs get the same checks.",
   note="The text of expr() is never compared with Render (spacing, redundant parentheses are free). Trusted: TLC, hook H1, encodings.",
   technique="TLA+ Render vs RefParse round-trip theorem (TLC) + real expr() round trips + trace validation of rendered text against the reference grammar",
   design="5/C12"),
 "C03": dict(
   text="The reference layer (TLA+ modules Builtins / Decimal / BigNum / Values: exact decimal arithmetic on base-10^4 limb sequences, 64-bit two's-complement bit operations, structural equality, typed fault table) is evaluated by TLC on every application of every built-in infix (32), prefix (6), postfix (2) operator and aggregate (4) to every tuple of a 37-value (thorough 52-value) universe covering every value type; each application is evaluated by the real engine (operands bound in the context and, where possible, as literals) and compared; random wide-domain applications recorded from the engine are validated by TLC.",
   note="Don't-care classes (rust_decimal rounding latitude) are explicit and counted in the evidence. The limb arithmetic is itself checked against TLC's integers (C09). Trusted: TLC, value encodings.",
   technique="TLA+ reference semantics of the built-ins evaluated exhaustively by TLC over a value universe, replayed in the real evaluator; trace validation of random applications",
   design="5/C03"),
 "C04": dict(
   text="Same reference layer with its explicit fault table (zero divisor, result beyond 2^96, shift count outside 0..63, non-integral / out-of-i64 operand of a bit operator, empty min/max, every type mismatch => Err): every operator and aggregate over the edge universe (0, +-1, +-0.5, 63, 64, 65, i64 MIN/MAX, 2^63, 2^96-1, 2^96-2, 10^-28, 1+10^-28, ...) is evaluated by the engine in BOTH a debug and a release build and must give Err exactly where the table says so, never a panic, and the exact value otherwise; random near-edge operands are validated by TLC.",
   note="Don't-care: 2^96-1 < |exact| < 2^96, results needing > 28 places, a << b with bits shifted out (wrap or Err), % with alignment beyond 96 bits. Trusted: TLC, value encodings.",
   technique="TLA+ fault table + exact limb arithmetic (TLC) replayed in debug and release builds of the real evaluator; trace validation of near-edge operands",
   design="5/C04"),
 "C09": dict(
   text="Exactness is specified on limb sequences (BigNum/Decimal) because TLC integers are 32-bit; the limb arithmetic is model-checked against TLC's native integers (all pairs 0..320 plus boundary values, general division, 2^63/2^64/2^96 constants). All 75x75 pairs of small decimals (mantissa -12..12, scale 0..2) under + - * % < <= > >= == != += -= *= %= are evaluated by TLC and by the real engine (literals and variables). Recorded literals (random digit strings up to 28 digits, scales 0..28, malformed texts) must evaluate to exactly that mantissa and scale or be rejected, and recorded random / boundary 96-bit operand pairs must give the exact result whenever it fits - both validated by TLC.",
   note="Exhaustive only on the scaled-down domain; the 96-bit domain is sampled with an exact oracle. Literals with more than 28 digit characters are don't-care.",
   technique="TLA+ BigNum/Decimal exact arithmetic (self-checked by TLC) as executable oracle: small-domain exhaustive replay + trace validation of literals and wide operands",
   design="5/C09"),
 "C06": dict(
   text="The evaluator is specified twice in TLA+ (module Eval): a big-step denotation Den and a small-step machine that follows ExprAST::exec branch by branch (for an assignment: operator type lookup, target read, right side, name check, handler lookup, handler, store, value None). TLC checks machine = Den (value, final context also at the point of a failure, handler log) on every chain of up to 2 (thorough 3) statements over a 23-statement alphabet (plain, compound, nested, re-typing, self-referential, failing assignments; assignment to a literal, a list, a function-bound name; reads of bound and unbound names) x 5 initial contexts x 3 fault settings, and every behaviour is executed by the real evaluator on an ExprAST built directly, with the caller's Context inspected afterwards. `x op= e` = `x = x op e` over the value universe squared is checked through the operator tables; random multi-statement programs are validated by TLC against Den.",
   note="Programs are built as ExprAST values, so the check does not depend on the parser. An assignment reads its target first (what the code does, and the property allows).",
   technique="TLA+ Eval machine vs denotation (TLC exhaustive over statement chains) + replay in the real evaluator + trace validation of random programs",
   design="5/C06"),
 "C07": dict(
   text="TLC checks the small-step evaluator machine against the denotation, plus source-order, at-most-once and stop-at-fault invariants, on every program shape of depth 1 over all node kinds and every depth-2 composition over 7 representative children, whose leaves are distinct logging context functions, crossed with boolean scripts and an error or panic injected at every invocation position. Every behaviour is rebuilt as an ExprAST and executed by the real evaluator with logging handlers: status, value, final context and the exact sequence of handler invocations (with arguments) must match. Random programs (depth <= 4) are recorded and validated by TLC.",
   note="Observation is through harness-supplied handlers (context functions, global functions, user operators); built-in handlers are not observable. Programs are built as ExprAST values.",
   technique="TLA+ Eval machine vs denotation with a handler-invocation log (TLC exhaustive over program shapes x scripts x fault positions) + replay + trace validation",
   design="5/C07"),
 "C14": dict(
   text="In the Eval machine the context mutex is a state variable and every handler invocation is a separate step; every scripted handler locks the handle of the context it is evaluated in. TLC checks on all program shapes and handler kinds (context function by call / bare name / assignment target, global function, user prefix / infix / postfix / assignment operator) that no handler is entered with the context lock held and that no state is a deadlock (negative control: BareRefHoldsLock). The real evaluator then runs each depth-1 behaviour 8 times, every handler additionally performing a re-entrant action (parse_expression, execute, register_function / prefix / infix / postfix, a blocking lock of the evaluating context's handle) under a watchdog; at every handler entry try_lock on the context handle and on the five global stores is logged and must succeed - also in every recorded random evaluation validated by TLC.",
   note="Registry-level re-entrancy with several threads is part of the concurrent model (C13). Deadlock is observed by a watchdog. Trusted: TLC, hook H4 (locks_free), encodings.",
   technique="TLA+ Eval machine with explicit lock state (TLC: NoLockAcrossHandler, NoDeadlock) + supervised replay with re-entrant handlers + lock bits in validated traces",
   design="5/C14"),
 "C15": dict(
   text="Same machine: an error and a panic are injected at every invocation position of every handler kind on all program shapes (depth 1 all kinds, depth 2 compositions); TLC checks that the machine stops at the fault, that the context lock is free and unpoisoned in every final state and that the context equals the denotation at the fault point. The real evaluator is run on each behaviour (panic caught by the harness); the log must stop at the fault, and afterwards the same context is used again (set, get, a fresh evaluation), an evaluation runs on another thread, a registration is made and all five global mutexes are probed. Random programs with random faults get the same treatment, validated by TLC.",
   note="Trusted: TLC, hook H4, catch_unwind in the harness, encodings.",
   technique="TLA+ Eval machine with fault injection at every handler invocation (TLC: StopAtFault, NoPoison, context at fault point) + replay with follow-up probes + trace validation",
   design="5/C15"),
 "C17": dict(
   text="The conversion rules are TLA+ operators over exact limb arithmetic (module Conv): TLC checks that the accessor x variant matrix is total and that integer() accepts exactly the integral numbers inside i64 whatever their scale, and every cell (6 accessors x 52 universe values) is executed on the real Value. Recorded conversions are validated by TLC: Value::from for every integer type on MIN, MAX, values around 2^63 / 2^64 / 2^95..2^97 and random values (given as exact limb arrays: the same number, or no number at all beyond 96 bits), integer() / float() on random decimals of every scale, f32/f64 incl. NaN, infinities, subnormals and values around the decimal range given as exact (mantissa, exponent) pairs, and the round trips.",
   note="Known findings (listed in known-findings.txt, printed as KNOWN-FINDING): From<i128/u128/f64/f32> outside the decimal range yields Number(0) (i128::MIN panics in debug builds) - the From signature cannot report failure. Numeric domain sampled at boundaries + random.",
   technique="TLA+ conversion rules over exact limb arithmetic: TLC-enumerated accessor matrix replayed on the real Value + trace validation of recorded conversions",
   design="5/C17"),
 "C18": dict(
   text="The descriptor store is a TLA+ state machine whose only transition is SetDescriptor; the lookups get_*_descriptor are transcribed as the code writes them (key construction, variant match, fallback) and checked in every reachable state against the reference rendering D (own key only, last registration wins, documented default otherwise) on programs containing all nine kinds, `-` as unary and binary and f as function and reference; NonInterference is an action property. Every history of up to 2 (thorough 3) registrations over 14 keys is replayed in a fresh process of the real engine with marker descriptors and describe() compared string for string; random histories x random parsed programs recorded from fresh processes are validated by TLC.",
   note="Trusted: TLC's string concatenation, hook H3 (DescriptorManager re-export), the marker closures. Literals in the programs are numbers and booleans.",
   technique="TLA+ descriptor-store state machine vs reference rendering (TLC exhaustive over registration histories) + replay in fresh processes + trace validation",
   design="5/C18"),
 "C13": dict(
   text="An explicit TLA+ model of the engine as a concurrent system (module Engine: the once-cell with its four built-in registration stages, one mutex per registry with separate acquire and release steps, evaluations as plans of lookups and handler invocations, re-entrant handlers as nested frames) is checked by TLC on first-use races of 2 and 3 threads, re-entrant and fine-grained configurations: NoPartialInit, BuiltinsComplete, OneLockAtATime, NoLockInHandler, deadlock freedom, EvalReadsOnly, termination under fairness, and linearizability against the atomic engine. Conformance: first-use scenarios are executed in fresh child processes under every thread order over the first 6 (thorough 8) yield points (hook H2, a controller releasing one thread per step) and 150 (thorough 1500) free-running stress runs with 2-6 (8) threads; every recorded event list, ordered by one atomic sequence counter, is validated by TLC against the atomic engine - TLC chooses the linearization point of each call between its call and return events (silent action), checks NoPartialInit on the probe events and that each handler that ran is the one its call resolved.",
   note="Known finding C13/nonatomic-eval (F1): an evaluation is several critical sections, so execute(\"g() + (2 + 3)\") overlapped by a re-registration of + returns 0 (sequential orders: 6, 2); reproduced deterministically and printed as KNOWN-FINDING; the model's invariant is LinearizableOrF1. Schedules can be forced only at hook yield points; std Mutex/OnceCell are trusted.",
   technique="TLA+ concurrent Engine model (TLC: invariants, deadlock, liveness, linearizability) + forced schedules and stress runs in fresh processes + trace validation with silent linearization points",
   design="5/C13"),
 "C08": dict(
   text="Three parts, all decided with the specification. Dispatch: 12 binding configurations of a called name (context function, global, both, context variable with/without a global, nothing, built-in, built-in shadowed / replaced, a name turning from function into variable mid-program) in the Eval machine vs its denotation, replayed on the real evaluator with marker handlers. Histories: every sequence of up to 3 (thorough 4) calls over {register h1, register h2, evaluate} for 9 registry cells (new names and built-in overrides of every operator kind; the first call of the process may be a registration) plus interleavings of two cells, each run in a fresh process and validated by TLC against the atomic engine (last writer wins, nothing before the built-in tables are complete). Tables: 28 user operators at precedences 1,2,3,109..111,119..121,199..201,10^9-1,10^9 x {left,right} registered together; all ordered pairs of them and of 7 built-in representatives in 6 shapes through the Pratt machine vs the reference grammar under that table, replayed in the real parser; random programs using them validated by TLC; and the binding-power arithmetic (2p, 2p+-1) is proved by TLAPS to order operators exactly by (precedence, associativity) for ALL naturals and to fit i32 up to 10^9.",
   note="A chain that mixes left- and right-associative operators of one level is Unspecified (don't-care); its grouping may still not depend on the operands' shape. Trusted: TLC, TLAPS back ends, hooks H1/H2, marker handlers.",
   technique="TLA+ Eval dispatch + atomic Engine histories (trace validation) + Pratt machine under an extended operator table (TLC, replay) + TLAPS proof of the binding-power lemmas",
   design="5/C08"),
 "C16": dict(
   text="In the specification a result is a function of (program, context contents, registrations so far) by construction (Den, atomic engine), so conformance to it is the property: TLC checks EvalReadsOnly on the Engine model and machine = Den on programs that assign, fail midway and reuse names; every such behaviour is evaluated by the real engine three times on equal fresh contexts, interleaved with its neighbours' evaluations in one process - outcomes must be identical and equal the denotation, the registry snapshot (hook H5) equal before and after every parse and evaluation, and parsing the rendered program twice (an unrelated failing parse in between) must give equal trees. 2400 (thorough 16000) random programs are evaluated concurrently by 8 threads on their own contexts and every recorded outcome is validated by TLC against Den.",
   note="Under concurrency the try_lock lock probes are not used (unsound with other threads inside their own critical sections). Trusted: TLC, hooks H4/H5, encodings.",
   technique="TLA+ Den / atomic engine as the definition of determinism: replay with repetition and interleaving + registry snapshots + trace validation of concurrent evaluations",
   design="5/C16"),
}
NOT_YET = "check not built yet (build in progress; see DESIGN.md section 11)"

def hooks_commits():
    try:
        out = subprocess.run(["git", "-C", "/repo", "log", "--format=%H", "--grep=verif-hooks"], stdout=subprocess.PIPE, text=True).stdout.split()
        return out
    except Exception:
        return []

m = {"version": 1,
     "setup_cmd": "./setup.sh",
     "hooks": {"guard": "cargo feature verif-hooks (off by default)",
               "enable": "harness/Cargo.toml: expression_engine = { path = \"/repo\", features = [\"verif-hooks\"] }",
               "baseline_off_cmd": "cd /repo && cargo test --workspace --no-fail-fast --offline",
               "source_commits": hooks_commits(), "add_only": True},
     "engines": [{"name": "tlc", "path": "spec/", "serves_properties": sorted(CHECKS), "kind_free_text": "explicit TLA+/PlusCal specification checked with TLC; trace validation and replay through harness/ (Rust crate vh)"}],
     "checks": [], "not_applicable": [],
     "notes": "Every check: ./check <ID> (VERIF_TIER / --tier, VERIF_SEED). Exit 0 held, 1 VIOLATION, 2 tool error. Known findings: known-findings.txt."}
# legs added after the first build (DESIGN 12.5 "later growth"); appended to the level text of the property they serve
ADDED = {
 "C01": " Later: directed run-time-fault inputs (argument-less built-ins, out-of-range shifts, DEL and control characters) head the totality record; edge integer literals in the spelling table.",
 "C02": " Later: chains of four operators over one operator per precedence level in 3 shapes (five over every second level, thorough), `not` at each position of the triples, 20 decorations.",
 "C03": " Later: a conditional family (unselected branch fails or assigns); the universes hold the neighbours of 2^32, integral values at scale 20/28, negative zero, multi-byte prefix strings and numeric-looking strings.",
 "C05": " Later: a lexical-error token (`bad`) in the list and call alphabets of the Pratt machine; corruptions with non-engine blanks, an invalid token behind a closer, glued word operators; long literals with ill-formed tails.",
 "C06": " Later: spec/ContextApi.tla (handles on shared stores, create_context!, set/get/value, execute through an alias): all 222 024 histories of <= 4 operations replayed, random histories validated by TLC; mismatches attributed to C06 or C08 by the last writer of the name.",
 "C07": " Later: conditional ladders with a non-boolean rung, chains in which an operator application fails, a family in which one name occurs several times (called and bare), a callee rebound by its own argument.",
 "C08": " Later: the reference grammar specifies a level holding both associativities per chain (only a chain that really mixes them is Unspecified); operand-shape independence on such levels (MixSource / TraceShape); user pairs parsed after a flipped-associativity registration history; ContextApi histories (function-entry class).",
 "C09": " Later: Literal!LitVerdict counts significant digits (leading zeros do not count); negative zero among the small decimals.",
 "C10": " Later: alphabets A5 (Unicode white space the engine treats as name characters, both quotes) and A6 with operator set OpsOdd (user operators ~ @@ U+2260 a~, DEL, backslash); long literals in the random inputs.",
 "C11": " Later: tight layouts (white space dropped greedily where hook H1 reports the same tokens, and blindly with the Lexer specification deciding which variants are the same token sequence); the bare rendering of every specified tree must parse to that tree like its fully parenthesised twin; user-operator pairs (thorough).",
 "C12": " Later: user-operator pairs rendered after a registration history (same names first registered with other precedences and flipped associativities, used once, replaced); decorations with nested conditionals; strings with backslash and control characters; string payloads decoded independently of expr().",
 "C13": " Later: four hammer scenarios (single-registry programs; programs using several registries at once; program-order expectations across tables with long operator names; precedence+associativity re-registration with grouping witnesses) and 36 rendez-vous scenarios (a handler of each kind waits for another thread's engine call).",
 "C14": " Later: `+` replaced by a user handler in the shapes environment; the outer evaluation also through execute(text) twice; directed deep re-entrancy probes (a hung probe is a deadlock).",
 "C15": " Later: the dispatch configurations with faults; the depth-1 fault cases also through execute(text) on a second handle (a panic must reach the caller as an unwind there too).",
 "C16": " Later: every program also from ONE reused line buffer through execute(); fixed parse probes after every case; a fresh thread's first call between runs with no re-registration; tokenizer history dependence (before/after a registration vs a fresh process).",
 "C17": " Later: a float that is a whole number must convert exactly (Conv!FloatExact); edge floats at the integer types' boundaries.",
 "C18": " Later: trees of several hundred levels (MCDescribe Deep); empty containers and an argument-less call; every second history also describes before and between the registrations.",
}

for p in props:
    if p in CHECKS:
        c = CHECKS[p]
        m["checks"].append({"property_id": p, "quick_cmd": "./check %s --tier quick" % p, "thorough_cmd": "./check %s --tier thorough" % p,
                            "evidence_file": "/verif/evidence/%s.json" % p, "replay_cmd_template": "./check %s --replay {path}" % p, "engine": "tlc",
                            "level_claimed": {"category": "model_checking", "text": c["text"] + ADDED.get(p, ""), "design_ref": c["design"]},
                            "level_note": c["note"], "technique": c["technique"]})
    else:
        m["not_applicable"].append({"property_id": p, "reason": NOT_YET})
json.dump(m, open(os.path.join(HERE, "MANIFEST.json"), "w"), indent=1)
print("claimed:", sorted(CHECKS))
