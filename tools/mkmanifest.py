#!/usr/bin/env python3
"""Regenerates MANIFEST.json from the table below (single source of truth for what is claimed)."""
import json, os, subprocess
HERE = os.path.dirname(os.path.dirname(os.path.abspath(__file__)))
props = [json.loads(l)["id"] for l in open(os.path.join(HERE, "properties.jsonl"))]

CHECKS = {
 "C10": dict(
   text="TLC explores the character-level Lexer machine (one action per loop of src/tokenizer.rs) over every input up to 4 (thorough 5) characters from four 14-character alphabets covering every character class and 1-4 byte characters, under the built-in and an extended operator set, checking tiling, payload, maximal-munch, whole-word and classification invariants in every state; every complete behaviour is replayed through the real tokenizer (hook H1) and random UTF-8 executions of the real tokenizer are validated by TLC against the same machine. Exhaustive in the small scope, sampled with an exact oracle beyond it.",
   note="Trusted: TLC, hook H1 driving the tokenizer as the parser does, the JSON encodings, the harness comparison. Number tokens are compared by span and validity only.",
   technique="TLA+ Lexer state machine: TLC exhaustive small-scope model checking + spec-to-code replay + code-to-spec trace validation",
   design="5/C10"),
}
NOT_YET = "check not built yet (build in progress; see DESIGN.md section 11)"

def hooks_commits():
    try:
        out = subprocess.run(["git", "-C", "/repo", "log", "--format=%H", "--grep=verif-hooks"], stdout=subprocess.PIPE, text=True).stdout.split()
        return out
    except Exception:
        return []

m = {"version": 1,
     "setup_cmd": "./setup.sh",
     "hooks": {"guard": "cargo feature verif-hooks (off by default)",
               "enable": "harness/Cargo.toml: expression_engine = { path = \"/repo\", features = [\"verif-hooks\"] }",
               "baseline_off_cmd": "cd /repo && cargo test --workspace --no-fail-fast --offline",
               "source_commits": hooks_commits(), "add_only": True},
     "engines": [{"name": "tlc", "path": "spec/", "serves_properties": sorted(CHECKS), "kind_free_text": "explicit TLA+/PlusCal specification checked with TLC; trace validation and replay through harness/ (Rust crate vh)"}],
     "checks": [], "not_applicable": [],
     "notes": "Every check: ./check <ID> (VERIF_TIER / --tier, VERIF_SEED). Exit 0 held, 1 VIOLATION, 2 tool error. Known findings: known-findings.txt."}
for p in props:
    if p in CHECKS:
        c = CHECKS[p]
        m["checks"].append({"property_id": p, "quick_cmd": "./check %s --tier quick" % p, "thorough_cmd": "./check %s --tier thorough" % p,
                            "evidence_file": "/verif/evidence/%s.json" % p, "replay_cmd_template": "./check %s --replay {path}" % p, "engine": "tlc",
                            "level_claimed": {"category": "model_checking", "text": c["text"], "design_ref": c["design"]},
                            "level_note": c["note"], "technique": c["technique"]})
    else:
        m["not_applicable"].append({"property_id": p, "reason": NOT_YET})
json.dump(m, open(os.path.join(HERE, "MANIFEST.json"), "w"), indent=1)
print("claimed:", sorted(CHECKS))
