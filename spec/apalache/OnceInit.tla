---- MODULE OnceInit ----
(***************************************************************************)
(* The lazy one-time initialisation protocol of module Engine, isolated    *)
(* and typed for Apalache, so that NoPartialInit can be established by an  *)
(* INDUCTIVE invariant for more threads than TLC explores (C13):           *)
(*   IndInit   => IndInv          (apalache-mc check --init=IndInit ...)   *)
(*   IndInv /\ Next => IndInv'    (--init=IndInv --inv=IndInv --length=1)  *)
(*   IndInv    => NoPartialInit                                            *)
(* Thread states: "idle" (not yet called), "init" (inside init(), waiting  *)
(* for or about to take the once-cell), "initing" (running the closure),   *)
(* "run" (past init(), touching registries), "done".                       *)
(***************************************************************************)
EXTENDS Integers, FiniteSets
CONSTANTS
  \* @type: Set(Int);
  Threads,
  \* @type: Bool;
  FlagEarly     \* negative control: the cell is marked complete before the closure has run
VARIABLES
  \* @type: Str;
  once,
  \* @type: Int;
  stage,
  \* @type: Int;
  owner,
  \* @type: Int -> Str;
  pc
ConstInit == Threads = 1..8 /\ FlagEarly = FALSE
ConstInitBad == Threads = 1..8 /\ FlagEarly = TRUE
NoOwner == 0
Init == once = "uninit" /\ stage = 0 /\ owner = NoOwner /\ pc = [t \in Threads |-> "idle"]
Begin(t) == pc[t] = "idle" /\ pc' = [pc EXCEPT ![t] = "init"] /\ UNCHANGED <<once, stage, owner>>
Enter(t) == pc[t] = "init" /\ once = "uninit" /\ once' = (IF FlagEarly THEN "done" ELSE "running") /\ owner' = t /\ pc' = [pc EXCEPT ![t] = "initing"] /\ UNCHANGED stage
Stage(t) == pc[t] = "initing" /\ stage < 4 /\ stage' = stage + 1 /\ UNCHANGED <<once, owner, pc>>
Finish(t) == pc[t] = "initing" /\ stage = 4 /\ once' = "done" /\ pc' = [pc EXCEPT ![t] = "run"] /\ UNCHANGED <<stage, owner>>
Pass(t) == pc[t] = "init" /\ once = "done" /\ pc' = [pc EXCEPT ![t] = "run"] /\ UNCHANGED <<once, stage, owner>>
Work(t) == pc[t] = "run" /\ pc' = [pc EXCEPT ![t] = "done"] /\ UNCHANGED <<once, stage, owner>>
Again(t) == pc[t] = "done" /\ pc' = [pc EXCEPT ![t] = "idle"] /\ UNCHANGED <<once, stage, owner>>
Next == \E t \in Threads : Begin(t) \/ Enter(t) \/ Stage(t) \/ Finish(t) \/ Pass(t) \/ Work(t) \/ Again(t)
\* the property: whoever is past init() sees complete tables
NoPartialInit == \A t \in Threads : pc[t] \in {"run", "done"} => (once = "done" /\ stage = 4)
\* the inductive invariant
TypeOK == /\ once \in {"uninit", "running", "done"} /\ stage \in 0..4 /\ owner \in Threads \cup {NoOwner}
          /\ pc \in [Threads -> {"idle", "init", "initing", "run", "done"}]
IndInv ==
  /\ TypeOK
  /\ (once = "uninit") => (stage = 0 /\ owner = NoOwner /\ \A t \in Threads : pc[t] \in {"idle", "init"})
  /\ (once = "running") => (owner \in Threads /\ pc[owner] = "initing" /\ \A t \in Threads : (t # owner => pc[t] \in {"idle", "init"}))
  /\ (once = "done") => (stage = 4 /\ \A t \in Threads : pc[t] # "initing")
  /\ \A t \in Threads : pc[t] = "initing" => (once = "running" /\ owner = t)
IndInit == IndInv
====
