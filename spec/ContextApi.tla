---- MODULE ContextApi ----
(***************************************************************************)
(* The Context API as a state machine (src/context.rs and the way          *)
(* execute / ExprAST::exec use a Context).                                 *)
(*                                                                         *)
(* A Context is a HANDLE on a shared store (Arc<Mutex<HashMap>>): the      *)
(* public field .0 can be cloned into a second handle on the same store    *)
(* (that is how execute(), which takes its Context by value, is used more  *)
(* than once on one store).  A store maps a name to a variable entry or a  *)
(* function entry; a later set of either kind replaces the entry.          *)
(*                                                                         *)
(* Operations (one action each; the linearization point is the call's      *)
(* return, the library is sequential here):                                *)
(*   New(h)            Context::new()                                      *)
(*   Alias(h, g)       Context(g.0.clone())                                *)
(*   Macro(h, t)       create_context!(...) with the pair list Template(t) *)
(*   SetVar(h, n, v)   set_variable                                        *)
(*   SetFunc(h, n, f)  set_func                                            *)
(*   GetVar / GetFunc  Some(payload) only for an entry of that kind        *)
(*   ValueOf(h, n)     Context::value: None for a missing name, the value  *)
(*                     of a variable, the result of calling a function     *)
(*                     entry with no arguments                             *)
(*   ExecRead(h, n)    execute("n", alias of h): the same as ValueOf       *)
(*   ExecAssign(h,n,v) execute("n = <literal of v>", alias of h)           *)
(*   ExecCall(h, n)    execute("n()", alias of h): the function entry's    *)
(*                     result; an error when n is not a function entry and *)
(*                     not a registered function                           *)
(* obs is what the call returned.  Properties: C06 (assignments land in    *)
(* the store they were made on, exactly), C08 (a name resolves to the      *)
(* binding set last), C16 (stores are isolated from each other).           *)
(***************************************************************************)
EXTENDS Naturals, Sequences, FiniteSets, TLC
CONSTANTS Names, Vals, Handlers, Handles, MaxStores,
          Ret(_),          \* what handler f returns when called with no arguments: <<"ok", v>> or <<"err">>
          NTemplates, Template(_)   \* pair lists of the create_context! invocations the harness has: <<<<name, entry>>, ...>>
VARIABLES stores,   \* sequence of stores, each [Names -> Entry]
          bound,    \* [Handles -> 0..MaxStores]: the store a handle is on (0: handle not created yet)
          obs       \* result of the last operation
vars == <<stores, bound, obs>>

NONE == <<"none">>
VarE(v) == <<"var", v>>
FnE(f) == <<"fn", f>>
Empty == [n \in Names |-> NONE]
Entries == {NONE} \cup {VarE(v) : v \in Vals} \cup {FnE(f) : f \in Handlers}

Init == stores = <<>> /\ bound = [h \in Handles |-> 0] /\ obs = <<"init">>

Live(h) == bound[h] # 0
St(h) == stores[bound[h]]
Put(h, n, e) == stores' = [stores EXCEPT ![bound[h]] = [@ EXCEPT ![n] = e]]

\* left to right, later pairs replace earlier ones with the same key
RECURSIVE Fold(_, _)
Fold(s, pairs) == IF pairs = <<>> THEN s ELSE Fold([s EXCEPT ![pairs[1][1]] = pairs[1][2]], Tail(pairs))

New(h) == /\ ~Live(h) /\ Len(stores) < MaxStores
          /\ stores' = Append(stores, Empty) /\ bound' = [bound EXCEPT ![h] = Len(stores) + 1] /\ obs' = <<"unit">>
Macro(h, t) == /\ ~Live(h) /\ Len(stores) < MaxStores
               /\ stores' = Append(stores, Fold(Empty, Template(t))) /\ bound' = [bound EXCEPT ![h] = Len(stores) + 1] /\ obs' = <<"unit">>
Alias(h, g) == /\ ~Live(h) /\ Live(g)
               /\ bound' = [bound EXCEPT ![h] = bound[g]] /\ obs' = <<"unit">> /\ UNCHANGED stores
SetVar(h, n, v) == Live(h) /\ Put(h, n, VarE(v)) /\ obs' = <<"unit">> /\ UNCHANGED bound
SetFunc(h, n, f) == Live(h) /\ Put(h, n, FnE(f)) /\ obs' = <<"unit">> /\ UNCHANGED bound
GetVar(h, n) == Live(h) /\ obs' = (IF St(h)[n][1] = "var" THEN <<"some", St(h)[n][2]>> ELSE <<"nothing">>) /\ UNCHANGED <<stores, bound>>
GetFunc(h, n) == Live(h) /\ obs' = (IF St(h)[n][1] = "fn" THEN <<"some", St(h)[n][2]>> ELSE <<"nothing">>) /\ UNCHANGED <<stores, bound>>
ValueResult(e) == CASE e[1] = "none" -> <<"ok", "none">> [] e[1] = "var" -> <<"ok", e[2]>> [] e[1] = "fn" -> Ret(e[2])
ValueOf(h, n) == Live(h) /\ obs' = ValueResult(St(h)[n]) /\ UNCHANGED <<stores, bound>>
ExecRead(h, n) == Live(h) /\ obs' = ValueResult(St(h)[n]) /\ UNCHANGED <<stores, bound>>
\* an assignment first reads its target the way a reference does (a function entry is called with no arguments; its failure
\* is the assignment's failure and nothing is stored), then stores, and evaluates to None
ExecAssign(h, n, v) == /\ Live(h) /\ UNCHANGED bound
                       /\ IF ValueResult(St(h)[n])[1] = "err" THEN obs' = <<"err">> /\ UNCHANGED stores
                          ELSE Put(h, n, VarE(v)) /\ obs' = <<"ok", "none">>
ExecCall(h, n) == Live(h) /\ obs' = (IF St(h)[n][1] = "fn" THEN Ret(St(h)[n][2]) ELSE <<"err">>) /\ UNCHANGED <<stores, bound>>

Next == \E h \in Handles :
          \/ New(h)
          \/ \E t \in 1..NTemplates : Macro(h, t)
          \/ \E g \in Handles : Alias(h, g)
          \/ \E n \in Names :
               \/ \E v \in Vals : SetVar(h, n, v) \/ ExecAssign(h, n, v)
               \/ \E f \in Handlers : SetFunc(h, n, f)
               \/ GetVar(h, n) \/ GetFunc(h, n) \/ ValueOf(h, n) \/ ExecRead(h, n) \/ ExecCall(h, n)
Spec == Init /\ [][Next]_vars

TypeOK == /\ \A k \in 1..Len(stores) : stores[k] \in [Names -> Entries]
          /\ bound \in [Handles -> 0..MaxStores]
          /\ \A h \in Handles : bound[h] <= Len(stores)
\* C16 / C06: a step changes at most one store and at most one name in it; reads change nothing
OneCellPerStep == [][\/ Len(stores') = Len(stores) + 1 /\ SubSeq(stores', 1, Len(stores)) = stores
                     \/ /\ Len(stores') = Len(stores)
                        /\ Cardinality({<<k, n>> \in (1..Len(stores)) \X Names : stores'[k][n] # stores[k][n]}) <= 1]_vars
\* handles on one store always agree; a handle never moves
HandlesStable == [][\A h \in Handles : bound[h] # 0 => bound'[h] = bound[h]]_vars
====
