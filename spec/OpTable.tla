---- MODULE OpTable ----
(***************************************************************************)
(* The operator configuration as a value.  An infix entry is               *)
(* <<precedence, associativity, type>>; binding powers are the doubled     *)
(* precedences the repaired engine uses (module BindingPower proves that   *)
(* comparing them is comparing (precedence, associativity)).               *)
(***************************************************************************)
EXTENDS Integers, Sequences, FiniteSets, TLC
Setters == {"=", "+=", "-=", "*=", "/=", "%=", "<<=", ">>=", "&=", "^=", "|="}
BuiltinInfix ==
  [op \in Setters |-> <<20, "R", "SETTER">>] @@
  ("||" :> <<40, "L", "CALC">>) @@ ("&&" :> <<50, "L", "CALC">>) @@
  [op \in {"<", "<=", ">", ">=", "==", "!="} |-> <<60, "L", "CALC">>] @@
  ("|" :> <<70, "L", "CALC">>) @@ ("^" :> <<80, "L", "CALC">>) @@ ("&" :> <<90, "L", "CALC">>) @@
  [op \in {"<<", ">>"} |-> <<100, "L", "CALC">>] @@
  [op \in {"+", "-"} |-> <<110, "L", "CALC">>] @@
  [op \in {"*", "/", "%"} |-> <<120, "L", "CALC">>] @@
  [op \in {"beginWith", "endWith", "in"} |-> <<200, "L", "CALC">>]
BuiltinPrefix == {"-", "+", "!", "not", "AND", "OR"}
BuiltinPostfix == {"++", "--"}
BuiltinFunctions == {"min", "max", "sum", "mul"}
BuiltinTable == [infix |-> BuiltinInfix, prefix |-> BuiltinPrefix, postfix |-> BuiltinPostfix]

IsInfix(T, op) == op \in DOMAIN T.infix
IsPrefix(T, op) == op \in T.prefix
IsPostfix(T, op) == op \in T.postfix
Prec(T, op) == T.infix[op][1]
Assoc(T, op) == T.infix[op][2]
OpType(T, op) == T.infix[op][3]
\* every text the tokenizer classifies as an operator token
AllOpTexts(T) == DOMAIN T.infix \cup T.prefix \cup T.postfix \cup {"?", ":"}
\* binding powers; DoubledBP = FALSE reproduces the pinned tree (negative control)
LBPd(T, op, doubled) == IF IsInfix(T, op) THEN (IF doubled THEN 2 * Prec(T, op) ELSE Prec(T, op)) ELSE -1
RBPd(T, op, doubled) == IF IsInfix(T, op)
                        THEN LBPd(T, op, doubled) + (IF Assoc(T, op) = "L" THEN 1 ELSE -1)
                        ELSE -1
\* the distinct precedence levels, ascending
Levels(T) == LET S == {Prec(T, op) : op \in DOMAIN T.infix}
                 RECURSIVE Sort(_)
                 Sort(R) == IF R = {} THEN <<>> ELSE LET m == CHOOSE x \in R : \A y \in R : x <= y IN <<m>> \o Sort(R \ {m})
             IN Sort(S)
\* a table is regular when every level has one associativity (otherwise the grouping at that level is unspecified)
LevelAssocs(T, p) == {Assoc(T, op) : op \in {o \in DOMAIN T.infix : Prec(T, o) = p}}
Regular(T) == \A op \in DOMAIN T.infix : Cardinality(LevelAssocs(T, Prec(T, op))) = 1
====
