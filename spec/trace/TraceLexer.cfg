SPECIFICATION TSpec
CONSTANTS MaxLen = 0
 Alphabet = {}
 Ops <- BuiltinOps
 SliceMode = "char"
 Lazy = FALSE
CHECK_DEADLOCK FALSE
INVARIANT TypeOK EndInv OnBoundary StepBudget ErrOnlyLexical
