SPECIFICATION TSpec
CHECK_DEADLOCK FALSE
CONSTRAINT Progress
POSTCONDITION TraceAccepted
