---- MODULE TraceEval ----
(***************************************************************************)
(* Trace validation for the evaluator (leg T of C03 / C06 / C07 / C14 /    *)
(* C15).  Each record is one observed ExprAST::exec of a program built     *)
(* directly as an AST (so the parser is not involved), in a context whose  *)
(* functions are scripted logging handlers: the program, the initial       *)
(* context, the handlers' return values, the injected fault, and what the  *)
(* engine did: status, value, final context, and the log of handler        *)
(* invocations with the lock bits observed at each entry.  TLC computes    *)
(* the denotation and compares every observable; the lock bits must all    *)
(* be TRUE whatever the program does.  One state per record.               *)
(***************************************************************************)
EXTENDS Eval, Json, IOUtils, TLC
Recs == ndJsonDeserialize(IOEnv.TRACE)
Field(r, f, default) == IF f \in DOMAIN r THEN r[f] ELSE default
EnvOfRec(r) ==
  [handlers |-> [h \in DOMAIN r.handlers |-> [ret |-> r.handlers[h], act |-> "none",
                                               copy |-> IF "copies" \in DOMAIN r /\ h \in DOMAIN r.copies THEN r.copies[h] ELSE <<>>]],
   gfun |-> Field(r, "gfun", <<>>), gprefix |-> Field(r, "gprefix", <<>>), gpostfix |-> Field(r, "gpostfix", <<>>),
   ginfix |-> Field(r, "ginfix", <<>>), fault |-> r.fault]
\* observed context entries: <<"var", v>> or <<"fn", h>> (which installed handler is bound there)
ObsCtxEq(spec, obs) == /\ DOMAIN spec = DOMAIN obs
                       /\ \A x \in DOMAIN spec : IF spec[x][1] = "var" THEN obs[x][1] = "var" /\ VEq(spec[x][2], obs[x][2])
                                                 ELSE obs[x][1] = "fn" /\ obs[x][2] = spec[x][2]
LogEq(spec, obs) == /\ Len(spec) = Len(obs)
                    /\ \A i \in 1..Len(spec) : /\ spec[i][1] = obs[i][1] /\ Len(spec[i][2]) = Len(obs[i][2])
                                               /\ \A j \in 1..Len(spec[i][2]) : VEq(spec[i][2][j], obs[i][2][j])
LocksFree(obs) == \A i \in 1..Len(obs) : obs[i][3] /\ obs[i][4]
Problems(r) ==
  LET d == Denote(EnvOfRec(r), r.prog, r.ctx0) o == r.obs IN
  (IF d.st = "dc" THEN (IF o.st = "panic" /\ r.fault[2] # "panic" THEN <<"panic">> ELSE <<>>)
   ELSE (IF o.st # d.st THEN <<"status">> ELSE IF d.st = "ok" /\ ~VEq(d.val, o.val) THEN <<"value">> ELSE <<>>)
        \o (IF ~LogEq(d.log, o.log) THEN <<"log">> ELSE <<>>)
        \o (IF ~o.poisoned /\ ~ObsCtxEq(d.ctx, o.ctx) THEN <<"context">> ELSE <<>>))
  \o (IF ~LocksFree(o.log) THEN <<"lock-held-in-handler">> ELSE <<>>)
  \o (IF o.poisoned THEN <<"poisoned">> ELSE <<>>)
  \o (IF o.followups # <<>> THEN <<"followup">> ELSE <<>>)
VARIABLE idx
\* the machine's variables are not used here (the reference layer is evaluated directly): park them
Park == env = 0 /\ prog = 0 /\ ctx0 = 0 /\ work = 0 /\ vals = 0 /\ ctx = 0 /\ ctxLock = 0 /\ log = 0 /\ n = 0 /\ status = 0
Init == idx = 1 /\ Park
Next == /\ idx <= Len(Recs)
        /\ LET r == Recs[idx] p == Problems(r) d == Denote(EnvOfRec(r), r.prog, r.ctx0) IN
           /\ (p # <<>>) => PrintT(ToJson([mismatch |-> idx - 1, problems |-> p, spec |-> [st |-> d.st, val |-> d.val, log |-> d.log]]))
           /\ PrintT(ToJson([rec |-> idx - 1, st |-> d.st, calls |-> Len(d.log)]))
        /\ idx' = idx + 1 /\ UNCHANGED mvars
        /\ (idx = Len(Recs)) => PrintT(ToJson([done |-> Len(Recs)]))
Spec == Init /\ [][Next]_<<idx, mvars>>
====
