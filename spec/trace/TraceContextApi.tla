---- MODULE TraceContextApi ----
(* Trace validation: operation sequences executed on real Contexts; every recorded result must be the model's. *)
EXTENDS ContextApi, Json, IOUtils
Recs == ndJsonDeserialize(IOEnv.TRACE)
TNames == {"n1", "n2", "n3"}
TVals == {"v1", "v2", "v3", "none"}
THandlers == {"h1", "h2", "h3"}
THandles == 1..4
TRet(f) == CASE f = "h1" -> <<"ok", "v2">> [] f = "h2" -> <<"err">> [] f = "h3" -> <<"ok", "none">>
TTemplate(t) ==
  CASE t = 1 -> <<>>
    [] t = 2 -> << <<"n1", VarE("v1")>> >>
    [] t = 3 -> << <<"n1", FnE("h1")>>, <<"n2", VarE("v2")>> >>
    [] t = 4 -> << <<"n1", VarE("v1")>>, <<"n1", FnE("h2")>> >>
    [] t = 5 -> << <<"n2", FnE("h1")>>, <<"n1", VarE("v2")>>, <<"n2", VarE("v1")>> >>
VARIABLE l
ToNat(s) == CHOOSE k \in 0..9 : ToString(k) = s
Step(r) ==
  CASE r.op = "new" -> New(r.h)
    [] r.op = "macro" -> Macro(r.h, ToNat(r.a1))
    [] r.op = "alias" -> Alias(r.h, ToNat(r.a1))
    [] r.op = "set_variable" -> SetVar(r.h, r.a1, r.a2)
    [] r.op = "exec_assign" -> ExecAssign(r.h, r.a1, r.a2)
    [] r.op = "set_func" -> SetFunc(r.h, r.a1, r.a2)
    [] r.op = "get_variable" -> GetVar(r.h, r.a1)
    [] r.op = "get_func" -> GetFunc(r.h, r.a1)
    [] r.op = "value" -> ValueOf(r.h, r.a1)
    [] r.op = "exec_read" -> ExecRead(r.h, r.a1)
    [] r.op = "exec_call" -> ExecCall(r.h, r.a1)
TInit == Init /\ l = 1
TNext == /\ l <= Len(Recs)
         /\ LET r == Recs[l] IN
            IF r.op = "reset" THEN stores' = <<>> /\ bound' = [h \in Handles |-> 0] /\ obs' = <<"init">>
            ELSE Step(r) /\ obs' = r.obs
         /\ l' = l + 1
TSpec == TInit /\ [][TNext]_<<vars, l>>
Accepted == IF TLCGet("stats").diameter - 1 = Len(Recs) THEN TRUE
            ELSE PrintT(ToJson([rejected_at |-> TLCGet("stats").diameter - 1]))   \* reported, judged by the caller (which goes on with the rest of the trace)
====
