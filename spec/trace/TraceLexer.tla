---- MODULE TraceLexer ----
(***************************************************************************)
(* Trace validation for the tokenizer (leg T of C10 / C01 / C05-lexical).  *)
(* Every record of the NDJSON file named by the environment variable TRACE *)
(* is one observed execution of the real tokenizer: the input (code        *)
(* points) and what hook H1 returned.  The driver loads the input into the *)
(* Lexer machine, runs the machine's own actions to a final state (all     *)
(* Lexer invariants are checked in every state on the way) and compares    *)
(* the observables.  A mismatch is printed and the driver goes on, so one  *)
(* rejection does not leave the rest of the file unexamined.               *)
(***************************************************************************)
EXTENDS Lexer, Json, IOUtils
Recs == ndJsonDeserialize(IOEnv.TRACE)
VARIABLES idx, nbad, ndc
tvars == <<vars, idx, nbad, ndc>>

Load(input) ==
  /\ inp' = input /\ eof' = TRUE /\ i' = 1 /\ start' = 0 /\ j' = 0 /\ mode' = "start" /\ out' = <<>>
  /\ st' = "run" /\ steps' = 0 /\ sliceBad' = FALSE /\ dc' = FALSE

TInit == /\ idx = 1 /\ nbad = 0 /\ ndc = 0
         /\ IF Len(Recs) = 0 THEN LexInit(<<>>, TRUE) ELSE LexInit(Recs[1].chars, TRUE)

SpecToks == [k \in 1..Len(out) |-> <<out[k].k, ByteLo(out[k]), ByteHi(out[k]), TokText(out[k])>>]
TokMatches(e, g) ==   \* e: the machine's token, g: the recorded token
  /\ e[1] = g[1] /\ e[2] = g[2] /\ e[3] = g[3]
  /\ IF e[1] = "bool" THEN (e[4] \in BoolTrue) = (g[4] = W(<<"t","r","u","e">>)) ELSE e[4] = g[4]
Matches(r) ==
  /\ ~r.panic
  /\ r.ok = (st = "done")
  /\ r.ok => /\ Len(r.toks) = Len(out)
             /\ \A k \in 1..Len(out) : TokMatches(SpecToks[k], r.toks[k])

Finish ==
  /\ st \in {"done", "err"} /\ idx <= Len(Recs)
  /\ LET r == Recs[idx] IN
     /\ IF dc THEN ndc' = ndc + 1 /\ nbad' = (IF r.panic THEN nbad + 1 ELSE nbad)
        ELSE /\ ndc' = ndc
             /\ IF Matches(r) THEN nbad' = nbad
                ELSE /\ nbad' = nbad + 1
                     /\ PrintT(ToJson([mismatch |-> idx - 1, spec |-> [ok |-> (st = "done"), toks |-> SpecToks]]))
     /\ idx' = idx + 1
     /\ IF idx + 1 <= Len(Recs) THEN Load(Recs[idx + 1].chars)
        ELSE /\ Load(<<>>)
             /\ PrintT(ToJson([done |-> Len(Recs), mismatches |-> nbad', dontcare |-> ndc']))

TNext == \/ (idx <= Len(Recs) /\ Step /\ UNCHANGED <<idx, nbad, ndc>>)
         \/ Finish
\* the Lexer invariants quantify over all emitted tokens, so in trace mode they are evaluated once per record,
\* in the final state (the exhaustive model-checking leg evaluates them in every state)
AtEnd == st \in {"done", "err"}
EndInv == AtEnd => (Tiling /\ TailIsWs /\ StrPayload /\ MaximalMunch /\ WholeWord /\ ClassRules)
TSpec == TInit /\ [][TNext]_tvars
====
