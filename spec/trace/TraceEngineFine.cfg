SPECIFICATION TSpec
CONSTANTS Atomic = FALSE
CHECK_DEADLOCK FALSE
CONSTRAINT Progress
INVARIANT NotDone
POSTCONDITION TraceAccepted
