SPECIFICATION TSpec
CONSTANTS BinaryKeyIsUnary = FALSE
CHECK_DEADLOCK FALSE
INVARIANT MachineIsReference
