---- MODULE TraceBuiltins ----
(***************************************************************************)
(* Trace validation for single applications of built-in operators and      *)
(* functions (leg T of C03 / C04 / C09).  Each record is one observed      *)
(* evaluation by the real engine: kind, operator, argument values and the  *)
(* result (for an assignment operator: the new binding of the target).     *)
(* TLC computes the reference outcome with exact limb arithmetic and       *)
(* checks that the observed result satisfies it.  One state per record.    *)
(***************************************************************************)
EXTENDS Builtins, Json, IOUtils, TLC
Recs == ndJsonDeserialize(IOEnv.TRACE)
Expected(r) ==
  CASE r.kind = "bin" -> Apply2(r.op, r.args[1], r.args[2])
    [] r.kind = "un" -> Apply1(r.op, r.args[1])
    [] r.kind = "post" -> ApplyPost(r.op, r.args[1])
    [] r.kind = "fn" -> ApplyFn(r.op, r.args)
Good(r) == r.actual[1] \in {"ok", "err"} /\ Allowed(Expected(r), r.actual)
VARIABLE idx
Init == idx = 1
Next == /\ idx <= Len(Recs)
        /\ LET r == Recs[idx] IN
           /\ (~Good(r)) => PrintT(ToJson([mismatch |-> idx - 1, expected |-> Expected(r)]))
           /\ PrintT(ToJson([rec |-> idx - 1, class |-> Expected(r)[1]]))
        /\ idx' = idx + 1
        /\ (idx = Len(Recs)) => PrintT(ToJson([done |-> Len(Recs)]))
Spec == Init /\ [][Next]_idx
====
