---- MODULE TraceDescribe ----
(***************************************************************************)
(* Trace validation for describe() (leg T of C18).  Each record is one     *)
(* fresh process of the real engine: the sequence of descriptor            *)
(* registrations it made (kind, name, identity), the programs it then      *)
(* described, and the strings describe() returned.  The driver replays the *)
(* registrations through the specification's SetDescriptor action (one     *)
(* step per registration, so the store invariants are evaluated after      *)
(* each) and then compares every string with the reference rendering D.    *)
(***************************************************************************)
EXTENDS Describe, Json, IOUtils
Recs == ndJsonDeserialize(IOEnv.TRACE)
VARIABLES idx, k
tvars == <<dvars, idx, k>>
TInit == DInit /\ idx = 1 /\ k = 1
Apply == /\ idx <= Len(Recs) /\ k <= Len(Recs[idx].sets)
         /\ LET s == Recs[idx].sets[k] IN SetDescriptor(s[1], s[2], s[3])
         /\ k' = k + 1 /\ idx' = idx
Compare == /\ idx <= Len(Recs) /\ k > Len(Recs[idx].sets)
           /\ LET r == Recs[idx] desc == DescOf(store) IN
              /\ \A i \in 1..Len(r.programs) :
                    LET want == D(r.programs[i], desc) IN
                    (i > Len(r.actual) \/ r.actual[i][1] # "ok" \/ r.actual[i][2] # want) =>
                       PrintT(ToJson([mismatch |-> idx - 1, program |-> i - 1, expected |-> want]))
              /\ PrintT(ToJson([rec |-> idx - 1, registered |-> Cardinality(DOMAIN store), programs |-> Len(r.programs)]))
           /\ (idx = Len(Recs)) => PrintT(ToJson([done |-> Len(Recs)]))
           /\ idx' = idx + 1 /\ k' = 1 /\ store' = <<>> /\ history' = <<>>
TNext == Apply \/ Compare
TSpec == TInit /\ [][TNext]_tvars
\* the machine's lookups agree with the reference on every recorded program at every point of the history
MachineIsReference == idx <= Len(Recs) => \A i \in 1..Len(Recs[idx].programs) : Dm(Recs[idx].programs[i]) = D(Recs[idx].programs[i], DescOf(store))
====
