---- MODULE TraceLiteral ----
(* Trace validation of number literals (leg T of C09): {chars, actual} - the value execute() gave for the literal text. *)
EXTENDS Literal, Json, IOUtils, TLC
Recs == ndJsonDeserialize(IOEnv.TRACE)
VARIABLE idx
Init == idx = 1
Next == /\ idx <= Len(Recs)
        /\ LET r == Recs[idx] IN
           /\ (~LitOk(r.chars, r.actual)) => PrintT(ToJson([mismatch |-> idx - 1, verdict |-> LitVerdict(r.chars),
                                                             expected |-> IF LitVerdict(r.chars) = "ok" THEN LitValue(r.chars) ELSE <<>>]))
           /\ PrintT(ToJson([rec |-> idx - 1, class |-> LitVerdict(r.chars)]))
        /\ idx' = idx + 1
        /\ (idx = Len(Recs)) => PrintT(ToJson([done |-> Len(Recs)]))
Spec == Init /\ [][Next]_idx
====
