SPECIFICATION Spec
CONSTANTS BareRefHoldsLock = FALSE
 BothBranches = FALSE
 ContinueAfterErr = FALSE
CHECK_DEADLOCK FALSE
