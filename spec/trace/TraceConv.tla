---- MODULE TraceConv ----
(***************************************************************************)
(* Trace validation of conversions (C17): one record per observed call of  *)
(* Value::from or of an accessor on the real engine.                       *)
(*   from_int   ty, n = [neg, mag]               actual = the Value        *)
(*   integer    v                                actual = ok [neg, mag] | err *)
(*   accessor   acc, v                           actual = ok payload | err *)
(*   from_float ty, class, neg, m, e             actual = the Value        *)
(*   float_acc  v, class, neg, m, e  (v.float()) the f64 the accessor gave *)
(*   roundtrip  v, back                          back = accessor(From(v))  *)
(***************************************************************************)
EXTENDS Conv, Json, IOUtils, TLC
Recs == ndJsonDeserialize(IOEnv.TRACE)
Good(r) ==
  CASE r.kind = "from_int" -> FromIntOk([neg |-> r.n[1], mag |-> r.n[2]], r.actual)
    [] r.kind = "integer" -> IntegerOk(r.v, r.actual)
    [] r.kind = "accessor" ->
         IF r.v[1] = AccessorVariant(r.acc)
         THEN IF r.acc = "integer" THEN IntegerOk(r.v, r.actual)
              ELSE IF r.acc = "float" THEN r.actual[1] = "ok"
              ELSE r.actual[1] = "ok" /\ VEq(r.actual[2], r.v)
         ELSE r.actual[1] = "err"
    [] r.kind = "from_float" -> FromFloatOk(r.class, r.neg, r.m, r.e, IF r.ty = "f32" THEN 6 ELSE 14, r.actual)
    [] r.kind = "float_acc" -> r.class = "finite" /\ FloatClose(r.neg, r.m, r.e, VDec(r.v), 14)
    [] r.kind = "roundtrip" -> VEq(r.v, r.back)
RecClass(r) == IF r.kind = "from_int" THEN (IF IntFits([neg |-> r.n[1], mag |-> r.n[2]]) THEN "int-fits" ELSE "int-too-big")
            ELSE IF r.kind = "from_float" THEN (IF r.class = "finite" /\ FloatInRange(r.m, r.e) THEN "float-in-range" ELSE "float-no-number")
            ELSE r.kind
VARIABLE idx
Init == idx = 1
Next == /\ idx <= Len(Recs)
        /\ LET r == Recs[idx] IN
           /\ (~Good(r)) => PrintT(ToJson([mismatch |-> idx - 1, class |-> RecClass(r)]))
           /\ PrintT(ToJson([rec |-> idx - 1, class |-> RecClass(r)]))
        /\ idx' = idx + 1
        /\ (idx = Len(Recs)) => PrintT(ToJson([done |-> Len(Recs)]))
Spec == Init /\ [][Next]_idx
====
