---- MODULE TraceShape ----
(***************************************************************************)
(* Operand-shape independence on precedence levels that mix both           *)
(* associativities (C08): one record per (operator pair, variant) holding  *)
(* the tree the real parser built for the base sentence `x oa y ob z` and  *)
(* the tree it built for the variant in which one operand is replaced by a *)
(* chain of a tighter-binding operator (or parenthesised when no tighter   *)
(* operator exists).  The variant's tree must be the base tree with that   *)
(* operand substituted - whichever grouping the level uses.                *)
(*   {pair, kind, tight, base_ok, base, var_ok, var}                       *)
(***************************************************************************)
EXTENDS Sequences, Naturals, Json, IOUtils, TLC
Recs == ndJsonDeserialize(IOEnv.TRACE)
Ref(n) == <<"ref", n>>
RECURSIVE Subst(_, _, _)
Subst(t, n, s) ==
  IF t = Ref(n) THEN s
  ELSE IF t[1] = "bin" THEN <<"bin", t[2], Subst(t[3], n, s), Subst(t[4], n, s)>>
  ELSE IF t[1] = "un" THEN <<"un", t[2], Subst(t[3], n, s)>>
  ELSE t
Leaf(kind) == CASE kind = 1 -> "y" [] kind = 2 -> "x" [] kind = 3 -> "z"
Leaf2(kind) == CASE kind = 1 -> "y2" [] kind = 2 -> "x2" [] kind = 3 -> "z2"
Expected(r) == IF r.tight = "" THEN r.base ELSE Subst(r.base, Leaf(r.kind), <<"bin", r.tight, Ref(Leaf(r.kind)), Ref(Leaf2(r.kind))>>)
Good(r) == r.base_ok = r.var_ok /\ (r.base_ok => r.var = Expected(r))
VARIABLE idx
Init == idx = 1
Next == /\ idx <= Len(Recs)
        /\ (~Good(Recs[idx])) => PrintT(ToJson([mismatch |-> idx - 1]))
        /\ idx' = idx + 1
        /\ (idx = Len(Recs)) => PrintT(ToJson([done |-> Len(Recs)]))
Spec == Init /\ [][Next]_idx
====
