---- MODULE TracePratt ----
(***************************************************************************)
(* Trace validation for the parser (leg T of C02 / C05 / C08 / C11).  Each *)
(* record of the NDJSON file named by TRACE is one observed execution of   *)
(* parse_expression on a program: the token sequence the real tokenizer    *)
(* produced (hook H1), whether parsing succeeded and the tree it returned. *)
(* The driver feeds the tokens to the Pratt machine (Chain mode: one       *)
(* record after the other) and at the end of each run judges the recorded  *)
(* outcome against the reference grammar's verdict (the property-level     *)
(* oracle) and, separately, against the machine's own outcome (drift: the  *)
(* code no longer follows the machine, which is reported but is not by     *)
(* itself a violation).                                                    *)
(***************************************************************************)
EXTENDS Pratt, Grammar, Json, IOUtils, BigTableDef
Recs == ndJsonDeserialize(IOEnv.TRACE)
TraceSource(i) == IF Recs[i].lex_ok THEN Recs[i].toks ELSE <<>>
TraceN == Len(Recs)
One == {1}
TraceReport(i, toks, ok, ast) ==
  LET r == Recs[i] IN
  /\ IF ~r.lex_ok
     THEN (r.ok \/ r.panic) => PrintT(ToJson([mismatch |-> i - 1, kind |-> "lexical-error-accepted", verdict |-> "MustReject", spec_ok |-> FALSE, spec_ast |-> <<>>]))
     ELSE LET v == Verdict(toks, Table) IN
          /\ (r.panic \/ ~Conforms(v, r.ok, r.ast)) =>
                PrintT(ToJson([mismatch |-> i - 1, kind |-> "verdict", verdict |-> v[1], spec_ok |-> ok, spec_ast |-> IF Len(v) > 1 THEN v[2] ELSE <<>>]))
          /\ (~r.panic /\ Conforms(v, r.ok, r.ast) /\ (ok # r.ok \/ (ok /\ ast # r.ast))) =>
                PrintT(ToJson([drift |-> i - 1, verdict |-> v[1]]))
          /\ PrintT(ToJson([rec |-> i - 1, verdict |-> v[1]]))
  /\ (i = TraceN) => PrintT(ToJson([done |-> TraceN]))
TerminalOK == TRUE
====
