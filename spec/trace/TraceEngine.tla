---- MODULE TraceEngine ----
(***************************************************************************)
(* Trace validation for concurrent use (leg T of C13, C08 histories, C16). *)
(* The NDJSON file named by TRACE is ONE process run of the real engine:   *)
(* every event carries the engine's own sequence number, taken from one    *)
(* atomic counter, so the file is a total order of                         *)
(*   call     a thread starts a public API call (register_* / execute)     *)
(*   probe    init:enter, init:stage1..4 (inside the once-cell closure),   *)
(*            access (the first registry access of the current call)       *)
(*   handler  a registered handler is entered (with its identity)          *)
(*   ret      the call returns, with its result projected onto the         *)
(*            identity of the handler that produced it ("b" = built-in,    *)
(*            "none" = nothing registered)                                 *)
(* The specification the trace is checked against is the ATOMIC engine     *)
(* (Engine!SeqApply): each call takes effect at one instant between its    *)
(* call and ret events - the silent action Lin(t), whose position TLC      *)
(* chooses.  The trace is accepted iff some placement of the linearization *)
(* points explains every result (linearizability with real-time order),    *)
(* no thread other than the initialiser touches a registry before the      *)
(* fourth built-in stage is complete (NoPartialInit), and every handler    *)
(* that runs is the one its call resolved.  (Whether a registry lock is    *)
(* held at a handler entry is NOT judged here: with several threads a      *)
(* try_lock probe fails whenever another thread is inside its own critical *)
(* section; that property is checked single-threaded in C14, where a held  *)
(* lock can only be the evaluating thread's.)                              *)
(***************************************************************************)
EXTENDS Integers, Sequences, FiniteSets, TLC, Json, IOUtils
CONSTANT Atomic    \* TRUE: the atomic engine (the property).  FALSE: the fine-grained engine - an evaluation whose program
                   \* depends on an operator's precedence reads the registry twice (precedence while parsing, handler while
                   \* evaluating); used only to attribute a rejection to the known finding F1 (non-atomic evaluation)
Evs == ndJsonDeserialize(IOEnv.TRACE)
N == Len(Evs)
Regs == {"prefix", "infix", "postfix", "func"}
StageReg == <<"prefix", "infix", "postfix", "func">>
\* built-in cells that the scenarios touch
BuiltinCells == {<<"func", "min">>, <<"func", "max">>, <<"prefix", "-">>, <<"prefix", "!">>, <<"infix", "+">>, <<"infix", "*">>, <<"postfix", "++">>}
ThreadsOf == {Evs[k].t : k \in {k \in 1..N : Evs[k].ev # "reset"}}
Cells == {<<Evs[k].r, Evs[k].name>> : k \in {k \in 1..N : Evs[k].ev = "call"}}

VARIABLES l,        \* next event to consume
          reg,      \* abstract registry: cell -> handler identity | "b" | "none"
          stage,    \* built-in stages completed (0..4), from the init probes
          owner,    \* the thread running the once-cell closure ("none" before)
          pend,     \* pend[t]: the call thread t is in, or <<>>
          lin,      \* lin[t]: that call has taken effect
          res,      \* res[t]: what the call resolved (exec) at its linearization point
          early     \* early[t]: fine-grained mode - the precedence class read while parsing ("" = not read yet)
tv == <<l, reg, stage, owner, pend, lin, res, early>>
TInit == /\ l = 1 /\ stage = 0 /\ owner = "none"
         /\ reg = [c \in Cells |-> "none"]
         /\ pend = [t \in ThreadsOf |-> <<>>] /\ lin = [t \in ThreadsOf |-> FALSE] /\ res = [t \in ThreadsOf |-> "none"]
         /\ early = [t \in ThreadsOf |-> ""]
E == Evs[l]
Consume == l' = l + 1
\* ---- events --------------------------------------------------------------------------------------
TCall == /\ l <= N /\ E.ev = "call" /\ pend[E.t] = <<>>
         /\ pend' = [pend EXCEPT ![E.t] = E] /\ lin' = [lin EXCEPT ![E.t] = FALSE] /\ early' = [early EXCEPT ![E.t] = ""] /\ Consume
         /\ UNCHANGED <<reg, stage, owner, res>>
TInitEnter == /\ l <= N /\ E.ev = "probe" /\ E.site = "init:enter"
              /\ owner = "none" /\ owner' = E.t /\ Consume /\ UNCHANGED <<reg, stage, pend, lin, res, early>>
StageNo(site) == CASE site = "init:stage1" -> 1 [] site = "init:stage2" -> 2 [] site = "init:stage3" -> 3 [] site = "init:stage4" -> 4
TInitStage == /\ l <= N /\ E.ev = "probe" /\ E.site \in {"init:stage1", "init:stage2", "init:stage3", "init:stage4"}
              /\ E.t = owner /\ stage = StageNo(E.site) - 1
              /\ stage' = StageNo(E.site)
              /\ reg' = [c \in Cells |-> IF c[1] = StageReg[StageNo(E.site)] /\ c \in BuiltinCells THEN "b" ELSE reg[c]]
              /\ Consume /\ UNCHANGED <<owner, pend, lin, res, early>>
\* NoPartialInit: a registry access by any thread but the initialiser needs the complete tables
TAccess == /\ l <= N /\ E.ev = "probe" /\ E.site = "access"
           /\ (E.t = owner \/ stage = 4)
           /\ Consume /\ UNCHANGED <<reg, stage, owner, pend, lin, res, early>>
\* the handler that runs is the one the call resolved
THandler == /\ l <= N /\ E.ev = "handler"
            /\ pend[E.t] # <<>> /\ lin[E.t]
            /\ ("text" \notin DOMAIN pend[E.t]) => res[E.t] = E.h
            /\ Consume /\ UNCHANGED <<reg, stage, owner, pend, lin, res, early>>
TRet == /\ l <= N /\ E.ev = "ret" /\ pend[E.t] # <<>> /\ lin[E.t]
        /\ IF pend[E.t].op = "exec" THEN E.res = res[E.t] ELSE E.res = "ok"
        /\ pend' = [pend EXCEPT ![E.t] = <<>>] /\ Consume /\ UNCHANGED <<reg, stage, owner, lin, res, early>>
\* several process runs in one file: a reset event separates them (every call must have returned)
TReset == /\ l <= N /\ E.ev = "reset" /\ \A t \in ThreadsOf : pend[t] = <<>>
          /\ stage' = 0 /\ owner' = "none" /\ reg' = [c \in Cells |-> "none"]
          /\ lin' = [t \in ThreadsOf |-> FALSE] /\ res' = [t \in ThreadsOf |-> "none"] /\ early' = [t \in ThreadsOf |-> ""] /\ Consume /\ UNCHANGED pend
\* ---- the silent linearization point ------------------------------------------------------------------
\* does this evaluation read the registry twice (its program's grouping depends on the operator's precedence)?
TwoReads(c) == ~Atomic /\ c.op = "exec" /\ "parts" \in DOMAIN c
\* (Without loss of generality a linearization point is only placed directly before a return or a handler entry: those are
\* the only events that constrain it, and delaying it until then preserves every real-time order.)
Lin(t) == /\ pend[t] # <<>> /\ ~lin[t] /\ stage = 4 /\ l <= N /\ E.ev \in {"ret", "handler"}
          /\ LET c == pend[t] cell == <<c.r, c.name>> IN
             IF c.op = "reg" THEN reg' = [reg EXCEPT ![cell] = c.val] /\ res' = res /\ early' = early /\ lin' = [lin EXCEPT ![t] = TRUE]
             ELSE IF TwoReads(c) /\ early[t] = "" THEN
                  \* first read, while parsing: is it an operator, and at which precedence
                  /\ early' = [early EXCEPT ![t] = IF reg[cell] = "none" THEN "none" ELSE c.parts[reg[cell]][2]]
                  /\ UNCHANGED <<reg, res, lin>>
             ELSE IF TwoReads(c) THEN
                  \* second read, while evaluating: the handler; the result combines it with the grouping decided earlier
                  /\ res' = [res EXCEPT ![t] = IF early[t] = "none" \/ reg[cell] = "none" THEN "none" ELSE c.compose[c.parts[reg[cell]][1]][early[t]]]
                  /\ lin' = [lin EXCEPT ![t] = TRUE] /\ UNCHANGED <<reg, early>>
             ELSE reg' = reg /\ res' = [res EXCEPT ![t] = reg[cell]] /\ early' = early /\ lin' = [lin EXCEPT ![t] = TRUE]
          /\ UNCHANGED <<l, stage, owner, pend>>
TNext == TCall \/ TInitEnter \/ TInitStage \/ TAccess \/ THandler \/ TRet \/ TReset \/ (\E t \in ThreadsOf : Lin(t))
TSpec == TInit /\ [][TNext]_tv
\* acceptance: some behaviour consumes every event.  NotDone is given to TLC as an invariant so that the search stops as soon
\* as one such behaviour is found ("violated" = accepted); if the search ends without, the furthest point reached (kept in a
\* TLC register) locates the rejection.
NotDone == l <= N
Progress == TLCSet(1, IF l > TLCGet(1) THEN l ELSE TLCGet(1))
TraceAccepted == IF TLCGet(1) = N + 1 THEN PrintT(ToJson([accepted |-> N]))
                 ELSE PrintT(ToJson([rejected_at |-> TLCGet(1), event |-> IF TLCGet(1) <= N THEN Evs[TLCGet(1)] ELSE <<>>]))
ASSUME TLCSet(1, 0)
====
