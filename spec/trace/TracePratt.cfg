SPECIFICATION Spec
CONSTANTS Lazy = FALSE
 MaxLen = 0
 Alphabet = {}
 Source <- TraceSource
 FirstSet <- One
 Chain = TRUE
 NRuns <- TraceN
 Report <- TraceReport
 Table <- BuiltinTable
 MaxDepth = 256
 TernaryGate = TRUE
 NotGate = TRUE
 ExpectStrict = TRUE
 DoubledBP = TRUE
 defaultInitValue = defaultInitValue
CHECK_DEADLOCK FALSE
