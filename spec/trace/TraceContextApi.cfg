SPECIFICATION TSpec
CONSTANTS
 Names <- TNames
 Vals <- TVals
 Handlers <- THandlers
 Handles <- THandles
 MaxStores = 3
 Ret <- TRet
 NTemplates = 5
 Template <- TTemplate
POSTCONDITION Accepted
CHECK_DEADLOCK FALSE
