---- MODULE Conv ----
(***************************************************************************)
(* Reference layer for value conversions (C17): Value::from on integers    *)
(* and floats, the accessors decimal / integer / float / string / bool /   *)
(* list, and the round trips.                                              *)
(*   - an integer n becomes the number n exactly, whatever its type; an    *)
(*     integer the 96-bit decimal cannot hold must not become a number     *)
(*   - integer() yields n for every number whose value is the integer n    *)
(*     within i64, whatever its scale, and an error for any other value    *)
(*   - every accessor succeeds exactly on the variant it names and returns *)
(*     the payload; it is an error on every other variant                  *)
(*   - a finite float inside the decimal range becomes a number within     *)
(*     relative error 10^-14 (f32: 10^-6) or absolute error 10^-28 of it,  *)
(*     and exactly that number when the float is a whole number;           *)
(*     a non-finite or out-of-range float must not become a number         *)
(* A float is given exactly as (neg, mantissa, exponent): m * 2^e.         *)
(***************************************************************************)
EXTENDS Builtins
IntFits(n) == BLe(n.mag, MAXMANT)                       \* n: [neg, mag] an exact integer
FromIntOk(n, actual) ==
  IF IntFits(n) THEN actual[1] = "num" /\ DEq(VDec(actual), D(n.neg, n.mag, 0))
  ELSE actual[1] \notin {"num", "panic"}     \* From cannot fail: neither a wrong number nor a panic satisfies the property
IntegerExpected(v) == IF v[1] = "num" /\ InI64(VDec(v)) THEN <<"ok", DCanon(VDec(v))>> ELSE <<"err">>
IntegerOk(v, actual) ==
  LET e == IntegerExpected(v) IN
  IF e[1] = "ok" THEN actual[1] = "ok" /\ DEq(D(actual[2][1], actual[2][2], 0), e[2]) ELSE actual[1] = "err"
AccessorVariant(acc) == CASE acc \in {"decimal", "integer", "float"} -> "num" [] acc = "string" -> "str" [] acc = "bool" -> "bool" [] acc = "list" -> "list"
\* float comparison: f = m * 2^e against the decimal d
FloatClose(neg, m, e, d, relDigits) ==
  IF BIsZero(m) THEN DIsZero(d) \/ BLe(BTimesPow10(d.mag, 28), BPow10(d.scale))      \* |d| <= 10^-28
  ELSE IF e >= 0 THEN
     LET F == BTimesPow10(BMul(m, BPow2(e)), d.scale)       \* f * 10^scale
         diff == IF BLe(F, d.mag) THEN BSub(d.mag, F) ELSE BSub(F, d.mag) IN
     /\ (d.neg = neg \/ DIsZero(d))
     /\ BLe(BTimesPow10(diff, relDigits), F)
  ELSE
     LET p == BPow2(-e)
         A == BMul(d.mag, p)                                 \* d * 10^scale * 2^k
         B == BTimesPow10(m, d.scale)                        \* f * 10^scale * 2^k
         diff == IF BLe(A, B) THEN BSub(B, A) ELSE BSub(A, B) IN
     /\ (d.neg = neg \/ DIsZero(d))
     /\ \/ BLe(BTimesPow10(diff, relDigits), B)              \* relative error
        \/ BLe(BTimesPow10(diff, 28), BTimesPow10(p, d.scale))   \* absolute error <= 10^-28
\* a float whose value is an integer: it has an exact decimal image whenever it is in range, and "no conversion ever yields
\* a different number" then means that image (2^63 must not become i64::MAX)
FloatIsWhole(m, e) == e >= 0 \/ BIsZero(BDivMod(m, BPow2(-e))[2])
FloatExact(neg, m, e, d) ==
  /\ (d.neg = neg \/ DIsZero(d))
  /\ IF e >= 0 THEN BEq(BTimesPow10(BMul(m, BPow2(e)), d.scale), d.mag)
               ELSE BEq(BMul(d.mag, BPow2(-e)), BTimesPow10(m, d.scale))
FloatInRange(m, e) == IF e >= 0 THEN BLe(BMul(m, BPow2(e)), MAXMANT) ELSE BLe(m, BMul(MAXMANT, BPow2(-e)))
FromFloatOk(class, neg, m, e, relDigits, actual) ==
  IF class = "finite" /\ FloatInRange(m, e)
  THEN actual[1] = "num" /\ (IF FloatIsWhole(m, e) THEN FloatExact(neg, m, e, VDec(actual)) ELSE FloatClose(neg, m, e, VDec(actual), relDigits))
  ELSE actual[1] \notin {"num", "panic"}
====
