---- MODULE BindingPower ----
(***************************************************************************)
(* Proof layer for C08 ("any positive precedence values up to 10^9,        *)
(* adjacent ones included"): the parser compares *binding powers* - the    *)
(* doubled precedence, plus one for the right side of a left-associative   *)
(* operator, minus one for a right-associative one.  These lemmas, proved  *)
(* by TLAPS for ALL naturals (TLC only tries a few tables), say that       *)
(* comparing binding powers is exactly comparing (precedence,              *)
(* associativity): an operator with right binding power r lets the next    *)
(* operator with left binding power l extend its right operand (r < l)     *)
(* iff that operator binds tighter, or equally tight and the level is      *)
(* right-associative; an l and an r never tie; and for precedences up to   *)
(* 10^9 the arithmetic stays inside a 32-bit signed integer.               *)
(***************************************************************************)
EXTENDS Integers, TLAPS
LBPow(p) == 2 * p
RBPowLeft(p) == 2 * p + 1
RBPowRight(p) == 2 * p - 1

THEOREM LeftAssocExtends == \A p, q \in Nat : (RBPowLeft(p) < LBPow(q)) <=> (p < q)
  BY DEF RBPowLeft, LBPow
THEOREM RightAssocExtends == \A p, q \in Nat : (RBPowRight(p) < LBPow(q)) <=> (p <= q)
  BY DEF RBPowRight, LBPow
\* the loop's exit test `l_bp < min` with min = the enclosing operator's right binding power
THEOREM LeftAssocReturns == \A p, q \in Nat : (LBPow(q) < RBPowLeft(p)) <=> (q <= p)
  BY DEF RBPowLeft, LBPow
THEOREM RightAssocReturns == \A p, q \in Nat : (LBPow(q) < RBPowRight(p)) <=> (q < p)
  BY DEF RBPowRight, LBPow
THEOREM NoTies == \A p, q \in Nat : LBPow(q) # RBPowLeft(p) /\ LBPow(q) # RBPowRight(p)
  BY DEF RBPowLeft, RBPowRight, LBPow
THEOREM FitsI32 == \A p \in 1..1000000000 : RBPowLeft(p) <= 2147483647 /\ RBPowRight(p) >= 1 /\ LBPow(p) > 0
  BY DEF RBPowLeft, RBPowRight, LBPow
\* the pinned tree compared p+1 / p-1 with the next operator's precedence itself: adjacent precedences collide
THEOREM UndoubledCollides == \E p, q \in Nat : p < q /\ ~(p + 1 < q)
  BY 1 \in Nat, 2 \in Nat
====
