---- MODULE Lexer ----
(***************************************************************************)
(* Character-level machine of the tokenizer (src/tokenizer.rs), one action *)
(* per loop body, in the code's order.  The input is either Fixed (replay  *)
(* and trace validation) or chosen lazily, one character at a time and     *)
(* only when the machine looks at it, so that TLC explores the trie of all *)
(* inputs up to MaxLen.  Positions are character indices; byte offsets are *)
(* derived with Chars!Off.                                                 *)
(***************************************************************************)
EXTENDS Integers, Sequences, FiniteSets, TLC, Chars
CONSTANTS MaxLen,      \* lazy mode: longest input explored
          Alphabet,    \* lazy mode: characters to choose from (code points)
          Ops,         \* every registered operator spelling (prefix, infix, postfix, ? and :), as code-point sequences
          SliceMode,   \* "char" = repaired tokenizer; "byte+1" = pinned tree (slices input[start..current()+1])
          Lazy         \* TRUE: input chosen lazily; FALSE: input supplied by whoever instantiates (trace / replay)

BuiltinOps ==
  { W(<<"=">>), W(<<"+","=">>), W(<<"-","=">>), W(<<"*","=">>),
    W(<<"/","=">>), W(<<"%","=">>), W(<<"<","<","=">>), W(<<">",">","=">>),
    W(<<"&","=">>), W(<<"^","=">>), W(<<"|","=">>), W(<<"|","|">>),
    W(<<"&","&">>), W(<<"<">>), W(<<"<","=">>), W(<<">">>),
    W(<<">","=">>), W(<<"=","=">>), W(<<"!","=">>), W(<<"|">>),
    W(<<"^">>), W(<<"&">>), W(<<"<","<">>), W(<<">",">">>),
    W(<<"+">>), W(<<"-">>), W(<<"*">>), W(<<"/">>),
    W(<<"%">>), W(<<"b","e","g","i","n","W","i","t","h">>), W(<<"e","n","d","W","i","t","h">>), W(<<"i","n">>),
    W(<<"!">>), W(<<"n","o","t">>), W(<<"A","N","D">>), W(<<"O","R">>),
    W(<<"+","+">>), W(<<"-","-">>), W(<<"?">>), W(<<":">>) }
ExtendedOps == BuiltinOps \cup {W(<<"+","+","+">>), W(<<"-","-","-">>), W(<<"h","i">>)}
BoolTrue == {W(<<"t","r","u","e">>), W(<<"T","r","u","e">>)}
BoolFalse == {W(<<"f","a","l","s","e">>), W(<<"F","a","l","s","e">>)}
Bools == BoolTrue \cup BoolFalse
MaxDigits == 28   \* a literal with more digit characters may or may not fit the 96-bit mantissa: don't care

VARIABLES inp,      \* characters seen so far (lazy) / the whole input (fixed)
          eof,      \* the end of the input is known
          i,        \* cursor: index of the next character to consume
          start,    \* first character of the token being scanned
          j,        \* look-ahead cursor (word probe, `(` look-ahead)
          mode,     \* which loop of the tokenizer is running
          out,      \* tokens emitted: [k |-> kind, lo |-> first char, hi |-> last char]
          st,       \* "run" | "done" | "err"
          steps,    \* loop iterations so far (termination as a safety property)
          sliceBad, \* a slice was taken off a character boundary
          dc        \* the outcome depends on something the specification leaves open (see MaxDigits)
vars == <<inp, eof, i, start, j, mode, out, st, steps, sliceBad, dc>>

Known(k) == k <= Len(inp) \/ eof
NOCHAR == -1
Ch(k) == IF k <= Len(inp) THEN inp[k] ELSE NOCHAR
Emit(k, lo, hi) == out' = Append(out, [k |-> k, lo |-> lo, hi |-> hi])

LexInit(input, known) ==
  /\ inp = input /\ eof = known /\ i = 1 /\ start = 0 /\ j = 0 /\ mode = "start" /\ out = <<>>
  /\ st = "run" /\ steps = 0 /\ sliceBad = FALSE /\ dc = FALSE
Init == LexInit(<<>>, ~Lazy)

\* lazily extend the input when the machine needs a character it has not seen
Need == IF mode \in {"probe", "look"} THEN j ELSE i
Extend == /\ Lazy /\ st = "run" /\ ~Known(Need)
          /\ \/ /\ Len(inp) < MaxLen /\ \E c \in Alphabet : inp' = Append(inp, c) /\ eof' = eof
             \/ /\ inp' = inp /\ eof' = TRUE
          /\ UNCHANGED <<i, start, j, mode, out, st, steps, sliceBad, dc>>
Tick == steps' = steps + 1

\* Tokenizer::next: eat_whitespace, then dispatch on the first character
Start == /\ st = "run" /\ mode = "start" /\ Known(i) /\ Tick
         /\ LET c == Ch(i) IN
            IF c = NOCHAR THEN st' = "done" /\ UNCHANGED <<inp, eof, i, start, j, mode, out, sliceBad, dc>>
            ELSE IF IsWs(c) THEN i' = i + 1 /\ UNCHANGED <<inp, eof, start, j, mode, out, st, sliceBad, dc>>
            ELSE IF IsSpecial(c) THEN start' = i /\ i' = i + 1 /\ mode' = "sym" /\ UNCHANGED <<inp, eof, j, out, st, sliceBad, dc>>
            ELSE IF IsDelim(c) \/ c = COMMA \/ c = SEMI THEN
                 /\ Emit(IF IsDelim(c) THEN "delim" ELSE IF c = COMMA THEN "comma" ELSE "semi", i, i) /\ i' = i + 1
                 /\ UNCHANGED <<inp, eof, start, j, mode, st, sliceBad, dc>>
            ELSE IF IsDigit(c) THEN start' = i /\ i' = i + 1 /\ mode' = "num" /\ UNCHANGED <<inp, eof, j, out, st, sliceBad, dc>>
            ELSE IF IsQuote(c) THEN start' = i /\ i' = i + 1 /\ mode' = "str" /\ UNCHANGED <<inp, eof, j, out, st, sliceBad, dc>>
            ELSE start' = i /\ i' = i + 1 /\ j' = i + 1 /\ mode' = "probe" /\ UNCHANGED <<inp, eof, out, st, sliceBad, dc>>

\* special_op_token: extend while the text extended by the next character is a registered operator
Sym == /\ st = "run" /\ mode = "sym" /\ Known(i) /\ Tick
       /\ IF Ch(i) # NOCHAR /\ SubSeq(inp, start, i) \in Ops
          THEN /\ i' = i + 1 /\ UNCHANGED <<out, mode>>
               /\ sliceBad' = (sliceBad \/ (SliceMode = "byte+1" /\ Width(Ch(i)) # 1))
          ELSE /\ Emit("op", start, i - 1) /\ mode' = "start" /\ i' = i
               \* the pinned code slices input[start..current()+1] to *test* the extension, whatever the outcome
               /\ sliceBad' = (sliceBad \/ (SliceMode = "byte+1" /\ Ch(i) # NOCHAR /\ Width(Ch(i)) # 1))
       /\ UNCHANGED <<inp, eof, start, j, st, dc>>

\* number_token: consume number characters (a sign only directly after e/E), then the text must be a decimal
NumVerdict(lo, hi) ==
  IF \E k \in lo..hi : ~(IsDigit(inp[k]) \/ inp[k] = DOT) THEN "err"
  ELSE IF Cardinality({k \in lo..hi : inp[k] = DOT}) > 1 THEN "err"
  ELSE IF Cardinality({k \in lo..hi : IsDigit(inp[k])}) > MaxDigits THEN "dc"
  ELSE "ok"
Num == /\ st = "run" /\ mode = "num" /\ Known(i) /\ Tick
       /\ LET c == Ch(i) IN
          IF c # NOCHAR /\ ~(c \in {Ord["+"], Ord["-"]} /\ inp[i-1] \notin {Ord["e"], Ord["E"]}) /\ IsNumChar(c)
          THEN i' = i + 1 /\ UNCHANGED <<out, mode, st, dc>>
          ELSE LET v == NumVerdict(start, i - 1) IN
               IF v = "ok" THEN Emit("num", start, i - 1) /\ mode' = "start" /\ i' = i /\ UNCHANGED <<st, dc>>
               ELSE /\ st' = "err" /\ dc' = (v = "dc") /\ UNCHANGED <<out, mode, i>>
       /\ UNCHANGED <<inp, eof, start, j, sliceBad>>

\* string_token: scan to the same quote character; no escapes
Str == /\ st = "run" /\ mode = "str" /\ Known(i) /\ Tick
       /\ IF Ch(i) = NOCHAR THEN st' = "err" /\ UNCHANGED <<out, mode, i>>
          ELSE IF Ch(i) = inp[start] THEN Emit("str", start, i) /\ mode' = "start" /\ i' = i + 1 /\ st' = st
          ELSE i' = i + 1 /\ UNCHANGED <<out, mode, st>>
       /\ UNCHANGED <<inp, eof, start, j, sliceBad, dc>>

\* try_parse_op / operator_token: scan to whitespace, delimiter or the end; is the whole run an operator?
Probe == /\ st = "run" /\ mode = "probe" /\ Known(j) /\ Tick
         /\ IF Ch(j) # NOCHAR /\ ~IsWs(Ch(j)) /\ ~IsDelim(Ch(j)) THEN j' = j + 1 /\ UNCHANGED <<out, mode, i>>
            ELSE IF SubSeq(inp, start, j - 1) \in Ops THEN Emit("op", start, j - 1) /\ i' = j /\ mode' = "start" /\ j' = j
            ELSE mode' = "ident" /\ UNCHANGED <<out, i, j>>
         /\ UNCHANGED <<inp, eof, start, st, sliceBad, dc>>

\* parse_var: identifier characters; then booleans
Ident == /\ st = "run" /\ mode = "ident" /\ Known(i) /\ Tick
         /\ IF Ch(i) # NOCHAR /\ IsParam(Ch(i)) THEN i' = i + 1 /\ UNCHANGED <<out, mode, j>>
            ELSE IF SubSeq(inp, start, i - 1) \in Bools THEN Emit("bool", start, i - 1) /\ mode' = "start" /\ UNCHANGED <<i, j>>
            ELSE mode' = "look" /\ j' = i /\ UNCHANGED <<out, i>>
         /\ UNCHANGED <<inp, eof, start, st, sliceBad, dc>>

\* function_or_reference_token: the next non-whitespace character decides
Look == /\ st = "run" /\ mode = "look" /\ Known(j) /\ Tick
        /\ IF Ch(j) # NOCHAR /\ IsWs(Ch(j)) THEN j' = j + 1 /\ UNCHANGED <<out, mode>>
           ELSE Emit(IF Ch(j) = LPAREN THEN "fun" ELSE "ref", start, i - 1) /\ mode' = "start" /\ j' = j
        /\ UNCHANGED <<inp, eof, i, start, st, sliceBad, dc>>

Step == Start \/ Sym \/ Num \/ Str \/ Probe \/ Ident \/ Look
Done == st \in {"done", "err"} /\ UNCHANGED vars
Next == Extend \/ Step \/ Done
Spec == Init /\ [][Next]_vars

\* ---- what the machine reports ------------------------------------------------------------------
TokText(t) == IF t.k = "str" THEN SubSeq(inp, t.lo + 1, t.hi - 1) ELSE SubSeq(inp, t.lo, t.hi)
ByteLo(t) == Off(inp, t.lo - 1)
ByteHi(t) == Off(inp, t.hi)

\* ---- properties (C10, C01) ---------------------------------------------------------------------
Complete(k) == k < Len(out) \/ st = "done"
Tiling == \A k \in 1..Len(out) :
            /\ 1 <= out[k].lo /\ out[k].lo <= out[k].hi /\ out[k].hi <= Len(inp)
            /\ (k > 1 => out[k-1].hi < out[k].lo)
            /\ \A m \in (IF k = 1 THEN 1 ELSE out[k-1].hi + 1) .. (out[k].lo - 1) : IsWs(inp[m])
TailIsWs == st = "done" => \A m \in (IF out = <<>> THEN 1 ELSE out[Len(out)].hi + 1) .. Len(inp) : IsWs(inp[m])
StrPayload == \A k \in 1..Len(out) : out[k].k = "str" =>
                /\ IsQuote(inp[out[k].lo]) /\ inp[out[k].hi] = inp[out[k].lo] /\ out[k].hi > out[k].lo
                /\ \A m \in out[k].lo + 1 .. out[k].hi - 1 : inp[m] # inp[out[k].lo]
\* longest registered symbolic operator (for prefix-closed operator sets: every prefix of an operator is an operator)
PrefixClosed == \A o \in Ops : IsSpecial(o[1]) => \A m \in 1..Len(o) : SubSeq(o, 1, m) \in Ops
MaximalMunch == PrefixClosed => \A k \in 1..Len(out) : (out[k].k = "op" /\ IsSpecial(inp[out[k].lo])) =>
                /\ \A m \in out[k].lo .. out[k].hi : SubSeq(inp, out[k].lo, m) \in Ops
                /\ (out[k].hi < Len(inp) /\ Complete(k)) => SubSeq(inp, out[k].lo, out[k].hi + 1) \notin Ops
RECURSIVE RunEndFrom(_)
RunEndFrom(m) == IF m > Len(inp) \/ IsWs(inp[m]) \/ IsDelim(inp[m]) THEN m - 1 ELSE RunEndFrom(m + 1)
WordRunEnd(lo) == RunEndFrom(lo)   \* last character of the maximal run without whitespace / delimiter starting at lo
IsWordTok(t) == t.k \in {"op", "ref", "fun", "bool"} /\ ~IsSpecial(inp[t.lo])
WholeWord == \A k \in 1..Len(out) : (Complete(k) /\ IsWordTok(out[k])) =>
                ((out[k].k = "op") <=> (SubSeq(inp, out[k].lo, WordRunEnd(out[k].lo)) \in Ops /\ out[k].hi = WordRunEnd(out[k].lo)))
RECURSIVE NextNonWs(_)
NextNonWs(p) == IF p > Len(inp) THEN NOCHAR ELSE IF IsWs(inp[p]) THEN NextNonWs(p + 1) ELSE inp[p]
ClassRules == \A k \in 1..Len(out) : Complete(k) =>
                LET t == out[k] IN
                /\ (t.k = "num") => (IsDigit(inp[t.lo]) /\ NumVerdict(t.lo, t.hi) = "ok")
                /\ (t.k = "bool") <=> (IsWordTok(t) /\ t.k # "op" /\ TokText(t) \in Bools)
                /\ (t.k = "fun") => NextNonWs(t.hi + 1) = LPAREN
                /\ (t.k = "ref") => NextNonWs(t.hi + 1) # LPAREN
                /\ (t.k \in {"ref", "fun", "bool"}) => \A m \in t.lo + 1 .. t.hi : IsParam(inp[m])
                /\ (t.k \in {"ref", "fun", "bool"} /\ t.hi < Len(inp)) => ~IsParam(inp[t.hi + 1])
                /\ (t.k = "delim") => (t.lo = t.hi /\ IsDelim(inp[t.lo]))
                /\ (t.k = "comma") => (t.lo = t.hi /\ inp[t.lo] = COMMA)
                /\ (t.k = "semi") => (t.lo = t.hi /\ inp[t.lo] = SEMI)
OnBoundary == ~sliceBad
StepBudget == steps <= (Len(inp) + 2) * (Len(inp) + 2) + 4
\* an error is only ever an unterminated string or a malformed number
ErrOnlyLexical == st = "err" => mode \in {"str", "num"}
TypeOK == /\ st \in {"run", "done", "err"} /\ mode \in {"start", "sym", "num", "str", "probe", "ident", "look"}
          /\ i \in 1..(Len(inp) + 1) /\ steps \in Nat
====
