---- MODULE Render ----
(***************************************************************************)
(* Reference layer for expr() (C12) and for redundant parentheses (C11):   *)
(* Render(t, T) is the token string of an AST with parentheses exactly     *)
(* where the stratified grammar would otherwise group differently:         *)
(*   - an infix child of lower precedence, or of equal precedence on the   *)
(*     side the level does not associate to                                *)
(*   - a conditional as an operand or as a condition                       *)
(*   - an infix or conditional operand of a prefix operator (this covers   *)
(*     `x not OP y`, which is the tree un(not, bin(OP, x, y)) and is       *)
(*     rendered in prefix form  not ( x OP y ) )                           *)
(*   - a prefixed, postfixed, infix or conditional operand of a postfix    *)
(*     operator                                                            *)
(* Wrap(t, T, k) additionally wraps *every* sub-expression in k redundant  *)
(* pairs of parentheses.  The theorems checked by TLC on every tree the    *)
(* machine produces:  RefParse(Render(t)) = t,  Render is idempotent over  *)
(* a re-parse, and RefParse(Wrap(t, k)) = t.                               *)
(***************************************************************************)
EXTENDS Grammar

Paren(ts) == <<<<"delim", "(">>>> \o ts \o <<<<"delim", ")">>>>
RECURSIVE ParenK(_, _)
ParenK(ts, k) == IF k = 0 THEN ts ELSE ParenK(Paren(ts), k - 1)
Tag(t) == t[1]

NeedsParenLeft(T, op, c) ==
  \/ Tag(c) = "tern"
  \/ /\ Tag(c) = "bin"
     /\ \/ Prec(T, c[2]) < Prec(T, op)
        \/ (Prec(T, c[2]) = Prec(T, op) /\ LevelAssocs(T, Prec(T, op)) # {"L"})
NeedsParenRight(T, op, c) ==
  \/ Tag(c) = "tern"
  \/ /\ Tag(c) = "bin"
     /\ \/ Prec(T, c[2]) < Prec(T, op)
        \/ (Prec(T, c[2]) = Prec(T, op) /\ LevelAssocs(T, Prec(T, op)) # {"R"})

RECURSIVE RenderW(_, _, _), RenderSeq(_, _, _, _), RenderPairs(_, _, _)
\* k = number of redundant parenthesis pairs around every sub-expression (0 = minimal rendering)
RenderW(t, T, k) ==
  LET Sub(c, need) == IF need THEN Paren(RenderW(c, T, k)) ELSE RenderW(c, T, k)
      body ==
        CASE Tag(t) \in {"num", "str", "bool", "ref"} -> <<t>>
          [] Tag(t) = "call" -> <<<<"fun", t[2]>>, <<"delim", "(">>>> \o RenderSeq(t[3], T, k, <<"comma", ",">>) \o <<<<"delim", ")">>>>
          [] Tag(t) = "un" -> <<<<"op", t[2]>>>> \o Sub(t[3], Tag(t[3]) \in {"bin", "tern"})
          [] Tag(t) = "post" -> Sub(t[2], Tag(t[2]) \in {"un", "bin", "tern", "post"}) \o <<<<"op", t[3]>>>>
          [] Tag(t) = "bin" -> Sub(t[3], NeedsParenLeft(T, t[2], t[3])) \o <<<<"op", t[2]>>>> \o Sub(t[4], NeedsParenRight(T, t[2], t[4]))
          [] Tag(t) = "tern" -> Sub(t[2], Tag(t[2]) = "tern") \o <<<<"op", "?">>>> \o RenderW(t[3], T, k) \o <<<<"op", ":">>>> \o RenderW(t[4], T, k)
          [] Tag(t) = "list" -> <<<<"delim", "[">>>> \o RenderSeq(t[2], T, k, <<"comma", ",">>) \o <<<<"delim", "]">>>>
          [] Tag(t) = "map" -> <<<<"delim", "{">>>> \o RenderPairs(t[2], T, k) \o <<<<"delim", "}">>>>
          [] Tag(t) = "stmt" -> RenderSeq(t[2], T, k, <<"semi", ";">>)
          [] OTHER -> <<>>
  IN IF Tag(t) \in {"stmt", "none"} THEN body ELSE ParenK(body, k)
RenderSeq(es, T, k, sep) ==
  IF es = <<>> THEN <<>>
  ELSE IF Len(es) = 1 THEN RenderW(es[1], T, k)
  ELSE RenderW(es[1], T, k) \o <<sep>> \o RenderSeq(Tail(es), T, k, sep)
RenderPairs(kvs, T, k) ==
  IF kvs = <<>> THEN <<>>
  ELSE LET one == RenderW(kvs[1][1], T, k) \o <<<<"op", ":">>>> \o RenderW(kvs[1][2], T, k) IN
       IF Len(kvs) = 1 THEN one ELSE one \o <<<<"comma", ",">>>> \o RenderPairs(Tail(kvs), T, k)

Render(t, T) == RenderW(t, T, 0)
Wrap(t, T, k) == RenderW(t, T, k)

\* the statements of C12 / C11 on one tree
RoundTrips(t, T) == LET r == RefParse(Render(t, T), T) IN r.ok /\ r.t = t /\ Render(r.t, T) = Render(t, T)
ParensFree(t, T, k) == LET r == RefParse(Wrap(t, T, k), T) IN r.ok /\ r.t = t
====
