INIT Init
NEXT Next
