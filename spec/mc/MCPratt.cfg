SPECIFICATION Spec
CONSTANTS Lazy = TRUE
 MaxLen = 4
 Alphabet <- OpsAlpha
 Source <- NoSource
 FirstSet <- One
 Chain = FALSE
 NRuns = 1
 Report <- Silent
 Table <- BuiltinTable
 MaxDepth = 256
 TernaryGate = TRUE
 NotGate = TRUE
 ExpectStrict = TRUE
 DoubledBP = TRUE
 defaultInitValue = defaultInitValue
CHECK_DEADLOCK FALSE
INVARIANT PrattAgreesWithGrammar StepBudget DepthBounded
