---- MODULE MCLexer ----
EXTENDS Lexer, Json
\* alphabets (code points): whitespace, digits, number characters, operator starts, delimiters, quotes, separators,
\* letters spelling in/not/true, multi-byte characters of width 2, 3 and 4
A1 == {32, Ord["1"], Ord["."], Ord["e"], Ord["+"], Ord["-"], Ord["<"], Ord["="], Ord["!"], Ord["("], Ord["'"], Ord["a"], 233, Ord[","]}
A2 == {32, Ord["a"], Ord["i"], Ord["n"], Ord["o"], Ord["t"], Ord["("], Ord[")"], 233, 128512, Ord["+"], Ord["\""], Ord["1"], Ord[";"]}
A3 == {TAB, CR, LF, Ord["t"], Ord["r"], Ord["u"], Ord["e"], Ord["T"], Ord["_"], Ord["."], 8364, Ord["["], Ord["&"], Ord["|"]}
A4 == {32, Ord["h"], Ord["i"], Ord["+"], Ord["-"], Ord["1"], Ord["("], Ord["x"], Ord["="], LF, Ord["'"], 233, Ord["?"], Ord[":"]}
\* characters Unicode calls white space but the engine does not (NBSP, VT, FF, NEL, ideographic space): ordinary name characters here
\* ... and characters whose low byte is that of a blank: U+2020 (0x20), U+010A (0x0A)
A5 == {32, Ord["\""], 160, 11, 12, 133, 12288, Ord["f"], Ord["("], Ord[")"], Ord["1"], 8224, Ord["'"], 266}
A6 == {32, 126, 64, 8800, Ord["a"], Ord["1"], 58, 63, Ord["="], 92, Ord["+"], Ord[";"], 127, Ord["'"]}
AllAlpha == A1 \cup A2 \cup A3 \cup A4 \cup A5 \cup A6
\* operator sets
OpsBuiltin == BuiltinOps
OpsExtended == ExtendedOps
\* user operators whose first character is neither a letter nor a character of a built-in symbolic operator (whole-word lookup)
OpsOdd == BuiltinOps \cup {<<126>>, <<64, 64>>, <<8800>>, <<Ord["a"], 126>>, <<58, 61>>, <<63, 58>>}      \* ~ @@ U+2260 a~ := ?:
\* the eight subsets of the three user operators (bit 1: prefix +++, bit 2: postfix ---, bit 4: infix hi) for registration histories
UPre == {W(<<"+","+","+">>)}
UPost == {W(<<"-","-","-">>)}
UIn == {W(<<"h","i">>)}
OpsS0 == BuiltinOps
OpsS1 == BuiltinOps \cup UPre
OpsS2 == BuiltinOps \cup UPost
OpsS3 == BuiltinOps \cup UPre \cup UPost
OpsS4 == BuiltinOps \cup UIn
OpsS5 == BuiltinOps \cup UPre \cup UIn
OpsS6 == BuiltinOps \cup UPost \cup UIn
OpsS7 == ExtendedOps
\* one JSON record per complete behaviour (leg R)
EmitOnce == (st \in {"done", "err"}) =>
   PrintT(ToJson([chars |-> inp, ok |-> (st = "done"), dc |-> dc,
                  evariant |-> (IF st = "done" THEN "" ELSE IF mode = "str" THEN "UnterminatedString" ELSE "InvalidNumber"),
                  toks |-> [k \in 1..Len(out) |-> <<out[k].k, ByteLo(out[k]), ByteHi(out[k]), TokText(out[k])>>]]))
Terminal == st \in {"done", "err"}
====
