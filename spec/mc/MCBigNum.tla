---- MODULE MCBigNum ----
(* Self-check of the limb arithmetic against TLC's native integers (leg M of C09). *)
EXTENDS BigNum
R == 0..320
Big == {9999, 10000, 10001, 99999999, 100000000, 12345678, 20000, 65536}
S == R \cup Big
SmallOK == \A x \in S, y \in R :
   /\ BToInt(BAdd(BFromInt(x), BFromInt(y))) = x + y
   /\ (x >= y => BToInt(BSub(BFromInt(x), BFromInt(y))) = x - y)
   /\ ((y = 0 \/ x <= 2000000000 \div y) => BToInt(BMul(BFromInt(x), BFromInt(y))) = x * y)
   /\ BCmp(BFromInt(x), BFromInt(y)) = (IF x < y THEN -1 ELSE IF x > y THEN 1 ELSE 0)
   /\ (y > 0 => (BToInt(BDivSmall(BFromInt(x), y)[1]) = x \div y /\ BDivSmall(BFromInt(x), y)[2] = x % y))
Consts == /\ BPow2(63) = TWO63 /\ BPow2(64) = TWO64 /\ BPow2(96) = TWO96 /\ BAdd(MAXMANT, <<1>>) = TWO96
          /\ BPow10(28) = <<0, 0, 0, 0, 0, 0, 0, 1>> /\ BDigits(MAXMANT) = 29 /\ BDigits(BPow10(28)) = 29
          /\ BMul(TWO64, TWO64) = BPow2(128) /\ BSub(BMul(TWO96, TWO96), BMul(MAXMANT, MAXMANT)) = BSub(BPow2(97), <<1>>)
          /\ BStripZeros(BPow10(9), 28, 0) = <<<<1>>, 9>> /\ BStripZeros(BFromInt(1200), 1, 0) = <<BFromInt(120), 1>>
DivOK == \A x \in S, y \in (R \cup Big) \ {0} :
   LET qr == BDivMod(BFromInt(x), BFromInt(y)) IN BToInt(qr[1]) = x \div y /\ BToInt(qr[2]) = x % y
BigDivOK == /\ BDivMod(BMul(TWO96, TWO64), TWO64) = <<TWO96, <<>>>>
            /\ BDivMod(BAdd(BMul(MAXMANT, TWO63), <<7>>), TWO63) = <<MAXMANT, <<7>>>>
            /\ BDivMod(BPow10(40), <<3>>)[2] = <<1>>
ASSUME DivOK
ASSUME BigDivOK
ASSUME SmallOK
ASSUME Consts
VARIABLE x
Init == x = 0
Next == UNCHANGED x
====
