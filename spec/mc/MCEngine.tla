---- MODULE MCEngine ----
EXTENDS Engine
T2 == {"t1", "t2"}
T3 == {"t1", "t2", "t3"}
NM == {"neg", "plus", "inc", "min", "f"}
NoScripts == <<>>
L(r, n) == <<"look", r, n>>
Ev(plan) == [op |-> "exec", plan |-> plan]
Rg(r, n, v) == [op |-> "reg", r |-> r, name |-> n, val |-> v]
\* first-use races: both threads' first calls; one registers (override of a built-in, new name), the other evaluates
PInitA == [t1 |-> << Ev(<<L("func", "min"), <<"call", 1>>>>), Ev(<<L("func", "f"), <<"call", 1>>>>) >>,
           t2 |-> << Rg("func", "min", "h1"), Rg("func", "f", "h2") >>]
PInitB == [t1 |-> << Rg("infix", "plus", "h1") >>, t2 |-> << Rg("prefix", "neg", "h2") >>, t3 |-> << Ev(<<L("prefix", "neg"), L("infix", "plus"), <<"call", 1>>, <<"call", 2>>>>) >>]
PInitC == [t1 |-> << Ev(<<L("postfix", "inc")>>), Rg("postfix", "inc", "h3") >>, t2 |-> << Ev(<<L("postfix", "inc"), <<"call", 1>>>>), Ev(<<L("func", "min")>>) >>]
\* F1: an evaluation that looks `plus` up twice, overlapped by a re-registration of plus
PF1 == [t1 |-> << Ev(<<L("infix", "plus"), L("func", "f"), <<"call", 2>>, L("infix", "plus"), <<"call", 3>>>>) >>, t2 |-> << Rg("infix", "plus", "h2") >>]
\* re-entrancy: the handler h1 registers, h2 evaluates, h3 evaluates something whose handler registers (nesting 2)
ScriptsR == [h1 |-> Rg("func", "f", "h9"), h2 |-> Ev(<<L("postfix", "inc"), <<"call", 1>>>>), h3 |-> Ev(<<L("func", "f"), <<"call", 1>>>>), h4 |-> Rg("infix", "plus", "h8")]
PReent == [t1 |-> << Rg("func", "f", "h1"), Ev(<<L("func", "f"), <<"call", 1>>, L("func", "f"), <<"call", 2>>>>) >>,
           t2 |-> << Rg("infix", "plus", "h3"), Ev(<<L("infix", "plus"), <<"call", 1>>>>) >>]
PReent2 == [t1 |-> << Rg("func", "min", "h2"), Rg("prefix", "neg", "h4"), Ev(<<L("func", "min"), <<"call", 1>>, L("prefix", "neg"), <<"call", 2>>>>) >>,
            t2 |-> << Ev(<<L("infix", "plus"), <<"call", 1>>>>), Rg("postfix", "inc", "h1") >>]
====
