SPECIFICATION Spec
CONSTANTS MaxLen = 4
 Alphabet <- A1
 Ops <- OpsBuiltin
 SliceMode = "char"
 Lazy = TRUE
INVARIANT TypeOK Tiling TailIsWs StrPayload MaximalMunch WholeWord ClassRules OnBoundary StepBudget ErrOnlyLexical
