---- MODULE MCPratt ----
EXTENDS Pratt, Render, Json, BigTableDef
T(k, s) == <<k, s>>
OpsAlpha == {T("num","n"), T("ref","x"), T("op","-"), T("op","*"), T("op","="), T("op","=="), T("op","not"), T("op","in"),
             T("op","!"), T("op","++"), T("op","?"), T("op",":"), T("delim","("), T("delim",")")}
DelAlpha == {T("num","n"), T("fun","f"), T("delim","("), T("delim",")"), T("delim","["), T("delim","]"), T("delim","{"), T("delim","}"),
             T("comma",","), T("op",":"), T("semi",";"), T("op","-"), T("op","?")}
CallAlpha == {T("num","n"), T("str","s"), T("fun","f"), T("delim","("), T("delim",")"), T("delim","]"), T("comma",","), T("semi",";"), T("bad","e")}
ListAlpha == {T("str","s"), T("delim","["), T("delim","]"), T("delim","("), T("delim",")"), T("comma",","), T("op",":"), T("bad","e")}
MapAlpha == {T("num","n"), T("delim","{"), T("delim","}"), T("comma",","), T("op",":"), T("op","?"), T("semi",";")}
AllAlpha == OpsAlpha \cup DelAlpha \cup ListAlpha \cup CallAlpha
DelCallMap == DelAlpha \cup CallAlpha \cup MapAlpha
NestAlpha == {T("num","n"), T("delim","("), T("delim",")"), T("op","-"), T("op","="), T("op","?"), T("op",":"), T("delim","["), T("delim","]")}
TernAlpha == {T("ref","x"), T("op","?"), T("op",":"), T("op","="), T("op","+"), T("op","not"), T("op","in"), T("delim","("), T("delim",")")}

\* ---- sentence families (fixed sources, numbered; one behaviour per source) -------------------------
R(n) == <<"ref", n>>
OP(o) == <<"op", o>>
D(s) == <<"delim", s>>
NOTT == OP("not")
LP == D("(")
RP == D(")")
COM == <<"comma", ",">>
\* all infix operators of the table in a fixed order
RECURSIVE SetSeq(_)
SetSeq(S) == IF S = {} THEN <<>> ELSE LET x == CHOOSE y \in S : TRUE IN <<x>> \o SetSeq(S \ {x})
InfixSeq == SetSeq(DOMAIN Table.infix)
NI == Len(InfixSeq)
\* one representative per (precedence, associativity) plus a second one where a level has several operators
RepSeq == SetSeq({CHOOSE o \in DOMAIN Table.infix : Table.infix[o][1] = p[1] /\ Table.infix[o][2] = p[2] :
                  p \in {<<Table.infix[o][1], Table.infix[o][2]>> : o \in DOMAIN Table.infix}}
                 \cup ({"+=", "<", "-", "in"} \cap DOMAIN Table.infix))
NR == Len(RepSeq)

\* pairs: every ordered pair of infix operators, 6 shapes
PairCount == NI * NI * 6
PairSource(i) ==
  LET k == i - 1  sh == k % 6  ob == InfixSeq[((k \div 6) % NI) + 1]  oa == InfixSeq[(k \div (6 * NI)) + 1] IN
  CASE sh = 0 -> <<R("x"), OP(oa), R("y"), OP(ob), R("z")>>
    [] sh = 1 -> <<R("x"), NOTT, OP(oa), R("y"), OP(ob), R("z")>>
    [] sh = 2 -> <<R("x"), OP(oa), R("y"), NOTT, OP(ob), R("z")>>
    [] sh = 3 -> <<R("x"), NOTT, OP(oa), R("y"), NOTT, OP(ob), R("z")>>
    [] sh = 4 -> <<R("x"), OP(oa), LP, R("y"), OP(ob), R("z"), RP>>
    [] sh = 5 -> <<LP, R("x"), OP(oa), R("y"), RP, OP(ob), R("z")>>

\* triples over the representatives, 6 shapes
TripleCount == NR * NR * NR * 6
TripleSource(i) ==
  LET k == i - 1  sh == k % 6
      oc == RepSeq[((k \div 6) % NR) + 1]  ob == RepSeq[((k \div (6 * NR)) % NR) + 1]  oa == RepSeq[(k \div (6 * NR * NR)) + 1] IN
  CASE sh = 0 -> <<R("w"), OP(oa), R("x"), OP(ob), R("y"), OP(oc), R("z")>>
    [] sh = 1 -> <<R("w"), OP(oa), R("x"), NOTT, OP(ob), R("y"), OP(oc), R("z")>>
    [] sh = 2 -> <<R("w"), OP(oa), LP, R("x"), OP(ob), R("y"), RP, OP(oc), R("z")>>
    [] sh = 3 -> <<R("w"), OP(oa), R("x"), OP(ob), LP, R("y"), OP(oc), R("z"), RP>>
    [] sh = 4 -> <<R("w"), OP(oa), R("x"), OP(ob), R("y"), NOTT, OP(oc), R("z")>>
    [] sh = 5 -> <<R("w"), NOTT, OP(oa), R("x"), NOTT, OP(ob), R("y"), NOTT, OP(oc), R("z")>>

\* chains of four and five operators over one operator per precedence level: precedence climbing that rises twice and falls
\* back needs four operators to show a stale binding power, and one `not` at each position
LevelSeq == SetSeq({CHOOSE o \in DOMAIN Table.infix : Table.infix[o][1] = p : p \in {Table.infix[o][1] : o \in DOMAIN Table.infix}})
NL == Len(LevelSeq)
QuadCount == NL * NL * NL * NL * 3
QuadSource(i) ==
  LET k == i - 1  sh == k % 3
      od == LevelSeq[((k \div 3) % NL) + 1]  oc == LevelSeq[((k \div (3 * NL)) % NL) + 1]
      ob == LevelSeq[((k \div (3 * NL * NL)) % NL) + 1]  oa == LevelSeq[(k \div (3 * NL * NL * NL)) + 1] IN
  CASE sh = 0 -> <<R("v"), OP(oa), R("w"), OP(ob), R("x"), OP(oc), R("y"), OP(od), R("z")>>
    [] sh = 1 -> <<R("v"), OP(oa), R("w"), OP(ob), R("x"), OP(oc), R("y"), NOTT, OP(od), R("z")>>
    [] sh = 2 -> <<R("v"), OP(oa), R("w"), OP(ob), R("x"), NOTT, OP(oc), R("y"), OP(od), R("z")>>
QuadSet == 1..QuadCount
\* five operators over every second level
EveryOther(s) == [j \in 1..((Len(s) + 1) \div 2) |-> s[2 * j - 1]]
QSeq == EveryOther(LevelSeq)
NQ == Len(QSeq)
QuintCount == NQ * NQ * NQ * NQ * NQ * 2
QuintSource(i) ==
  LET k == i - 1  sh == k % 2
      oe == QSeq[((k \div 2) % NQ) + 1]  od == QSeq[((k \div (2 * NQ)) % NQ) + 1]  oc == QSeq[((k \div (2 * NQ * NQ)) % NQ) + 1]
      ob == QSeq[((k \div (2 * NQ * NQ * NQ)) % NQ) + 1]  oa == QSeq[(k \div (2 * NQ * NQ * NQ * NQ)) + 1] IN
  CASE sh = 0 -> <<R("u"), OP(oa), R("v"), OP(ob), R("w"), OP(oc), R("x"), OP(od), R("y"), OP(oe), R("z")>>
    [] sh = 1 -> <<R("u"), OP(oa), R("v"), OP(ob), LP, R("w"), OP(oc), R("x"), RP, OP(od), R("y"), NOTT, OP(oe), R("z")>>
QuintSet == 1..QuintCount

\* decorations over pairs of representatives
NDecor == 20
DecorCount == NR * NR * NDecor
DecorSource(i) ==
  LET k == i - 1  sh == k % NDecor  ob == RepSeq[((k \div NDecor) % NR) + 1]  oa == RepSeq[(k \div (NDecor * NR)) + 1]
      A == OP(oa)  B == OP(ob)  Q == OP("?")  C == OP(":") IN
  CASE sh = 0 -> <<OP("-"), R("x"), A, R("y"), B, R("z")>>
    [] sh = 1 -> <<R("x"), A, OP("-"), R("y"), B, OP("!"), R("z")>>
    [] sh = 2 -> <<R("x"), A, R("y"), OP("++"), B, R("z"), OP("--")>>
    [] sh = 3 -> <<OP("-"), R("x"), OP("++"), A, OP("!"), R("y"), B, NOTT, R("z")>>
    [] sh = 4 -> <<R("x"), A, R("y"), Q, R("u"), B, R("v"), C, R("w"), A, R("z")>>
    [] sh = 5 -> <<R("x"), A, LP, R("y"), Q, R("u"), C, R("v"), RP, B, R("z")>>
    [] sh = 6 -> <<R("c"), Q, R("x"), A, R("y"), C, R("u"), Q, R("v"), B, R("w"), C, R("z")>>
    [] sh = 7 -> <<<<"fun", "f">>, LP, R("x"), A, R("y"), COM, R("z"), RP, B, D("["), R("u"), COM, R("v"), A, R("w"), D("]")>>
    [] sh = 8 -> <<D("{"), R("x"), A, R("y"), C, R("u"), B, R("v"), COM, R("w"), C, R("z"), D("}")>>
    [] sh = 9 -> <<R("x"), A, R("y"), <<"semi", ";">>, R("u"), B, R("v")>>
    [] sh = 10 -> <<LP, LP, R("x"), A, R("y"), RP, RP, B, LP, R("z"), RP>>
    [] sh = 11 -> <<R("x"), A, R("y"), B, R("z"), A, R("w"), B, R("v")>>
    [] sh = 12 -> <<R("x"), A, R("y"), NOTT, B, R("z"), Q, R("u"), C, R("v")>>
    [] sh = 13 -> <<R("c"), Q, R("t"), Q, R("x"), A, R("y"), C, R("u"), C, R("v"), B, R("w")>>
    [] sh = 14 -> <<R("x"), A, R("y"), B, R("z"), Q, R("u"), C, R("v")>>                       \* a chain of two operators in front of a conditional
    [] sh = 15 -> <<R("x"), A, R("y"), B, R("z"), OP("++"), Q, R("u"), A, R("t"), C, R("v"), B, R("w")>>
    [] sh = 16 -> <<LP, R("c"), Q, R("x"), A, R("y"), C, R("u"), RP, Q, R("v"), C, R("w"), B, R("z")>>   \* a conditional as the condition of a conditional
    [] sh = 17 -> <<LP, LP, R("c"), Q, R("x"), C, R("y"), RP, Q, R("t"), C, R("u"), RP, Q, LP, R("v"), A, R("w"), RP, C, R("z")>>
    [] sh = 18 -> <<R("x"), A, LP, R("y"), Q, R("u"), C, R("v"), RP>>                            \* a parenthesised conditional as the LAST operand
    [] sh = 19 -> <<D("["), R("x"), A, LP, R("c"), Q, R("u"), B, R("t"), C, R("v"), RP, COM, OP("-"), LP, OP("-"), R("z"), RP, D("]")>>
\* C08: user-registered operators at adjacent and extreme precedences against each other and against built-in representatives
UserSeq == SetSeq((DOMAIN Table.infix \ DOMAIN BuiltinInfix) \cup {"+", "-", "*", "==", "=", "in", "||"})
NUS == Len(UserSeq)
UPairCount == NUS * NUS * 6
UPairSource(i) ==
  LET k == i - 1  sh == k % 6  ob == UserSeq[((k \div 6) % NUS) + 1]  oa == UserSeq[(k \div (6 * NUS)) + 1] IN
  CASE sh = 0 -> <<R("x"), OP(oa), R("y"), OP(ob), R("z")>>
    [] sh = 1 -> <<R("x"), NOTT, OP(oa), R("y"), OP(ob), R("z")>>
    [] sh = 2 -> <<R("x"), OP(oa), R("y"), NOTT, OP(ob), R("z")>>
    [] sh = 3 -> <<R("w"), OP(oa), R("x"), OP(ob), R("y"), OP(oa), R("z")>>
    [] sh = 4 -> <<R("x"), OP(oa), LP, R("y"), OP(ob), R("z"), RP>>
    [] sh = 5 -> <<OP("-"), R("x"), OP(oa), R("y"), OP("++"), OP(ob), R("z"), OP("?"), R("u"), OP(oa), R("v"), OP(":"), R("w")>>
\* levels that hold operators of both associativities: the documentation does not say how `a L b R c` groups there (verdict
\* Unspecified), but whatever the grouping is, it may not depend on what the operands look like: an operand replaced by a chain of a
\* tighter-binding operator (which C02 groups first) or put in parentheses (C11) leaves the grouping of the two level operators alone.
\* Sentence kinds per ordered pair (oa, ob): 0 base `x oa y ob z`; 1, 2, 3: the middle, left, right operand replaced.
MixPairs == SetSeq({p \in (DOMAIN Table.infix) \X (DOMAIN Table.infix) : Table.infix[p[1]][1] = Table.infix[p[2]][1] /\ Table.infix[p[1]][2] # Table.infix[p[2]][2]})
NMix == Len(MixPairs)
Above(p) == {o \in DOMAIN Table.infix : Table.infix[o][1] > p /\ Table.infix[o][2] = "L"}
TighterOp(p) == IF Above(p) = {} THEN "" ELSE CHOOSE o \in Above(p) : \A o2 \in Above(p) : Table.infix[o2][1] >= Table.infix[o][1]
MixCount == NMix * 4
MixPairOf(i) == ((i - 1) \div 4) + 1
MixKindOf(i) == (i - 1) % 4
MixTight(i) == TighterOp(Table.infix[MixPairs[MixPairOf(i)][1]][1])
MixSource(i) ==
  LET oa == MixPairs[MixPairOf(i)][1]  ob == MixPairs[MixPairOf(i)][2]  k == MixKindOf(i)  t == MixTight(i)
      Opnd(n, n2, on) == IF ~on THEN <<R(n)>> ELSE IF t = "" THEN <<LP, R(n), RP>> ELSE <<R(n), OP(t), R(n2)>> IN
  Opnd("x", "x2", k = 2) \o <<OP(oa)>> \o Opnd("y", "y2", k = 1) \o <<OP(ob)>> \o Opnd("z", "z2", k = 3)
MixSet == 1..MixCount
EmitMix(i, toks, ok, ast) == PrintT(ToJson([toks |-> toks, ok |-> ok, ast |-> ast, v |-> Verdict(toks, Table)[1], pair |-> MixPairOf(i), kind |-> MixKindOf(i), tight |-> MixTight(i)]))
UPairSet == 1..UPairCount
PairSet == 1..PairCount
TripleSet == 1..TripleCount
DecorSet == 1..DecorCount
NoSource(i) == <<>>
One == {1}
Silent(i, toks, ok, ast) == TRUE
EmitJson(i, toks, ok, ast) == PrintT(ToJson([toks |-> toks, ok |-> ok, ast |-> ast, v |-> Verdict(toks, Table)[1]]))
Toks == SelectSeq(consumed \o la, LAMBDA x : x # EOFTOK)
AtEnd == pc[1] = "Fin"
\* C02 / C05 / C08: the machine's outcome conforms to the reference grammar's verdict on the same tokens
PrattAgreesWithGrammar == AtEnd => Conforms(Verdict(Toks, Table), ~err, result)
\* C12 / C11 on the specification: every tree the machine returns renders to a token string that the reference grammar
\* parses back to the same tree (with and without redundant parentheses around every sub-expression)
Specified == Verdict(Toks, Table)[1] # "Unspecified"
RenderRoundTrip == (AtEnd /\ ~err /\ Specified) => RoundTrips(result, Table)
ParensRedundant == (AtEnd /\ ~err /\ Specified) => (ParensFree(result, Table, 1) /\ ParensFree(result, Table, 2))
\* leg R of C12/C11: the rendered and the wrapped token strings of every accepted tree, as replayable records
EmitRender(i, toks, ok, ast) ==
  (ok /\ Verdict(toks, Table)[1] # "Unspecified") =>
     /\ PrintT(ToJson([toks |-> Render(ast, Table), ok |-> TRUE, ast |-> ast, v |-> "MustAccept", src |-> "render"]))
     /\ PrintT(ToJson([toks |-> Wrap(ast, Table, 1), ok |-> TRUE, ast |-> ast, v |-> "MustAccept", src |-> "wrap1"]))
\* C01: termination as safety, bounded recursion
StepBudget == steps <= 3 * (Len(consumed) + Len(la)) + 3
DepthBounded == /\ Len(stack[1]) <= 4 * (maxdepth + 1) + 4
                /\ maxdepth <= MaxDepth + 1
                /\ (AtEnd /\ ~err) => depth = 0
\* the nesting budget refuses nothing that is shallow: with MaxDepth = 3 an input is only refused for depth when its
\* reference tree really nests deeper than that (checked as: every entry consumes a token except the last, so refused-as-too-deep inputs have at least MaxDepth tokens)
BudgetOnlyWhenDeep == (AtEnd /\ err /\ maxdepth > MaxDepth) => Len(Toks) >= MaxDepth
Terminates == <>(pc[1] = "End")
FairSpec == Spec /\ WF_vars(Next)
====
