---- MODULE MCContextApi ----
(* Leg M/R of the Context API model: every operation sequence of length <= Depth, each complete one printed for replay. *)
EXTENDS ContextApi, Json
CONSTANT Depth
MCNames == {"n1", "n2"}
MCVals == {"v1", "v2", "none"}
\* values written by the enumerated operations (v2 only comes out of handlers and templates)
MCSetVals == {"v1", "none"}
MCHandlers == {"h1", "h2"}
MCHandles == {1, 2, 3}
MCRet(f) == IF f = "h1" THEN <<"ok", "v2">> ELSE <<"err">>
\* the create_context! invocations the harness contains (same numbering)
MCTemplate(t) ==
  CASE t = 1 -> <<>>
    [] t = 2 -> << <<"n1", VarE("v1")>> >>
    [] t = 3 -> << <<"n1", FnE("h1")>>, <<"n2", VarE("v2")>> >>
    [] t = 4 -> << <<"n1", VarE("v1")>>, <<"n1", FnE("h2")>> >>
    [] t = 5 -> << <<"n2", FnE("h1")>>, <<"n1", VarE("v2")>>, <<"n2", VarE("v1")>> >>
VARIABLE hist
HInit == Init /\ hist = <<>>
\* the operation is recorded with its arguments and its result
Ev(op, h, a1, a2) == [op |-> op, h |-> h, a1 |-> a1, a2 |-> a2, obs |-> obs']
\* handles are created in numerical order (they are interchangeable)
Fresh(h) == \A g \in Handles : g < h => Live(g)
HNext == /\ Len(hist) < Depth
         /\ \E h \in Handles :
              \/ Fresh(h) /\ New(h) /\ hist' = Append(hist, Ev("new", h, "", ""))
              \/ \E t \in 1..NTemplates : Fresh(h) /\ Macro(h, t) /\ hist' = Append(hist, Ev("macro", h, ToString(t), ""))
              \/ \E g \in Handles : Fresh(h) /\ Alias(h, g) /\ hist' = Append(hist, Ev("alias", h, ToString(g), ""))
              \/ \E n \in Names :
                   \/ \E v \in MCSetVals : SetVar(h, n, v) /\ hist' = Append(hist, Ev("set_variable", h, n, v))
                   \/ \E v \in MCSetVals : ExecAssign(h, n, v) /\ hist' = Append(hist, Ev("exec_assign", h, n, v))
                   \/ \E f \in Handlers : SetFunc(h, n, f) /\ hist' = Append(hist, Ev("set_func", h, n, f))
                   \/ GetVar(h, n) /\ hist' = Append(hist, Ev("get_variable", h, n, ""))
                   \/ GetFunc(h, n) /\ hist' = Append(hist, Ev("get_func", h, n, ""))
                   \/ ValueOf(h, n) /\ hist' = Append(hist, Ev("value", h, n, ""))
                   \/ ExecRead(h, n) /\ hist' = Append(hist, Ev("exec_read", h, n, ""))
                   \/ ExecCall(h, n) /\ hist' = Append(hist, Ev("exec_call", h, n, ""))
HSpec == HInit /\ [][HNext]_<<vars, hist>>
Emit == (Len(hist) = Depth) => PrintT(ToJson([hist |-> hist]))
\* last write wins, observed through every handle on the store (C08)
AliasesAgree == \A h, g \in Handles : (bound[h] # 0 /\ bound[h] = bound[g]) => St(h) = St(g)
====
