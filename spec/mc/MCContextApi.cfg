SPECIFICATION HSpec
CONSTANTS
 Names <- MCNames
 Vals <- MCVals
 Handlers <- MCHandlers
 Handles <- MCHandles
 MaxStores = 2
 Ret <- MCRet
 NTemplates = 5
 Template <- MCTemplate
 Depth = 4
INVARIANT TypeOK AliasesAgree Emit
PROPERTY OneCellPerStep HandlesStable
CHECK_DEADLOCK FALSE
