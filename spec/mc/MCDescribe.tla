---- MODULE MCDescribe ----
(***************************************************************************)
(* C18, leg M: every sequence of up to MaxSets registrations over the key  *)
(* universe (the same name under different kinds included; re-registration *)
(* with a new identity included), and for each reachable store the         *)
(* machine's rendering of every program of the family equals the           *)
(* reference D; a registration changes the rendering only of nodes with    *)
(* that key (action property).  Leg R: each reachable history is printed   *)
(* once with the expected strings.                                         *)
(***************************************************************************)
EXTENDS Describe, Json
CONSTANTS MaxSets, KeyUniverse, Emit,
          Deep      \* TRUE: the deep programs (trees of several hundred levels) instead of the standard family
L(x) == <<"lit", x>>
Rf(x) == <<"ref", x>>
\* programs containing every kind, `-` as prefix and as infix, f as function and as reference
StdPrograms == <<
  <<"bin", "-", <<"un", "-", Rf("x")>>, <<"bin", "+", L("1"), Rf("f")>>>>,
  <<"tern", <<"un", "!", Rf("x")>>, <<"call", "f", <<Rf("x"), L("2")>>>>, <<"call", "g", <<>>>>>>,
  <<"stmt", <<<<"post", Rf("x"), "++">>, <<"list", <<L("1"), <<"post", L("2"), "--">>>>>>, <<"map", <<<<Rf("f"), L("true")>>, <<L("3"), <<"list", <<>>>>>>>>>>>>>>,
  <<"bin", "+", <<"bin", "-", L("1"), L("2")>>, <<"un", "-", <<"un", "!", Rf("f")>>>>>>,
  <<"call", "g", <<<<"tern", Rf("x"), <<"none">>, <<"bin", "=", Rf("x"), L("1")>>>>>>>>,
  <<"bin", "-", <<"un", "++", Rf("x")>>, <<"post", <<"un", "--", Rf("f")>>, "--">>>>,
  <<"list", <<<<"map", <<>>>>, <<"call", "f", <<>>>>, <<"list", <<>>>>>>>>,      \* empty containers and a call without arguments
  <<"bin", "+", <<"un", "-", L("5")>>, <<"call", "g", <<<<"un", "-", L("2")>>, <<"un", "!", L("true")>>>>>>>>,   \* a prefix operator applied to a literal is a node like any other
  Rf("f"), L("7"), <<"none">> >>
\* trees far deeper than anything the parser's nesting budget (256) lets through in one construct: `x not in x not in ...` gives
\* two levels per operator, and an ExprAST may be built directly; every node still gets its own descriptor
RECURSIVE DeepChain(_)
DeepChain(n) == IF n = 0 THEN Rf("x") ELSE <<"un", "not", <<"bin", "in", DeepChain(n - 1), Rf("x")>>>>
RECURSIVE DeepList(_)
DeepList(n) == IF n = 0 THEN L("1") ELSE <<"list", <<DeepList(n - 1), Rf("x")>>>>
DeepPrograms == << DeepChain(127), DeepChain(129), DeepChain(200), DeepList(255), DeepList(300) >>
Programs == IF Deep THEN DeepPrograms ELSE StdPrograms
DeepKeys == {<<"unary", "not">>, <<"binary", "in">>, <<"reference", "x">>, <<"list", "">>}
AllKeys == {<<"unary", "-">>, <<"unary", "!">>, <<"unary", "++">>, <<"unary", "--">>, <<"binary", "-">>, <<"binary", "+">>, <<"postfix", "++">>, <<"postfix", "--">>, <<"ternary", "">>,
            <<"function", "f">>, <<"function", "g">>, <<"reference", "f">>, <<"reference", "x">>, <<"list", "">>, <<"map", "">>, <<"chain", "">>}
Ids == {"A", "B"}
Next == /\ Len(history) < MaxSets
        /\ \E k \in KeyUniverse, id \in Ids :
             /\ (id = "B" => \E i \in 1..Len(history) : history[i][1] = k[1] /\ history[i][2] = k[2])   \* B only ever replaces an earlier registration
             /\ SetDescriptor(k[1], k[2], id)
Spec == DInit /\ [][Next]_dvars
\* the code's lookups implement the reference: own key only, last registration wins, default otherwise
MachineIsReference == \A i \in 1..Len(Programs) : Dm(Programs[i]) = D(Programs[i], DescOf(store))
\* registering key k changes nothing about nodes with another key: with the new descriptor removed again, the rendering is the old one
RECURSIVE Uses(_, _)
Uses(t, k) == NodeKind(t) # "leaf" /\ (Key(NodeKind(t), NodeName(t)) = k \/ \E i \in 1..Len(NodeKids(t)) : Uses(NodeKids(t)[i], k))
NonInterference == [][\A i \in 1..Len(Programs) :
                        LET k == Key(history'[Len(history')][1], history'[Len(history')][2]) IN
                        ~Uses(Programs[i], k) => D(Programs[i], DescOf(store')) = D(Programs[i], DescOf(store))]_dvars
EmitOnce == Emit => PrintT(ToJson([sets |-> history, expected |-> [i \in 1..Len(Programs) |-> D(Programs[i], DescOf(store))], programs |-> Programs]))
ViewNoHist == history
====
