---- MODULE MCEval ----
(***************************************************************************)
(* Exhaustive evaluator configuration (C06, C07, C14, C15): every program  *)
(* shape of depth <= Depth over all node kinds, whose leaves are distinct  *)
(* observable context functions (called as f() or reached by bare name),   *)
(* crossed with boolean scripts for the leaves and a fault (error or       *)
(* panic) injected at every invocation position.  TLC checks the machine   *)
(* against Den and the lock/containment invariants in every state, and     *)
(* prints each finished behaviour as a replayable record (leg R).          *)
(***************************************************************************)
EXTENDS Eval, Json, TLC
CONSTANTS Depth,        \* 1 or 2
          LeafModes,    \* subset of {"call", "bare", "mixed"}
          FullFaults,   \* TRUE: error and panic at every position; FALSE: error everywhere, panic at the first and last
          Emit,         \* print records
          Family,       \* "shapes" (C07 / C14 / C15) or "assign" (C06)
          ChainLen,     \* assign family: longest statement chain
          Mutators      \* shapes family: some handlers write to the context they are evaluated in
HID == <<"h1", "h2", "h3", "h4", "h5", "h6", "h7", "h8", "h9", "h10", "h11", "h12", "h13", "h14", "h15", "h16", "h17", "h18">>
NAME == <<"n1", "n2", "n3", "n4", "n5", "n6", "n7", "n8", "n9", "n10", "n11", "n12">>
LeafIdx(h) == CHOOSE i \in 1..18 : HID[i] = h
\* abstract shapes
C == <<"c">>
Kids1 == {C}
Kids2 == {C, <<"un", C>>, <<"calc", C, C>>, <<"set", C>>, <<"tern", C, C, C>>, <<"list", <<C, C>>>>, <<"gcall", <<C>>>>}
Over(K) ==
  {<<"un", a>> : a \in K} \cup {<<"post", a>> : a \in K} \cup {<<"calc", a, b>> : a \in K, b \in K} \cup {<<"set", a>> : a \in K} \cup {<<"cset", a>> : a \in K}
  \cup {<<"tern", a, b, c>> : a \in K, b \in K, c \in K} \cup {<<"list", <<>>>>} \cup {<<"list", <<a>>>> : a \in K} \cup {<<"list", <<a, b>>>> : a \in K, b \in K}
  \cup {<<"map", <<<<a, b>>>>>> : a \in K, b \in K} \cup {<<"stmt", <<a, b>>>> : a \in K, b \in K} \cup {<<"stmt", <<a, <<"var">>, b>>>> : a \in K, b \in K}
  \cup {<<"gcall", <<a, b>>>> : a \in K, b \in K} \cup {<<"gcall", <<>>>>} \cup {<<"setbad", a>> : a \in K} \cup {<<"unk", a>> : a \in K} \cup {<<"unkcall", <<a>>>> : a \in K}
  \cup {<<"setfn", a>> : a \in K} \cup {<<"varcall", <<a>>>> : a \in K}
  \cup {<<"inlist", a, b, c>> : a \in K, b \in K, c \in {C}}
  \cup {<<"uun", a>> : a \in K} \cup {<<"upost", a>> : a \in K} \cup {<<"ucalc", a, b>> : a \in K, b \in K} \cup {<<"uset", a>> : a \in K}
\* conditional ladders: a rung whose condition is not a boolean (G returns 7) is the first error, wherever the rung sits
NB == <<"gcall", <<C>>>>
Ladders == { <<"tern", C, C, <<"tern", NB, C, C>>>>, <<"tern", C, <<"tern", NB, C, C>>, C>>, <<"tern", C, C, <<"tern", C, C, <<"tern", NB, C, C>>>>>>,
             <<"tern", C, C, <<"tern", C, <<"tern", NB, C, C>>, C>>>>, <<"tern", <<"tern", C, NB, C>>, C, C>>, <<"list", <<C, <<"tern", C, C, <<"tern", NB, C, C>>>>>>>> }
\* an operator application that fails in the middle of a chain: nothing to its right runs
FChains == { <<"casecall", <<C>>>>, <<"bsum", <<C, C>>>>, <<"bsum", <<C, <<"bsum", <<C>>>>, C>>>>, <<"calc", <<"fcalc", C, C>>, C>>, <<"fcalc", <<"fcalc", C, C>>, C>>, <<"calc", C, <<"fcalc", C, C>>>>, <<"list", <<C, <<"calc", <<"fcalc", C, C>>, C>>, C>>>>,
             <<"gcall", <<<<"fcalc", C, C>>, C>>>>, <<"map", <<<<<<"fcalc", C, C>>, C>>>>>>, <<"tern", <<"fcalc", C, C>>, C, C>> }
Shapes == IF Depth = 1 THEN {C, <<"var">>} \cup Over(Kids1) \cup {<<"casecall", <<C>>>>, <<"bsum", <<C, C>>>>, <<"calc", <<"fcalc", C, C>>, C>>} \cup {<<"map", <<<<C, C>>, <<C, C>>>>>>, <<"stmt", <<>>>>, <<"stmt", <<C, C, C>>>>}
          ELSE Ladders \cup FChains \cup Over(Kids2) \cup {<<"stmt", <<a, b, c>>>> : a \in {C, <<"set", C>>}, b \in Kids2, c \in {C, <<"var">>, <<"tern", C, C, C>>}}
RECURSIVE Size(_), SizeSeq(_)
SizeSeq(s) == IF s = <<>> THEN 0 ELSE Size(Head(s)) + SizeSeq(Tail(s))
Size(t) ==
  CASE t[1] = "c" -> 1
    [] t[1] = "var" -> 0
    [] t[1] \in {"un", "post", "set", "cset", "setbad", "unk", "setfn", "uun", "upost", "uset"} -> Size(t[2])
    [] t[1] \in {"calc", "ucalc", "fcalc"} -> Size(t[2]) + Size(t[3])
    [] t[1] \in {"tern", "inlist"} -> Size(t[2]) + Size(t[3]) + Size(t[4])
    [] t[1] \in {"list", "stmt", "gcall", "unkcall", "varcall", "bsum", "casecall"} -> SizeSeq(t[2])
    [] t[1] = "map" -> SizeSeq([i \in 1..2 * Len(t[2]) |-> t[2][(i + 1) \div 2][IF i % 2 = 1 THEN 1 ELSE 2]])
\* concrete program: leaves numbered base+1.. in source order; mode decides how leaf i is reached
Leaf(i, mode) == IF mode = "call" \/ (mode = "mixed" /\ i % 2 = 1) THEN <<"call", NAME[i], <<>>>> ELSE <<"ref", NAME[i]>>
RECURSIVE Build(_, _, _), BuildSeq(_, _, _)
BuildSeq(s, base, mode) == IF s = <<>> THEN <<>> ELSE <<Build(Head(s), base, mode)>> \o BuildSeq(Tail(s), base + Size(Head(s)), mode)
Build(t, base, mode) ==
  CASE t[1] = "c" -> Leaf(base + 1, mode)
    [] t[1] = "var" -> <<"ref", "x">>
    [] t[1] = "un" -> <<"un", "!", Build(t[2], base, mode)>>
    [] t[1] = "post" -> <<"post", Build(t[2], base, mode), "++">>
    [] t[1] = "calc" -> <<"bin", "&&", Build(t[2], base, mode), Build(t[3], base + Size(t[2]), mode)>>
    [] t[1] = "fcalc" -> <<"bin", "-", Build(t[2], base, mode), Build(t[3], base + Size(t[2]), mode)>>   \* `-` on booleans: the OPERATOR fails, after both operands ran
    [] t[1] = "set" -> <<"bin", "=", <<"ref", "x">>, Build(t[2], base, mode)>>
    [] t[1] = "cset" -> <<"bin", "+=", <<"ref", "x">>, Build(t[2], base, mode)>>
    [] t[1] = "setbad" -> <<"bin", "=", <<"lit", VInt(1)>>, Build(t[2], base, mode)>>
    [] t[1] = "setfn" -> <<"bin", "=", <<"ref", "n12">>, Build(t[2], base, mode)>>      \* the target name is bound to a context function
    [] t[1] = "unk" -> <<"un", "@@", Build(t[2], base, mode)>>
    [] t[1] = "uun" -> <<"un", "upre", Build(t[2], base, mode)>>                          \* user-registered prefix / postfix / infix operators
    [] t[1] = "upost" -> <<"post", Build(t[2], base, mode), "upost">>
    [] t[1] = "ucalc" -> <<"bin", "uin", Build(t[2], base, mode), Build(t[3], base + Size(t[2]), mode)>>
    [] t[1] = "uset" -> <<"bin", "uasg", <<"ref", "x">>, Build(t[2], base, mode)>>
    [] t[1] = "tern" -> <<"tern", Build(t[2], base, mode), Build(t[3], base + Size(t[2]), mode), Build(t[4], base + Size(t[2]) + Size(t[3]), mode)>>
    [] t[1] = "inlist" -> <<"bin", "in", Build(t[2], base, mode), <<"list", <<Build(t[3], base + Size(t[2]), mode), Build(t[4], base + Size(t[2]) + Size(t[3]), mode)>>>>>>
    [] t[1] = "list" -> <<"list", BuildSeq(t[2], base, mode)>>
    [] t[1] = "stmt" -> <<"stmt", BuildSeq(t[2], base, mode)>>
    [] t[1] = "gcall" -> <<"call", "G", BuildSeq(t[2], base, mode)>>
    [] t[1] = "casecall" -> <<"call", "GL", BuildSeq(t[2], base, mode)>>        \* only `gl` is registered: names are matched exactly
    [] t[1] = "bsum" -> <<"call", "sum", BuildSeq(t[2], base, mode)>>           \* the built-in aggregate on booleans: it fails, after ALL its arguments ran
    [] t[1] = "unkcall" -> <<"call", "nosuch", BuildSeq(t[2], base, mode)>>
    [] t[1] = "varcall" -> <<"call", "x", BuildSeq(t[2], base, mode)>>                   \* x is a context *variable*: the global x is called
    [] t[1] = "map" -> <<"map", [i \in 1..Len(t[2]) |->
          <<Build(t[2][i][1], base + SizeSeq([j \in 1..2 * (i - 1) |-> t[2][(j + 1) \div 2][IF j % 2 = 1 THEN 1 ELSE 2]]), mode),
            Build(t[2][i][2], base + SizeSeq([j \in 1..2 * (i - 1) |-> t[2][(j + 1) \div 2][IF j % 2 = 1 THEN 1 ELSE 2]]) + Size(t[2][i][1]), mode)>>]>>
\* scripts: every leaf TRUE, every leaf FALSE, exactly one FALSE, exactly one TRUE
Scripts(L) == {[i \in 1..L |-> TRUE], [i \in 1..L |-> FALSE]} \cup {[i \in 1..L |-> i # j] : j \in 1..L} \cup {[i \in 1..L |-> i = j] : j \in 1..L}
Faults(L) == {NoFault} \cup {<<k, "err">> : k \in 1..(L + 1)} \cup
             (IF FullFaults THEN {<<k, "panic">> : k \in 1..(L + 1)} ELSE {<<1, "panic">>, <<L, "panic">>, <<L + 1, "panic">>} \cap ((1..(L + 1)) \X {"panic"}))
\* the environment of a case: leaf handlers h1..hL return the scripted booleans; G (global function) returns 7 and is logged as h11;
\* n12 is a context function (h12) used as an assignment target; x is a context variable and a *global* function (h10)
EnvOf(L, script, fault) ==
  [handlers |-> [h \in {HID[i] : i \in 1..18} |->
                   [ret |-> IF \E i \in 1..L : HID[i] = h THEN VBool(script[CHOOSE i \in 1..L : HID[i] = h])
                            ELSE IF h = "h11" THEN VInt(7) ELSE IF h = "h10" THEN VInt(5) ELSE VBool(TRUE), act |-> "lockctx",
                    copy |-> IF ~Mutators THEN <<>> ELSE IF h = "h2" THEN <<"x", "y">> ELSE IF h = "h5" THEN <<"n12", "x">> ELSE IF h = "h11" THEN <<"n1", "g">> ELSE <<>>]],
   gfun |-> ("G" :> "h11") @@ ("x" :> "h10") @@ ("gl" :> "h18"), gprefix |-> ("upre" :> "h13"), gpostfix |-> ("upost" :> "h14"),
   \* `+` is replaced by a user handler as well: the compound `+=` keeps its own built-in arithmetic and may not go through it
   ginfix |-> ("uin" :> <<"h15", "CALC">>) @@ ("uasg" :> <<"h16", "SETTER">>) @@ ("+" :> <<"h17", "CALC">>), fault |-> fault]
CtxOf(L) == [nm \in {NAME[i] : i \in 1..L} \cup {"n12", "x"} |->
               IF nm = "x" THEN <<"var", VBool(TRUE)>> ELSE IF nm = "n12" THEN <<"fn", "h12">> ELSE <<"fn", HID[CHOOSE i \in 1..L : NAME[i] = nm]>>]
\* ---- C06: statement chains over two variables ---------------------------------------------------------
N1 == <<"lit", VInt(1)>>
N2 == <<"lit", VInt(2)>>
SA == <<"lit", VStr(<<97>>)>>
X == <<"ref", "x">>
\* the second name has the dotted / underscored form the tokenizer allows (a name is a name: no nested lookup, no normalisation)
YN == "cfg.y_1"
Y == <<"ref", YN>>
Stmts == << <<"bin", "=", X, N1>>, <<"bin", "=", X, SA>>, <<"bin", "+=", X, N2>>, <<"bin", "-=", X, SA>>, <<"bin", "*=", X, X>>, <<"bin", "<<=", X, N2>>,
            <<"bin", "=", Y, X>>, <<"bin", "=", X, <<"bin", "=", Y, N2>>>>, <<"bin", "=", N1, N2>>, <<"bin", "=", <<"list", <<X>>>>, N1>>, <<"bin", "/=", X, <<"lit", VInt(0)>>>>,
            X, Y, <<"bin", "+", X, N1>>, <<"bin", "=", <<"ref", "n12">>, N1>>, <<"ref", "n12">>, <<"bin", "%=", Y, N2>>, <<"bin", "=", Y, <<"call", "n12", <<>>>>>>,
            <<"bin", "|=", X, N1>>, <<"bin", "=", X, <<"list", <<X, Y>>>>>>, <<"bin", "&&", X, Y>>,
            \* the right side itself assigns the target: x op= e must use the value x had *before* e ran
            <<"bin", "+=", X, <<"tern", <<"bin", "==", <<"bin", "=", X, <<"lit", VInt(5)>>>>, <<"none">>>>, <<"lit", VInt(10)>>, <<"lit", VInt(20)>>>>>>,
            <<"bin", "-=", X, <<"call", "n12", <<<<"bin", "=", X, <<"lit", VInt(100)>>>>>>>>>>,
            \* an unknown function is only discovered after its arguments ran (their assignments stay); an unbound name that happens to
            \* be a registered function's name is just an unbound name
            <<"call", "nosuch", <<<<"bin", "=", X, N2>>>>>>, <<"bin", "=", X, <<"ref", "sum">>>>, <<"bin", "+=", <<"ref", "mul">>, N1>> >>
NS == Len(Stmts)
AssignCtxs == << <<>>, ("x" :> <<"var", VInt(3)>>), ("x" :> <<"var", VInt(3)>>) @@ (YN :> <<"var", VBool(TRUE)>>), ("x" :> <<"fn", "h1">>) @@ ("n12" :> <<"fn", "h12">>),
                ("n12" :> <<"fn", "h12">>) @@ (YN :> <<"var", VInt(5)>>) >>
AssignEnv(fault) == [handlers |-> [h \in {HID[i] : i \in 1..18} |-> [ret |-> IF h = "h1" THEN VInt(10) ELSE VInt(7), act |-> "lockctx"]],
                     gfun |-> <<>>, gprefix |-> <<>>, gpostfix |-> <<>>, ginfix |-> <<>>, fault |-> fault]
AssignInit == \E len \in 0..ChainLen, c \in 1..Len(AssignCtxs), fault \in {NoFault, <<1, "err">>, <<2, "panic">>} :
                \E idxs \in [1..len -> 1..NS] :
                   Start(AssignEnv(fault), IF len = 1 THEN Stmts[idxs[1]] ELSE <<"stmt", [k \in 1..len |-> Stmts[idxs[k]]]>>, AssignCtxs[c])
\* ---- C08: which handler a call reaches ------------------------------------------------------------------
\* name bound as: context function / global function / built-in / context variable / nothing, in every combination that matters
DispatchCases == <<
  [prog |-> <<"call", "d1", <<>>>>, ctx |-> ("d1" :> <<"fn", "h1">>), gfun |-> <<>>],                                    \* context function only
  [prog |-> <<"call", "d2", <<>>>>, ctx |-> <<>>, gfun |-> ("d2" :> "h2")],                                                \* global only
  [prog |-> <<"call", "d3", <<>>>>, ctx |-> ("d3" :> <<"fn", "h3">>), gfun |-> ("d3" :> "h4")],                           \* both: the context wins
  [prog |-> <<"call", "d4", <<>>>>, ctx |-> ("d4" :> <<"var", VInt(9)>>), gfun |-> ("d4" :> "h5")],                       \* a context *variable* does not shadow a call
  [prog |-> <<"call", "d5", <<>>>>, ctx |-> ("d5" :> <<"var", VInt(9)>>), gfun |-> <<>>],                                  \* variable only: no such function
  [prog |-> <<"call", "d6", <<>>>>, ctx |-> <<>>, gfun |-> <<>>],                                                           \* nothing: error
  [prog |-> <<"call", "min", <<<<"lit", VInt(4)>>, <<"lit", VInt(2)>>>>>>, ctx |-> <<>>, gfun |-> <<>>],                  \* built-in
  [prog |-> <<"call", "max", <<<<"lit", VInt(4)>>>>>>, ctx |-> ("max" :> <<"fn", "h6">>), gfun |-> <<>>],                 \* built-in shadowed by the context
  [prog |-> <<"call", "sum", <<<<"lit", VInt(4)>>>>>>, ctx |-> <<>>, gfun |-> ("sum" :> "h7")],                            \* built-in replaced globally
  [prog |-> <<"stmt", <<<<"call", "d7", <<>>>>, <<"ref", "d7">>, <<"call", "d8", <<<<"call", "d7", <<>>>>>>>>>>>>, ctx |-> ("d7" :> <<"fn", "h8">>), gfun |-> ("d8" :> "h9") @@ ("d7" :> "h10")],
  [prog |-> <<"bin", "=", <<"ref", "d9">>, <<"call", "d9", <<>>>>>>, ctx |-> ("d9" :> <<"fn", "h11">>), gfun |-> ("d9" :> "h12")],  \* after x = x(): x is a variable, the global is called
  [prog |-> <<"stmt", <<<<"bin", "=", <<"ref", "d10">>, <<"lit", VInt(1)>>>>, <<"call", "d10", <<>>>>>>>>, ctx |-> ("d10" :> <<"fn", "h13">>), gfun |-> ("d10" :> "h14")],
  \* the same names with and without a shadowing context: what an earlier evaluation resolved must not leak into a later one (C16)
  [prog |-> <<"call", "d11", <<>>>>, ctx |-> <<>>, gfun |-> ("d11" :> "h15")],
  [prog |-> <<"call", "d11", <<>>>>, ctx |-> ("d11" :> <<"fn", "h16">>), gfun |-> ("d11" :> "h15")],
  [prog |-> <<"call", "max", <<<<"lit", VInt(4)>>, <<"lit", VInt(6)>>>>>>, ctx |-> <<>>, gfun |-> <<>>],
  [prog |-> <<"list", <<<<"call", "d11", <<>>>>, <<"call", "max", <<<<"lit", VInt(1)>>>>>>>>>>, ctx |-> ("max" :> <<"fn", "h6">>), gfun |-> ("d11" :> "h15")],
  \* the argument rebinds the callee's name to a variable: the call is resolved afterwards, so the registered function runs
  [prog |-> <<"call", "d12", <<<<"bin", "=", <<"ref", "d12">>, <<"lit", VInt(2)>>>>>>>>, ctx |-> ("d12" :> <<"fn", "h17">>), gfun |-> ("d12" :> "h18")] >>
DispatchEnv(c, fault) == [handlers |-> [h \in {HID[i] : i \in 1..18} |-> [ret |-> VStr(<<104, LeafIdx(h) + 64>>), act |-> "lockctx"]],
                          gfun |-> c.gfun, gprefix |-> <<>>, gpostfix |-> <<>>, ginfix |-> <<>>, fault |-> fault]
DispatchInit == \E k \in 1..Len(DispatchCases), fault \in {NoFault, <<1, "err">>, <<1, "panic">>, <<2, "err">>} : Start(DispatchEnv(DispatchCases[k], fault), DispatchCases[k].prog, DispatchCases[k].ctx)
ShapeInit == \E s \in Shapes, mode \in LeafModes :
          LET L == Size(s) IN
          \E script \in Scripts(L), fault \in Faults(L) : Start(EnvOf(L, script, fault), Build(s, 0, mode), CtxOf(L))
\* ---- the same name more than once in one program: every occurrence is its own invocation (no result is remembered) -------
DupProgs(mode) == LET A == Leaf(1, mode)  B == Leaf(2, mode)  RA == <<"ref", NAME[1]>>  CA == <<"call", NAME[1], <<>>>> IN
  << <<"bin", "&&", A, A>>, <<"list", <<A, B, A>>>>, <<"stmt", <<RA, CA>>>>, <<"stmt", <<CA, RA, RA>>>>, <<"tern", A, A, A>>,
     <<"bin", "==", RA, RA>>, <<"call", "G", <<RA, RA>>>>, <<"map", <<<<RA, CA>>, <<B, RA>>>>>>, <<"stmt", <<<<"bin", "=", <<"ref", "x">>, RA>>, RA>>>>,
     \* an argument rebinds the callee's own name: the callee is resolved after the arguments (the name then is a variable: no such function)
     <<"call", NAME[1], <<<<"bin", "=", RA, <<"lit", VBool(TRUE)>>>>>>>>, <<"call", NAME[1], <<B, <<"bin", "=", RA, B>>>>>> >>
DupInit == \E mode \in LeafModes, k \in 1..11, script \in Scripts(2), fault \in {NoFault} \cup {<<j, "err">> : j \in 1..4} \cup {<<2, "panic">>} :
             Start(EnvOf(2, script, fault), DupProgs(mode)[k], CtxOf(2))
\* ---- C03: the conditional is an operator too - its value is the selected branch's, and the other branch does not exist for it ------
LI(k) == <<"lit", VInt(k)>>
DivZero == <<"bin", "/", LI(1), LI(0)>>
CondProgs == << <<"tern", <<"lit", VBool(TRUE)>>, LI(1), DivZero>>, <<"tern", <<"lit", VBool(FALSE)>>, DivZero, LI(2)>>,
                <<"tern", <<"bin", "==", <<"ref", "d">>, LI(0)>>, LI(0), <<"bin", "/", LI(100), <<"ref", "d">>>>>>,
                <<"stmt", <<<<"tern", <<"lit", VBool(TRUE)>>, <<"bin", "=", <<"ref", "a">>, LI(1)>>, <<"bin", "=", <<"ref", "a">>, LI(2)>>>>, <<"ref", "a">>>>>>,
                <<"tern", <<"bin", ">", <<"ref", "d">>, LI(10)>>, DivZero, <<"tern", <<"bin", ">", <<"ref", "d">>, LI(-1)>>, <<"lit", VStr(<<109>>)>>, DivZero>>>>,
                <<"tern", <<"bin", "==", <<"ref", "n">>, <<"none">>>>, LI(0), <<"bin", "+", <<"ref", "n">>, LI(1)>>>>,
                <<"tern", LI(1), LI(2), LI(3)>>, <<"tern", <<"none">>, LI(2), LI(3)>>,
                \* a map literal is the list of its entries, in source order, a repeated key included
                <<"map", <<<<LI(1), LI(1)>>, <<LI(2), LI(2)>>, <<LI(3), LI(3)>>, <<LI(4), LI(4)>>, <<LI(5), LI(5)>>, <<LI(1), LI(7)>>>>>>,
                <<"bin", "==", <<"map", <<<<LI(1), LI(1)>>, <<LI(2), LI(2)>>, <<LI(1), LI(7)>>>>>>, <<"map", <<<<LI(1), LI(1)>>, <<LI(2), LI(2)>>, <<LI(1), LI(7)>>>>>>>> >>
CondInit == \E k \in 1..Len(CondProgs) : Start(AssignEnv(NoFault), CondProgs[k], ("d" :> <<"var", VInt(0)>>))
Init == IF Family = "cond" THEN CondInit ELSE IF Family = "assign" THEN AssignInit ELSE IF Family = "dispatch" THEN DispatchInit ELSE IF Family = "dup" THEN DupInit ELSE ShapeInit
VALToJson(st, v) == IF st = "ok" THEN v ELSE <<"none">>
CtxToJson(c) == LET names == {nm \in DOMAIN c : TRUE} IN [nm \in names |-> c[nm]]
Record == [prog |-> prog, ctx0 |-> CtxToJson(ctx0), handlers |-> [h \in DOMAIN env.handlers |-> env.handlers[h].ret],
           copies |-> [h \in {k \in DOMAIN env.handlers : HandlerCopy(env, k) # <<>>} |-> HandlerCopy(env, h)],
           gfun |-> env.gfun, gprefix |-> env.gprefix, gpostfix |-> env.gpostfix, ginfix |-> env.ginfix, fault |-> env.fault,
           st |-> status, val |-> VALToJson(status, IF status = "ok" THEN vals[1] ELSE VNone), ctx |-> CtxToJson(ctx), log |-> LogProj]
Next == \/ MStep
        \/ (status # "run" /\ UNCHANGED mvars)
Spec == Init /\ [][Next]_mvars
EmitOnce == (Emit /\ status # "run") => PrintT(ToJson(Record))
\* source order: leaf handlers are invoked in increasing order, each at most once
LeftToRight == \A i \in 1..Len(log) - 1 : (LeafIdx(log[i][1]) <= 9 /\ LeafIdx(log[i + 1][1]) <= 9) => LeafIdx(log[i][1]) < LeafIdx(log[i + 1][1])
AtMostOnce == \A i, j \in 1..Len(log) : (i # j /\ LeafIdx(log[i][1]) <= 9) => log[i][1] # log[j][1]
====
