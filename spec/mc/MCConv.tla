---- MODULE MCConv ----
(* C17, leg M/R: the accessor x variant matrix over the whole value universe, and integer() on every number of it. *)
EXTENDS Conv, Universe, Json, TLC
Accs == <<"decimal", "integer", "float", "string", "bool", "list">>
NU == Len(UAll)
Expected(acc, v) ==
  IF v[1] # AccessorVariant(acc) THEN <<"err">>
  ELSE IF acc = "integer" THEN (LET e == IntegerExpected(v) IN IF e[1] = "ok" THEN <<"ok", VNum(e[2])>> ELSE <<"err">>)
  ELSE IF acc = "float" THEN <<"dc">>
  ELSE <<"ok", v>>
VARIABLES i, emitted
Init == i \in 1..(Len(Accs) * NU) /\ emitted = FALSE
Case == LET acc == Accs[((i - 1) \div NU) + 1] v == UAll[((i - 1) % NU) + 1] IN [kind |-> "accessor", acc |-> acc, v |-> v, out |-> Expected(acc, v)]
Next == ~emitted /\ emitted' = TRUE /\ i' = i /\ PrintT(ToJson(Case))
Spec == Init /\ [][Next]_<<i, emitted>>
\* the matrix is total, and integer() accepts exactly the integral values inside i64 whatever the scale
Total == Case.out[1] \in {"ok", "err", "dc"}
IntegerIgnoresScale == \A k \in 1..NNums : LET v == UAll[k] IN
   (IntegerExpected(v)[1] = "ok") <=> (DIsIntegral(VDec(v)) /\ InI64(VDec(v)))
ASSUME IntegerIgnoresScale
====
