---- MODULE MCBuiltins ----
(***************************************************************************)
(* Exhaustive operator tables: every built-in infix / prefix / postfix     *)
(* operator and aggregate applied to every tuple of the value universe.    *)
(* Each behaviour is one application: Init picks the case number, the      *)
(* single step computes the reference outcome and prints it as a           *)
(* replayable record (leg R); TLC's own check is totality of the reference *)
(* layer (every application yields a well-formed outcome).                 *)
(***************************************************************************)
EXTENDS Builtins, Universe, Json, TLC
CONSTANTS Family,     \* "bin" | "un" | "post" | "fn" | "smalldec"
          IdxSet      \* which universe indices to use (CoreIdx / AllIdx / NumIdx)
RECURSIVE SetSeq(_)
SetSeq(S) == IF S = {} THEN <<>> ELSE LET x == CHOOSE y \in S : \A z \in S : y <= z IN <<x>> \o SetSeq(S \ {x})
Idx == SetSeq(IdxSet)
NU == Len(Idx)
U(i) == UAll[Idx[i]]
InfixOps == <<"=", "+=", "-=", "*=", "/=", "%=", "<<=", ">>=", "&=", "^=", "|=", "||", "&&", "<", "<=", ">", ">=", "==", "!=",
              "|", "^", "&", "<<", ">>", "+", "-", "*", "/", "%", "beginWith", "endWith", "in">>
PrefixOps == <<"-", "+", "!", "not", "AND", "OR">>
PostfixOps == <<"++", "--">>
Fns == <<"min", "max", "sum", "mul">>
ArithOps == <<"+", "-", "*", "%", "<", "<=", ">", ">=", "==", "!=", "+=", "-=", "*=", "%=">>
NCases == CASE Family = "bin" -> Len(InfixOps) * NU * NU
            [] Family = "un" -> Len(PrefixOps) * NU
            [] Family = "post" -> Len(PostfixOps) * NU
            [] Family = "fn" -> Len(Fns) * (1 + NU + NU * NU + NU)
            [] Family = "smalldec" -> Len(ArithOps) * NSmallDec * NSmallDec
Case(i) ==
  LET k == i - 1 IN
  CASE Family = "bin" -> LET op == InfixOps[(k \div (NU * NU)) + 1] a == U(((k \div NU) % NU) + 1) b == U((k % NU) + 1) IN
                         [kind |-> "bin", op |-> op, args |-> <<a, b>>, out |-> Apply2(op, a, b)]
    [] Family = "un" -> LET op == PrefixOps[(k \div NU) + 1] a == U((k % NU) + 1) IN [kind |-> "un", op |-> op, args |-> <<a>>, out |-> Apply1(op, a)]
    [] Family = "post" -> LET op == PostfixOps[(k \div NU) + 1] a == U((k % NU) + 1) IN [kind |-> "post", op |-> op, args |-> <<a>>, out |-> ApplyPost(op, a)]
    [] Family = "fn" -> LET per == 1 + NU + NU * NU + NU  f == Fns[(k \div per) + 1]  r == k % per
                            args == IF r = 0 THEN <<>>
                                    ELSE IF r <= NU THEN <<U(r)>>
                                    ELSE IF r <= NU + NU * NU THEN <<U(((r - NU - 1) \div NU) + 1), U(((r - NU - 1) % NU) + 1)>>
                                    ELSE <<U(r - NU - NU * NU), U(1), U(r - NU - NU * NU)>> IN
                        [kind |-> "fn", op |-> f, args |-> args, out |-> ApplyFn(f, args)]
    [] Family = "smalldec" -> LET n == NSmallDec op == ArithOps[(k \div (n * n)) + 1] a == SmallDec(((k \div n) % n) + 1) b == SmallDec((k % n) + 1) IN
                        [kind |-> "bin", op |-> op, args |-> <<a, b>>, out |-> Apply2(op, a, b)]
VARIABLES i, emitted
Init == i \in 1..NCases /\ emitted = FALSE
Next == /\ ~emitted /\ emitted' = TRUE /\ i' = i
        /\ PrintT(ToJson(Case(i)))
Spec == Init /\ [][Next]_<<i, emitted>>
WellFormed(o) == o[1] \in {"ok", "err", "any", "div", "dc"}
Total == WellFormed(Case(i).out)
====
