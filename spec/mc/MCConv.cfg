SPECIFICATION Spec
CHECK_DEADLOCK FALSE
INVARIANT Total
