---- MODULE Grammar ----
(***************************************************************************)
(* Reference layer for parsing (C02, C05, C08, C11, C12): the documented   *)
(* grammar as a *stratified* recursive-descent recogniser - one            *)
(* non-terminal per precedence level of the operator table, LEFT levels    *)
(* fold left, RIGHT levels recurse right - with no binding powers and no   *)
(* loop/recursion interplay.  It is deliberately a different formulation   *)
(* from the engine's Pratt loop (module Pratt), which is checked against   *)
(* it.                                                                     *)
(*                                                                         *)
(* Tokens are <<kind, text>> with kind in num str bool ref fun op delim    *)
(* comma semi; ASTs are tag-first tuples:                                  *)
(*   <<"num",t>> <<"str",t>> <<"bool",t>> <<"ref",t>> <<"call",f,args>>    *)
(*   <<"un",op,e>> <<"bin",op,l,r>> <<"post",e,op>> <<"tern",c,a,b>>        *)
(*   <<"list",es>> <<"map",<<k,v>>s>> <<"stmt",es>> <<"none">>              *)
(*                                                                         *)
(* Verdict(ts, T) is three-valued plus one:                                *)
(*   MustAccept(t)  a sentence of the documented grammar; engine: Ok(t)    *)
(*   MayAccept(t)   a sentence only under latitude the properties leave    *)
(*                  (`;` omitted / trailing, trailing comma in list or     *)
(*                  map, an operator token that is not a registered prefix *)
(*                  operator in prefix position, more than TokenFloor      *)
(*                  tokens): engine may return Err, but if Ok then Ok(t)   *)
(*   Unspecified    accepted or not, any tree (a CHAIN that mixes left- and    *)
(*                  right-associative operators of one level, a second      *)
(*                  postfix after a prefixed operand)                       *)
(*   MustReject     everything else                                        *)
(***************************************************************************)
EXTENDS Integers, Sequences, FiniteSets, TLC, OpTable

TokenFloor == 200   \* inputs of at most this many tokens may not be refused for their nesting depth

EOFTOK == <<"eof", "">>
At(ts, p) == IF p <= Len(ts) THEN ts[p] ELSE EOFTOK
IsOp(tok) == tok[1] = "op"
IsOpText(tok, s) == tok[1] = "op" /\ tok[2] = s
IsDelimText(tok, s) == tok[1] = "delim" /\ tok[2] = s
IsInfixTok(T, tok) == tok[1] = "op" /\ IsInfix(T, tok[2])
IsPostfixTok(T, tok) == tok[1] = "op" /\ IsPostfix(T, tok[2])

\* parse results: ok, tree, next position, lenient-reading flag, unspecified flag
Fail == [ok |-> FALSE, t |-> <<>>, p |-> 0, len |-> FALSE, un |-> FALSE]
Ok(t, p, len, un) == [ok |-> TRUE, t |-> t, p |-> p, len |-> len, un |-> un]
NoFlags == [len |-> FALSE, un |-> FALSE]

NLevels(T) == Len(Levels(T))
LevelPrec(T, k) == Levels(T)[k]
LevelIsLeft(T, k) == LevelAssocs(T, LevelPrec(T, k)) = {"L"}
LevelIsRight(T, k) == LevelAssocs(T, LevelPrec(T, k)) = {"R"}

\* operator occurrence at p belonging to level k: <<negated, op, width in tokens>> or <<>>
OpAt(T, ts, p, k) ==
  LET a == At(ts, p) b == At(ts, p + 1) IN
  IF IsInfixTok(T, a) /\ ~(a[2] = "not" /\ IsInfixTok(T, b)) /\ Prec(T, a[2]) = LevelPrec(T, k) THEN <<FALSE, a[2], 1>>
  ELSE IF IsOpText(a, "not") /\ IsInfixTok(T, b) /\ Prec(T, b[2]) = LevelPrec(T, k) THEN <<TRUE, b[2], 2>>
  ELSE <<>>
MkBin(o, l, r) == IF o[1] THEN <<"un", "not", <<"bin", o[2], l, r>>>> ELSE <<"bin", o[2], l, r>>

RECURSIVE RExpr(_,_,_), RLevel(_,_,_,_), RLoopL(_,_,_,_,_), RCollect(_,_,_,_,_,_), FoldLeft(_,_,_,_), FoldRight(_,_,_), RMixed(_,_,_,_), RPrefixed(_,_,_), RAtom(_,_,_),
          RItems(_,_,_,_,_,_), RPairs(_,_,_,_,_), RArgs(_,_,_,_,_,_)

\* expression := level-1 [ "?" expression ":" expression ]
RExpr(T, ts, p) ==
  LET c == RLevel(T, ts, p, 1) IN
  IF ~c.ok THEN c
  ELSE IF IsOpText(At(ts, c.p), "?") THEN
    LET a == RExpr(T, ts, c.p + 1) IN
    IF ~a.ok \/ ~IsOpText(At(ts, a.p), ":") THEN Fail
    ELSE LET b == RExpr(T, ts, a.p + 1) IN
         IF ~b.ok THEN Fail
         ELSE Ok(<<"tern", c.t, a.t, b.t>>, b.p, c.len \/ a.len \/ b.len, c.un \/ a.un \/ b.un)
  ELSE c

\* level-k := level-(k+1) { op_k level-(k+1) }        (LEFT: fold left)
\*          | level-(k+1) [ op_k level-k ]            (RIGHT: recurse right)
RLevel(T, ts, p, k) ==
  IF k > NLevels(T) THEN RPrefixed(T, ts, p)
  ELSE LET first == RLevel(T, ts, p, k + 1) IN
    IF ~first.ok THEN first
    ELSE IF LevelIsRight(T, k) THEN
      LET o == OpAt(T, ts, first.p, k) IN
      IF o = <<>> THEN first
      ELSE LET r == RLevel(T, ts, first.p + o[3], k) IN
           IF ~r.ok THEN Fail
           ELSE Ok(MkBin(o, first.t, r.t), r.p, first.len \/ r.len, first.un \/ r.un)
    ELSE IF LevelIsLeft(T, k) THEN RLoopL(T, ts, first, k, 0)
    ELSE RMixed(T, ts, first, k)
\* n = operators already folded on this level; a level with both associativities is unspecified once it chains
RLoopL(T, ts, acc, k, n) ==
  LET o == OpAt(T, ts, acc.p, k) IN
  IF o = <<>> THEN acc
  ELSE LET r == RLevel(T, ts, acc.p + o[3], k + 1) IN
       IF ~r.ok THEN Fail
       ELSE RLoopL(T, ts, Ok(MkBin(o, acc.t, r.t), r.p, acc.len \/ r.len,
                             acc.un \/ r.un \/ (n >= 1 /\ ~LevelIsLeft(T, k))), k, n + 1)

\* a level that holds operators of both associativities: what is pinned down is the chain at hand - when every operator occurring in
\* it is left-associative it folds left, when every one is right-associative it folds right (an operator's associativity is its own,
\* whatever else shares its precedence); only a chain that really mixes the two is unspecified
RCollect(T, ts, p, k, ops, es) ==
  LET o == OpAt(T, ts, p, k) IN
  IF o = <<>> THEN [ok |-> TRUE, ops |-> ops, es |-> es, p |-> p]
  ELSE LET r == RLevel(T, ts, p + o[3], k + 1) IN
       IF ~r.ok THEN [ok |-> FALSE, ops |-> ops, es |-> es, p |-> p]
       ELSE RCollect(T, ts, r.p, k, Append(ops, o), Append(es, r))
FoldLeft(ops, es, i, acc) == IF i > Len(ops) THEN acc ELSE FoldLeft(ops, es, i + 1, MkBin(ops[i], acc, es[i + 1].t))
FoldRight(ops, es, i) == IF i > Len(ops) THEN es[i].t ELSE MkBin(ops[i], es[i].t, FoldRight(ops, es, i + 1))
RMixed(T, ts, first, k) ==
  LET c == RCollect(T, ts, first.p, k, <<>>, <<first>>) IN
  IF ~c.ok THEN Fail
  ELSE LET as == {Assoc(T, c.ops[i][2]) : i \in 1..Len(c.ops)}
           len == \E i \in 1..Len(c.es) : c.es[i].len
           un == (\E i \in 1..Len(c.es) : c.es[i].un) \/ (Len(c.ops) >= 2 /\ Cardinality(as) = 2) IN
       Ok(IF as = {"R"} THEN FoldRight(c.ops, c.es, 1) ELSE FoldLeft(c.ops, c.es, 1, first.t), c.p, len, un)

\* prefixed := op prefixed | atom [ postfix ]   -- prefix binds tighter than every level, postfix tighter than prefix
RPrefixed(T, ts, p) ==
  IF IsOp(At(ts, p)) THEN
    LET op == At(ts, p)[2]
        e == RPrefixed(T, ts, p + 1) IN
    IF ~e.ok THEN Fail
    ELSE IF IsPostfixTok(T, At(ts, e.p))
         \* a second postfix after a prefixed operand: unspecified
         THEN Ok(<<"post", <<"un", op, e.t>>, At(ts, e.p)[2]>>, e.p + 1, e.len, TRUE)
         ELSE Ok(<<"un", op, e.t>>, e.p, e.len \/ ~IsPrefix(T, op), e.un)
  ELSE LET a == RAtom(T, ts, p) IN
    IF ~a.ok THEN a
    ELSE IF IsPostfixTok(T, At(ts, a.p)) THEN Ok(<<"post", a.t, At(ts, a.p)[2]>>, a.p + 1, a.len, a.un) ELSE a

RAtom(T, ts, p) ==
  LET c == At(ts, p) IN
  IF c[1] \in {"num", "str", "bool", "ref"} THEN Ok(c, p + 1, FALSE, FALSE)
  ELSE IF c[1] = "fun" THEN
    IF ~IsDelimText(At(ts, p + 1), "(") THEN Fail
    ELSE IF IsDelimText(At(ts, p + 2), ")") THEN Ok(<<"call", c[2], <<>>>>, p + 3, FALSE, FALSE)
    ELSE RArgs(T, ts, p + 2, c[2], <<>>, NoFlags)
  ELSE IF IsDelimText(c, "(") THEN
    LET e == RExpr(T, ts, p + 1) IN
    IF ~e.ok \/ ~IsDelimText(At(ts, e.p), ")") THEN Fail ELSE Ok(e.t, e.p + 1, e.len, e.un)
  ELSE IF IsDelimText(c, "[") THEN RItems(T, ts, p + 1, <<>>, FALSE, NoFlags)
  ELSE IF IsDelimText(c, "{") THEN RPairs(T, ts, p + 1, <<>>, NoFlags)
  ELSE Fail
\* list items; `after` = a comma was just consumed (so a closing bracket now means a trailing comma)
RItems(T, ts, p, acc, after, fl) ==
  IF IsDelimText(At(ts, p), "]") THEN Ok(<<"list", acc>>, p + 1, fl.len \/ after, fl.un)
  ELSE LET e == RExpr(T, ts, p) IN
    IF ~e.ok THEN Fail
    ELSE LET f2 == [len |-> fl.len \/ e.len, un |-> fl.un \/ e.un] IN
      IF At(ts, e.p)[1] = "comma" THEN RItems(T, ts, e.p + 1, Append(acc, e.t), TRUE, f2)
      ELSE IF IsDelimText(At(ts, e.p), "]") THEN Ok(<<"list", Append(acc, e.t)>>, e.p + 1, f2.len, f2.un)
      ELSE Fail
RPairs(T, ts, p, acc, fl) ==
  IF IsDelimText(At(ts, p), "}") THEN Ok(<<"map", acc>>, p + 1, fl.len \/ (acc # <<>>), fl.un)
  ELSE LET k == RExpr(T, ts, p) IN
    IF ~k.ok \/ ~IsOpText(At(ts, k.p), ":") THEN Fail
    ELSE LET v == RExpr(T, ts, k.p + 1) IN
      IF ~v.ok THEN Fail
      ELSE LET f2 == [len |-> fl.len \/ k.len \/ v.len, un |-> fl.un \/ k.un \/ v.un] IN
        IF At(ts, v.p)[1] = "comma" THEN RPairs(T, ts, v.p + 1, Append(acc, <<k.t, v.t>>), f2)
        ELSE IF IsDelimText(At(ts, v.p), "}") THEN Ok(<<"map", Append(acc, <<k.t, v.t>>)>>, v.p + 1, f2.len, f2.un)
        ELSE Fail
RArgs(T, ts, p, name, acc, fl) ==
  LET e == RExpr(T, ts, p) IN
  IF ~e.ok THEN Fail
  ELSE LET f2 == [len |-> fl.len \/ e.len, un |-> fl.un \/ e.un] IN
    IF IsDelimText(At(ts, e.p), ")") THEN Ok(<<"call", name, Append(acc, e.t)>>, e.p + 1, f2.len, f2.un)
    ELSE IF At(ts, e.p)[1] = "comma" THEN RArgs(T, ts, e.p + 1, name, Append(acc, e.t), f2)
    ELSE Fail

\* program := [ expression { ";" expression } ]   read leniently: `;` may be omitted, one may trail
RECURSIVE RStmts(_,_,_,_,_)
RStmts(T, ts, p, acc, fl) ==
  IF At(ts, p) = EOFTOK THEN
     Ok(IF Len(acc) = 1 THEN acc[1] ELSE <<"stmt", acc>>, p, fl.len, fl.un)
  ELSE LET e == RExpr(T, ts, p) IN
    IF ~e.ok THEN Fail
    ELSE LET f2 == [len |-> fl.len \/ e.len, un |-> fl.un \/ e.un] IN
      IF At(ts, e.p)[1] = "semi" THEN
         RStmts(T, ts, e.p + 1, Append(acc, e.t), [f2 EXCEPT !.len = f2.len \/ At(ts, e.p + 1) = EOFTOK])
      ELSE IF At(ts, e.p) = EOFTOK THEN RStmts(T, ts, e.p, Append(acc, e.t), f2)
      ELSE RStmts(T, ts, e.p, Append(acc, e.t), [f2 EXCEPT !.len = TRUE])

RefParse(ts, T) == RStmts(T, ts, 1, <<>>, NoFlags)
\* a token of kind "bad" stands for text the tokenizer cannot tokenize (unterminated string, malformed number): a lexical error
\* anywhere is a rejection, whatever surrounds it
Verdict(ts, T) ==
  LET r == RefParse(ts, T) IN
  IF \E i \in 1..Len(ts) : ts[i][1] = "bad" THEN <<"MustReject">>
  ELSE IF ~r.ok THEN <<"MustReject">>
  ELSE IF r.un THEN <<"Unspecified">>
  ELSE IF r.len \/ Len(ts) > TokenFloor THEN <<"MayAccept", r.t>>
  ELSE <<"MustAccept", r.t>>

\* what an implementation outcome (ok, tree) may be, given the verdict
Conforms(v, ok, tree) ==
  CASE v[1] = "MustAccept" -> ok /\ tree = v[2]
    [] v[1] = "MayAccept" -> ~ok \/ tree = v[2]
    [] v[1] = "Unspecified" -> TRUE
    [] v[1] = "MustReject" -> ~ok
====
