---- MODULE Chars ----
(***************************************************************************)
(* Characters are integer code points, so that a recorded input is exact   *)
(* and the byte width of a character (what the tokenizer's slicing is      *)
(* about) is a function of the character.  Ord maps printable ASCII        *)
(* one-character strings to their code; W turns a tuple of one-character   *)
(* strings into the corresponding code-point sequence, so the spec can     *)
(* write W(<<"<","<","=">>).                                               *)
(***************************************************************************)
EXTENDS Integers, Sequences, TLC
Ord == " " :> 32 @@ "!" :> 33 @@ "\"" :> 34 @@ "#" :> 35 @@ "$" :> 36 @@ "%" :> 37 @@ "&" :> 38 @@ "'" :>
      39 @@ "(" :> 40 @@ ")" :> 41 @@ "*" :> 42 @@ "+" :> 43 @@ "," :> 44 @@ "-" :> 45 @@ "." :> 46 @@ "/"
      :> 47 @@ "0" :> 48 @@ "1" :> 49 @@ "2" :> 50 @@ "3" :> 51 @@ "4" :> 52 @@ "5" :> 53 @@ "6" :> 54 @@
      "7" :> 55 @@ "8" :> 56 @@ "9" :> 57 @@ ":" :> 58 @@ ";" :> 59 @@ "<" :> 60 @@ "=" :> 61 @@ ">" :> 62
      @@ "?" :> 63 @@ "@" :> 64 @@ "A" :> 65 @@ "B" :> 66 @@ "C" :> 67 @@ "D" :> 68 @@ "E" :> 69 @@ "F" :>
      70 @@ "G" :> 71 @@ "H" :> 72 @@ "I" :> 73 @@ "J" :> 74 @@ "K" :> 75 @@ "L" :> 76 @@ "M" :> 77 @@ "N"
      :> 78 @@ "O" :> 79 @@ "P" :> 80 @@ "Q" :> 81 @@ "R" :> 82 @@ "S" :> 83 @@ "T" :> 84 @@ "U" :> 85 @@
      "V" :> 86 @@ "W" :> 87 @@ "X" :> 88 @@ "Y" :> 89 @@ "Z" :> 90 @@ "[" :> 91 @@ "\\" :> 92 @@ "]" :>
      93 @@ "^" :> 94 @@ "_" :> 95 @@ "`" :> 96 @@ "a" :> 97 @@ "b" :> 98 @@ "c" :> 99 @@ "d" :> 100 @@
      "e" :> 101 @@ "f" :> 102 @@ "g" :> 103 @@ "h" :> 104 @@ "i" :> 105 @@ "j" :> 106 @@ "k" :> 107 @@
      "l" :> 108 @@ "m" :> 109 @@ "n" :> 110 @@ "o" :> 111 @@ "p" :> 112 @@ "q" :> 113 @@ "r" :> 114 @@
      "s" :> 115 @@ "t" :> 116 @@ "u" :> 117 @@ "v" :> 118 @@ "w" :> 119 @@ "x" :> 120 @@ "y" :> 121 @@
      "z" :> 122 @@ "{" :> 123 @@ "|" :> 124 @@ "}" :> 125 @@ "~" :> 126
W(t) == [k \in 1..Len(t) |-> Ord[t[k]]]
Width(c) == IF c < 128 THEN 1 ELSE IF c < 2048 THEN 2 ELSE IF c < 65536 THEN 3 ELSE 4
TAB == 9
LF == 10
CR == 13
WsSet == {32, TAB, CR, LF}
DelimSet == {Ord["("], Ord[")"], Ord["["], Ord["]"], Ord["{"], Ord["}"]}
SpecialSet == {Ord[c] : c \in {"+", "-", "*", "/", "^", "%", "&", "!", "=", "?", ":", ">", "<", "|"}}
DigitSet == 48..57
NumCharSet == DigitSet \cup {Ord["."], Ord["-"], Ord["e"], Ord["E"], Ord["+"]}
QuoteSet == {Ord["\""], Ord["'"]}
ParamSet == DigitSet \cup (97..122) \cup (65..90) \cup {Ord["."], Ord["_"]}
IsWs(c) == c \in WsSet
IsDelim(c) == c \in DelimSet
IsSpecial(c) == c \in SpecialSet
IsDigit(c) == c \in DigitSet
IsNumChar(c) == c \in NumCharSet
IsQuote(c) == c \in QuoteSet
IsParam(c) == c \in ParamSet
COMMA == Ord[","]
SEMI == Ord[";"]
LPAREN == Ord["("]
DOT == Ord["."]
\* byte offset of the end of the k-th character of s
RECURSIVE OffAcc(_, _, _)
OffAcc(s, k, acc) == IF k = 0 THEN acc ELSE OffAcc(s, k - 1, acc + Width(s[k]))
Off(s, k) == OffAcc(s, k, 0)
====
