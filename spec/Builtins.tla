---- MODULE Builtins ----
(***************************************************************************)
(* Reference layer for the built-in operators and functions (C03, C04,     *)
(* C06 compound assignment, C09): what each handler must return, as an     *)
(* outcome                                                                 *)
(*   <<"ok", v>>      this value (numbers compared numerically)            *)
(*   <<"err">>        an error (which one is not specified)                *)
(*   <<"any", outs>>  any one of these outcomes                            *)
(*   <<"div", a, b>>  a number within relative error 10^-26 (or absolute    *)
(*                    error 10^-28) of a / b (inexact quotient: rounding   *)
(*                    is rust_decimal's)                                   *)
(*   <<"dc">>         Ok or Err, any value (never a panic)                 *)
(* Every wrongly typed operand, zero divisor, overflow beyond 2^96, shift  *)
(* count outside 0..63, non-integral or out-of-i64 operand of a bit        *)
(* operator and empty min()/max() is <<"err">>.                            *)
(***************************************************************************)
EXTENDS Values
OkV(v) == <<"ok", v>>
ERR == <<"err">>
DC == <<"dc">>
AnyOf(outs) == <<"any", outs>>
NumResult(d) == LET c == Class(d) IN IF c = "exact" THEN OkV(VNum(DCanon(d))) ELSE IF c = "overflow" THEN ERR ELSE DC

\* ---- 64-bit two's-complement integers ---------------------------------------------------------
IntOf(v) == IF v[1] = "num" /\ InI64(VDec(v)) THEN <<TRUE, DCanon(VDec(v))>> ELSE <<FALSE>>
U64Of(d) == IF d.neg THEN BSub(TWO64, d.mag) ELSE d.mag
OfU64(u) == IF BLt(u, TWO63) THEN D(FALSE, u, 0) ELSE D(TRUE, BSub(TWO64, u), 0)
RECURSIVE BitsAcc(_, _, _)
BitsAcc(u, k, acc) == IF k = 0 THEN acc ELSE LET qr == BDivSmall(u, 2) IN BitsAcc(qr[1], k - 1, Append(acc, qr[2]))
Bits64(u) == BitsAcc(u, 64, <<>>)          \* least significant bit first
RECURSIVE FromBitsAcc(_, _, _)
FromBitsAcc(bs, i, acc) == IF i = 0 THEN acc ELSE FromBitsAcc(bs, i - 1, BAdd(BMulSmall(acc, 2), IF bs[i] = 1 THEN <<1>> ELSE <<>>))
FromBits64(bs) == FromBitsAcc(bs, 64, <<>>)
BitOp(op, x, y) ==
  LET a == Bits64(U64Of(x)) b == Bits64(U64Of(y))
      f(p, q) == CASE op = "&" -> IF p = 1 /\ q = 1 THEN 1 ELSE 0
                   [] op = "|" -> IF p = 1 \/ q = 1 THEN 1 ELSE 0
                   [] op = "^" -> IF p # q THEN 1 ELSE 0
  IN OfU64(FromBits64([i \in 1..64 |-> f(a[i], b[i])]))
ShiftCountOk(y) == ~y.neg /\ BLt(y.mag, <<64>>)
Shl(x, y) ==
  IF ~ShiftCountOk(y) THEN ERR
  ELSE LET n == BToInt(y.mag)
           exact == D(x.neg, BMul(x.mag, BPow2(n)), 0)
           wrapped == OfU64(BDivMod(BMul(U64Of(x), BPow2(n)), TWO64)[2])
       IN IF InI64(exact) THEN OkV(VNum(exact)) ELSE AnyOf(<<OkV(VNum(wrapped)), ERR>>)   \* bits shifted out: wrap or error
Shr(x, y) ==
  IF ~ShiftCountOk(y) THEN ERR
  ELSE LET n == BToInt(y.mag) p == BPow2(n) IN
       IF ~x.neg THEN OkV(VNum(D(FALSE, BDivMod(x.mag, p)[1], 0)))
       ELSE OkV(VNum(D(TRUE, BDivMod(BAdd(x.mag, BSub(p, <<1>>)), p)[1], 0)))          \* arithmetic shift: floor
IntOp(op, a, b) ==
  LET x == IntOf(a) y == IntOf(b) IN
  IF ~x[1] \/ ~y[1] THEN ERR
  ELSE CASE op \in {"&", "|", "^"} -> OkV(VNum(BitOp(op, x[2], y[2])))
         [] op = "<<" -> Shl(x[2], y[2])
         [] op = ">>" -> Shr(x[2], y[2])

\* ---- decimal arithmetic ------------------------------------------------------------------------
AlignOverflows(x, y) == LET s == Max2(x.scale, y.scale) IN BLt(MAXMANT, Scaled(x, s)) \/ BLt(MAXMANT, Scaled(y, s))
Arith(op, x, y) ==
  CASE op = "+" -> NumResult(DAdd(x, y))
    [] op = "-" -> NumResult(DSub(x, y))
    [] op = "*" -> NumResult(DMul(x, y))
    [] op = "%" -> IF DIsZero(y) THEN ERR ELSE NumResult(DRem(x, y))
    [] op = "/" -> IF DIsZero(y) THEN ERR
                   ELSE LET t == DDivTry(x, y) IN
                        IF Overflows(t[2]) THEN ERR
                        ELSE IF t[1] THEN NumResult(t[2])
                        ELSE IF BLt(BTimesPow10(MAXMANT, DivK - 1), t[2].mag) THEN DC    \* within a factor 10 of the range edge: rounding may overflow
                        ELSE <<"div", VNum(x), VNum(y)>>
DecOp(op, a, b) == IF a[1] = "num" /\ b[1] = "num" THEN Arith(op, VDec(a), VDec(b)) ELSE ERR
CmpOp(op, a, b) ==
  IF a[1] # "num" \/ b[1] # "num" THEN ERR
  ELSE LET c == DCmp(VDec(a), VDec(b)) IN
       OkV(VBool(CASE op = "<" -> c < 0 [] op = "<=" -> c <= 0 [] op = ">" -> c > 0 [] op = ">=" -> c >= 0))
IsPrefixSeq(p, s) == Len(p) <= Len(s) /\ SubSeq(s, 1, Len(p)) = p
IsSuffixSeq(p, s) == Len(p) <= Len(s) /\ SubSeq(s, Len(s) - Len(p) + 1, Len(s)) = p

BaseOf(op) == CASE op = "+=" -> "+" [] op = "-=" -> "-" [] op = "*=" -> "*" [] op = "/=" -> "/" [] op = "%=" -> "%"
                [] op = "<<=" -> "<<" [] op = ">>=" -> ">>" [] op = "&=" -> "&" [] op = "^=" -> "^" [] op = "|=" -> "|"
CompoundOps == {"+=", "-=", "*=", "/=", "%=", "<<=", ">>=", "&=", "^=", "|="}

\* the handler of a built-in infix operator applied to two values (for a SETTER: old value of the target, right side)
RECURSIVE Apply2(_, _, _)
Apply2(op, a, b) ==
  CASE op = "=" -> OkV(b)
    [] op \in CompoundOps -> Apply2(BaseOf(op), a, b)
    [] op \in {"+", "-", "*", "/", "%"} -> DecOp(op, a, b)
    [] op \in {"<", "<=", ">", ">="} -> CmpOp(op, a, b)
    [] op = "==" -> OkV(VBool(VEq(a, b)))
    [] op = "!=" -> OkV(VBool(~VEq(a, b)))
    [] op \in {"&&", "||"} -> IF a[1] = "bool" /\ b[1] = "bool" THEN OkV(VBool(IF op = "&&" THEN a[2] /\ b[2] ELSE a[2] \/ b[2])) ELSE ERR
    [] op \in {"&", "|", "^", "<<", ">>"} -> IntOp(op, a, b)
    [] op = "beginWith" -> IF a[1] = "str" /\ b[1] = "str" THEN OkV(VBool(IsPrefixSeq(b[2], a[2]))) ELSE ERR
    [] op = "endWith" -> IF a[1] = "str" /\ b[1] = "str" THEN OkV(VBool(IsSuffixSeq(b[2], a[2]))) ELSE ERR
    [] op = "in" -> IF b[1] = "list" THEN OkV(VBool(\E i \in 1..Len(b[2]) : VEq(b[2][i], a))) ELSE ERR
    [] OTHER -> ERR

\* AND / OR over a list of booleans, left to right; an ill-typed element before the deciding one is an error,
\* after it the outcome is the decided value or an error
RECURSIVE Scan(_, _, _)
Scan(vs, i, decisive) ==       \* decisive: the element value that decides (FALSE for AND, TRUE for OR)
  IF i > Len(vs) THEN OkV(VBool(~decisive))
  ELSE IF vs[i][1] # "bool" THEN ERR
  ELSE IF vs[i][2] = decisive THEN
       (IF \A j \in i + 1 .. Len(vs) : vs[j][1] = "bool" THEN OkV(VBool(decisive)) ELSE AnyOf(<<OkV(VBool(decisive)), ERR>>))
  ELSE Scan(vs, i + 1, decisive)
Apply1(op, a) ==
  CASE op = "-" -> IF a[1] = "num" THEN OkV(VNum(DNeg(VDec(a)))) ELSE ERR
    [] op = "+" -> IF a[1] = "num" THEN OkV(a) ELSE ERR
    [] op \in {"!", "not"} -> IF a[1] = "bool" THEN OkV(VBool(~a[2])) ELSE ERR
    [] op = "AND" -> IF a[1] = "list" THEN Scan(a[2], 1, FALSE) ELSE ERR
    [] op = "OR" -> IF a[1] = "list" THEN Scan(a[2], 1, TRUE) ELSE ERR
    [] OTHER -> ERR
ApplyPost(op, a) ==
  CASE op = "++" -> IF a[1] = "num" THEN NumResult(DAdd(VDec(a), DOne)) ELSE ERR
    [] op = "--" -> IF a[1] = "num" THEN NumResult(DSub(VDec(a), DOne)) ELSE ERR
    [] OTHER -> ERR

\* aggregates: fold left to right with the checked operation
RECURSIVE FoldNum(_, _, _, _)
FoldNum(op, vs, i, acc) ==
  IF i > Len(vs) THEN OkV(VNum(acc))
  ELSE LET d == IF op = "sum" THEN DAdd(acc, VDec(vs[i])) ELSE DMul(acc, VDec(vs[i]))
           c == Class(d) IN
       IF c = "overflow" THEN ERR ELSE IF c = "round" THEN DC ELSE FoldNum(op, vs, i + 1, d)
RECURSIVE Extreme(_, _, _, _)
Extreme(isMin, vs, i, best) ==
  IF i > Len(vs) THEN OkV(VNum(best))
  ELSE LET d == VDec(vs[i]) IN
       Extreme(isMin, vs, i + 1, IF (isMin /\ DLt(d, best)) \/ (~isMin /\ DLt(best, d)) THEN d ELSE best)
ApplyFn(name, vs) ==
  IF \E i \in 1..Len(vs) : vs[i][1] # "num" THEN (IF name \in {"min", "max", "sum", "mul"} THEN ERR ELSE ERR)
  ELSE CASE name = "min" -> IF vs = <<>> THEN ERR ELSE Extreme(TRUE, vs, 2, VDec(vs[1]))
         [] name = "max" -> IF vs = <<>> THEN ERR ELSE Extreme(FALSE, vs, 2, VDec(vs[1]))
         [] name = "sum" -> IF vs = <<>> THEN AnyOf(<<OkV(VInt(0)), ERR>>) ELSE FoldNum("sum", vs, 1, DZero)
         [] name = "mul" -> IF vs = <<>> THEN AnyOf(<<OkV(VInt(1)), ERR>>) ELSE FoldNum("mul", vs, 1, DOne)
         [] OTHER -> ERR

\* does an observed result (<<"ok", v>> or <<"err">>) satisfy an outcome?
\* relative error at most 10^-26 (|q*b - a| * 10^26 <= |a|) or, for quotients too small for that within 28 places,
\* absolute error at most 10^-28 (|q*b - a| * 10^28 <= |b|)
DivApproxOk(a, b, q) == LET diff == DAbs(DSub(DMul(q, b), a)) IN
                        \/ DCmp(DMul(diff, D(FALSE, BPow10(26), 0)), DAbs(a)) <= 0
                        \/ DCmp(DMul(diff, D(FALSE, BPow10(28), 0)), DAbs(b)) <= 0
RECURSIVE Allowed(_, _)
Allowed(o, actual) ==
  CASE o[1] = "ok" -> actual[1] = "ok" /\ VEq(o[2], actual[2])
    [] o[1] = "err" -> actual[1] = "err"
    [] o[1] = "any" -> \E i \in 1..Len(o[2]) : Allowed(o[2][i], actual)
    [] o[1] = "div" -> actual[1] = "ok" /\ actual[2][1] = "num" /\ DivApproxOk(VDec(o[2]), VDec(o[3]), VDec(actual[2]))
    [] o[1] = "dc" -> TRUE
====
