---- MODULE Engine ----
(***************************************************************************)
(* The engine as a concurrent system (C13, C08, C14, C16): threads calling *)
(* the public API against the four process-global registries and the lazy  *)
(* one-time initialisation.                                                *)
(*                                                                         *)
(* Machine layer - the critical sections the code really has:              *)
(*   - every public entry point first runs init(): a once-cell whose       *)
(*     closure registers the built-ins in four stages (prefix, infix,      *)
(*     postfix, function); a thread arriving while another one is inside   *)
(*     blocks until the cell is complete                                   *)
(*   - every registry access (register / get / exist) is its own critical  *)
(*     section on that registry's mutex: Acquire and Release are separate  *)
(*     steps, so that a lock held across anything is visible               *)
(*   - an evaluation is a *plan*: a sequence of registry lookups and       *)
(*     handler invocations; a handler runs with no lock held and may       *)
(*     itself call the API (a nested frame on the same thread)             *)
(* Reference layer - SeqEngine: the same API with every call atomic.       *)
(*                                                                         *)
(* Switches for negative controls / known deviations:                      *)
(*   FlagBeforeFill     the once-flag is set before the tables are filled  *)
(*   EntryWithoutInit   an entry point that forgets init()                 *)
(*   HandlerUnderLock   a registry lock is kept while the handler runs     *)
(***************************************************************************)
EXTENDS Integers, Sequences, FiniteSets, TLC
CONSTANTS Threads,        \* thread identifiers
          Progs,          \* Progs[t]: the sequence of API calls thread t makes
          Names,          \* registry keys in play
          Scripts,        \* Scripts[h]: <<>> or the API call handler h makes when invoked (re-entrancy)
          FlagBeforeFill, EntryWithoutInit, HandlerUnderLock

Regs == {"prefix", "infix", "postfix", "func"}
StageReg == <<"prefix", "infix", "postfix", "func">>
Builtin == [prefix |-> {"neg"}, infix |-> {"plus"}, postfix |-> {"inc"}, func |-> {"min"}]
\* calls:  [op |-> "reg", r, name, val]        register_*: val is the new handler's identity
\*         [op |-> "exec", plan]               plan: << <<"look", r, name>> | <<"call", k>> , ... >> ;
\*                                             <<"call", k>> invokes the handler the k-th lookup of this plan returned
VARIABLES once, owner, stage,     \* the once-cell: "uninit" | "running" | "done"; who runs the closure; stages completed
          reg,                    \* reg[r][name]: handler identity or "none"
          lock,                   \* lock[r]: "free" or the thread holding that registry's mutex
          frames,                 \* frames[t]: stack (head = innermost) of [call, pc, li, seen, inv]
          hist, clock             \* completed top-level calls with invocation / response times
vars == <<once, owner, stage, reg, lock, frames, hist, clock>>
VARIABLE next                     \* next[t]: index of thread t's next top-level call
allvars == <<vars, next>>

Init == /\ once = "uninit" /\ owner = "none" /\ stage = 0
        /\ reg = [r \in Regs |-> [n \in Names |-> "none"]]
        /\ lock = [r \in Regs |-> "free"]
        /\ frames = [t \in Threads |-> <<>>] /\ hist = <<>> /\ clock = 0
        /\ next = [t \in Threads |-> 1]
Top(t) == frames[t][1]
SetTop(t, f) == frames' = [frames EXCEPT ![t] = <<f>> \o Tail(frames[t])]
Held(t) == {r \in Regs : lock[r] = t}
NewFrame(c, now) == [call |-> c, pc |-> IF EntryWithoutInit /\ c.op = "exec" THEN "run" ELSE "init", li |-> 1, seen |-> <<>>, inv |-> now, want |-> "none"]

\* a thread starts its next top-level call
Begin(t) == /\ frames[t] = <<>> /\ next[t] <= Len(Progs[t])
            /\ frames' = [frames EXCEPT ![t] = <<NewFrame(Progs[t][next[t]], clock + 1)>>]
            /\ clock' = clock + 1
            /\ UNCHANGED <<once, owner, stage, reg, lock, hist, next>>
\* ---- init(): the once-cell ---------------------------------------------------------------------
InitEnter(t) == /\ frames[t] # <<>> /\ Top(t).pc = "init" /\ once = "uninit"
                /\ once' = IF FlagBeforeFill THEN "done" ELSE "running"
                /\ owner' = t /\ stage' = 0 /\ SetTop(t, [Top(t) EXCEPT !.pc = "initing"])
                /\ UNCHANGED <<reg, lock, hist, clock, next>>
\* one built-in registration stage: that manager's init(), under that registry's mutex
InitStage(t) == /\ frames[t] # <<>> /\ Top(t).pc = "initing" /\ stage < 4
                /\ LET r == StageReg[stage + 1] IN
                   /\ lock[r] = "free"
                   /\ reg' = [reg EXCEPT ![r] = [n \in Names |-> IF n \in Builtin[r] THEN "b" ELSE @[n]]]
                /\ stage' = stage + 1
                /\ UNCHANGED <<once, owner, lock, frames, hist, clock, next>>
InitDone(t) == /\ frames[t] # <<>> /\ Top(t).pc = "initing" /\ stage = 4
               /\ once' = "done" /\ SetTop(t, [Top(t) EXCEPT !.pc = "run"])
               /\ UNCHANGED <<owner, stage, reg, lock, hist, clock, next>>
\* get_or_init on a complete cell returns at once; on a running cell the thread blocks (this action is not enabled)
InitPass(t) == /\ frames[t] # <<>> /\ Top(t).pc = "init" /\ once = "done"
               /\ SetTop(t, [Top(t) EXCEPT !.pc = "run"])
               /\ UNCHANGED <<once, owner, stage, reg, lock, hist, clock, next>>
\* ---- registry critical sections ------------------------------------------------------------------
Step(t) == LET f == Top(t) IN IF f.call.op = "exec" /\ f.li <= Len(f.call.plan) THEN f.call.plan[f.li] ELSE <<"end">>
\* take the registry mutex (blocks while another thread - or, for a non-re-entrant mutex, this one - holds it)
Acquire(t) ==
  /\ frames[t] # <<>> /\ Top(t).pc = "run" /\ Top(t).want = "none"
  /\ \/ (Top(t).call.op = "reg" /\ lock[Top(t).call.r] = "free" /\ lock' = [lock EXCEPT ![Top(t).call.r] = t])
     \/ (Top(t).call.op = "exec" /\ Step(t)[1] = "look" /\ lock[Step(t)[2]] = "free" /\ lock' = [lock EXCEPT ![Step(t)[2]] = t])
  /\ SetTop(t, [Top(t) EXCEPT !.want = "held"])
  /\ UNCHANGED <<once, owner, stage, reg, hist, clock, next>>
\* the body of the critical section and the release of the mutex
Release(t) ==
  /\ frames[t] # <<>> /\ Top(t).pc = "run" /\ Top(t).want = "held"
  /\ LET f == Top(t) IN
     IF f.call.op = "reg"
     THEN /\ reg' = [reg EXCEPT ![f.call.r][f.call.name] = f.call.val]
          /\ lock' = [lock EXCEPT ![f.call.r] = "free"]
          /\ SetTop(t, [f EXCEPT !.want = "none", !.pc = "ret"])
     ELSE LET q == Step(t)
              keep == HandlerUnderLock /\ f.li < Len(f.call.plan) /\ f.call.plan[f.li + 1][1] = "call" IN
          /\ reg' = reg
          /\ lock' = IF keep THEN lock ELSE [lock EXCEPT ![q[2]] = "free"]
          /\ SetTop(t, [f EXCEPT !.want = "none", !.li = @ + 1, !.seen = Append(@, reg[q[2]][q[3]])])
  /\ UNCHANGED <<once, owner, stage, hist, clock, next>>
\* ---- handlers ------------------------------------------------------------------------------------
\* invoke the handler a previous lookup returned; a scripted handler makes a nested API call on this thread
HandlerRun(t) ==
  /\ frames[t] # <<>> /\ Top(t).pc = "run" /\ Top(t).want = "none" /\ Top(t).call.op = "exec" /\ Step(t)[1] = "call"
  /\ LET f == Top(t) h == f.seen[Step(t)[2]] IN
     IF h \in DOMAIN Scripts /\ Scripts[h] # <<>>
     THEN frames' = [frames EXCEPT ![t] = <<NewFrame(Scripts[h], clock)>> \o <<[f EXCEPT !.li = @ + 1]>> \o Tail(frames[t])]
     ELSE SetTop(t, [f EXCEPT !.li = @ + 1])
  /\ lock' = IF HandlerUnderLock THEN [r \in Regs |-> IF lock[r] = t /\ Len(frames[t]) = 1 THEN "free" ELSE lock[r]] ELSE lock
  /\ UNCHANGED <<once, owner, stage, reg, hist, clock, next>>
ExecDone(t) == /\ frames[t] # <<>> /\ Top(t).pc = "run" /\ Top(t).want = "none" /\ Top(t).call.op = "exec" /\ Step(t)[1] = "end"
               /\ SetTop(t, [Top(t) EXCEPT !.pc = "ret"])
               /\ UNCHANGED <<once, owner, stage, reg, lock, hist, clock, next>>
\* the call returns: a nested frame just pops; a top-level call is recorded in the history
Return(t) ==
  /\ frames[t] # <<>> /\ Top(t).pc = "ret"
  /\ IF Len(frames[t]) > 1
     THEN frames' = [frames EXCEPT ![t] = Tail(frames[t])] /\ UNCHANGED <<hist, clock, next>>
     ELSE /\ hist' = Append(hist, [t |-> t, call |-> Top(t).call, res |-> Top(t).seen, inv |-> Top(t).inv, ret |-> clock + 1])
          /\ clock' = clock + 1 /\ next' = [next EXCEPT ![t] = @ + 1] /\ frames' = [frames EXCEPT ![t] = <<>>]
  /\ UNCHANGED <<once, owner, stage, reg, lock>>
AllDone == \A t \in Threads : frames[t] = <<>> /\ next[t] > Len(Progs[t])
Terminated == AllDone /\ UNCHANGED allvars
Next == (\E t \in Threads : Begin(t) \/ InitEnter(t) \/ InitStage(t) \/ InitDone(t) \/ InitPass(t) \/ Acquire(t) \/ Release(t)
                             \/ HandlerRun(t) \/ ExecDone(t) \/ Return(t)) \/ Terminated
Spec == Init /\ [][Next]_allvars
FairSpec == Spec /\ \A t \in Threads : WF_allvars(Begin(t) \/ InitEnter(t) \/ InitStage(t) \/ InitDone(t) \/ InitPass(t) \/ Acquire(t) \/ Release(t)
                                                  \/ HandlerRun(t) \/ ExecDone(t) \/ Return(t))

\* ---- properties --------------------------------------------------------------------------------
TypeOK == once \in {"uninit", "running", "done"} /\ stage \in 0..4 /\ \A r \in Regs : lock[r] \in Threads \cup {"free"}
\* no thread other than the initialiser touches a registry before the built-in tables are complete
NoPartialInit == \A t \in Threads : (frames[t] # <<>> /\ Top(t).pc \in {"run", "ret"} /\ Top(t).call.op # "none") => (stage = 4 /\ once = "done")
BuiltinsComplete == once = "done" => (stage = 4 => \A r \in Regs : \A n \in Builtin[r] : reg[r][n] # "none")
OneLockAtATime == \A t \in Threads : Cardinality(Held(t)) <= 1
\* a registry mutex is only ever held for the critical section its thread is in right now: never across a handler
\* invocation (whose nested API call would then block on it), never between two steps of an evaluation
NoLockInHandler == \A t \in Threads : Held(t) # {} => (frames[t] # <<>> /\ Top(t).want = "held")
\* sequential reference: every call atomic, engine initialised before the first call
BuiltinRegs == [r \in Regs |-> [n \in Names |-> IF n \in Builtin[r] THEN "b" ELSE "none"]]
\* an evaluation applied atomically: lookups read the registry as it is, a scripted handler's own API call is applied in place
RECURSIVE SeqRun(_, _), SeqPlan(_, _, _, _)
SeqRun(st, c) == IF c.op = "reg" THEN [st |-> [st EXCEPT ![c.r][c.name] = c.val], res |-> <<>>] ELSE SeqPlan(st, c.plan, 1, <<>>)
SeqPlan(st, plan, i, seen) ==
  IF i > Len(plan) THEN [st |-> st, res |-> seen]
  ELSE IF plan[i][1] = "look" THEN SeqPlan(st, plan, i + 1, Append(seen, st[plan[i][2]][plan[i][3]]))
  ELSE LET h == seen[plan[i][2]] IN
       IF h \in DOMAIN Scripts /\ Scripts[h] # <<>> THEN SeqPlan(SeqRun(st, Scripts[h]).st, plan, i + 1, seen) ELSE SeqPlan(st, plan, i + 1, seen)
SeqApply(st, c) == SeqRun(st, c)
RECURSIVE Explains(_, _)
\* is there an order of the remaining history records, consistent with real time, that the sequential engine reproduces?
Explains(st, rest) ==
  IF rest = {} THEN TRUE
  ELSE \E h \in rest :
        /\ \A g \in rest : ~(g.ret < h.inv)
        /\ LET a == SeqApply(st, h.call) IN a.res = h.res /\ Explains(a.st, rest \ {h})
Linearizable == AllDone => Explains(BuiltinRegs, {hist[i] : i \in 1..Len(hist)})
\* finding F1: an evaluation that consults a registry more than once is not atomic with respect to an overlapping registration
Overlaps(a, b) == ~(a.ret < b.inv) /\ ~(b.ret < a.inv)
\* registry cells a call touches (through its scripted handlers too, as far as the recorded lookups tell), with read / write mode
RECURSIVE Touches(_, _)
Touches(c, seen) ==
  IF c.op = "reg" THEN {<<c.r, c.name, "w">>}
  ELSE {<<c.plan[k][2], c.plan[k][3], "r">> : k \in {k \in 1..Len(c.plan) : c.plan[k][1] = "look"}}
       \cup UNION {IF seen[c.plan[k][2]] \in DOMAIN Scripts /\ Scripts[seen[c.plan[k][2]]] # <<>> THEN Touches(Scripts[seen[c.plan[k][2]]], <<>>) ELSE {}
                   : k \in {k \in 1..Len(c.plan) : c.plan[k][1] = "call" /\ c.plan[k][2] <= Len(seen)}}
Sections(c, seen) == Cardinality(Touches(c, seen))
Conflict(a, b) == \E x \in a, y \in b : x[1] = y[1] /\ x[2] = y[2] /\ "w" \in {x[3], y[3]}
\* F1: a call made of several critical sections (an evaluation with more than one lookup, or whose handler calls back into the engine)
\* overlapped by another call that conflicts with it
F1Pattern == \E i, j \in 1..Len(hist) : /\ i # j /\ hist[i].call.op = "exec" /\ Overlaps(hist[i], hist[j])
                                        /\ Sections(hist[i].call, hist[i].res) >= 2
                                        /\ Conflict(Touches(hist[i].call, hist[i].res), Touches(hist[j].call, hist[j].res))
LinearizableOrF1 == AllDone => (Explains(BuiltinRegs, {hist[i] : i \in 1..Len(hist)}) \/ F1Pattern)
\* parsing and evaluating never change a registry (C16); only registrations and the built-in stages do
EvalReadsOnly == [][(reg' # reg) => \E t \in Threads : frames[t] # <<>> /\ (Top(t).call.op = "reg" \/ Top(t).pc = "initing")]_allvars
Terminates == <>AllDone
====
