---- MODULE Decimal ----
(***************************************************************************)
(* Reference layer for numbers (C09, C03, C04): exact decimal arithmetic   *)
(* on (sign, mantissa as BigNum, scale), and the classification of an      *)
(* exact result against the engine's 96-bit / 28-place decimal range:      *)
(*   "exact"    representable: the engine must return a number equal to it *)
(*   "overflow" |value| >= 2^96: the engine must return an error           *)
(*   "round"    in range but not representable (needs more than 28 places, *)
(*              or a mantissa above 2^96-1 with a fraction): rust_decimal  *)
(*              has latitude here - don't care                             *)
(***************************************************************************)
EXTENDS BigNum
MaxScale == 28
D(neg, mag, scale) == [neg |-> neg /\ ~BIsZero(mag), mag |-> BNorm(mag), scale |-> scale]
DZero == D(FALSE, <<>>, 0)
DOne == D(FALSE, <<1>>, 0)
DFromInt(n) == IF n < 0 THEN D(TRUE, BFromInt(-n), 0) ELSE D(FALSE, BFromInt(n), 0)
DIsZero(d) == BIsZero(d.mag)
\* canonical form: no trailing decimal zeros in the fraction
DCanon(d) == IF BIsZero(d.mag) THEN D(FALSE, <<>>, 0) ELSE LET s == BStripZeros(d.mag, d.scale, 0) IN D(d.neg, s[1], d.scale - s[2])
Scaled(d, s) == BTimesPow10(d.mag, s - d.scale)       \* mantissa at scale s >= d.scale
DCmpAbs(a, b) == LET s == Max2(a.scale, b.scale) IN BCmp(Scaled(a, s), Scaled(b, s))
DCmp(a, b) == IF DIsZero(a) /\ DIsZero(b) THEN 0
              ELSE IF a.neg /\ ~b.neg THEN -1 ELSE IF ~a.neg /\ b.neg THEN 1
              ELSE IF a.neg THEN -DCmpAbs(a, b) ELSE DCmpAbs(a, b)
DEq(a, b) == DCmp(a, b) = 0
DLt(a, b) == DCmp(a, b) < 0
DNeg(a) == D(~a.neg, a.mag, a.scale)
DAbs(a) == D(FALSE, a.mag, a.scale)
DAdd(a, b) ==
  LET s == Max2(a.scale, b.scale) ma == Scaled(a, s) mb == Scaled(b, s) IN
  IF a.neg = b.neg THEN D(a.neg, BAdd(ma, mb), s)
  ELSE IF BLe(mb, ma) THEN D(a.neg, BSub(ma, mb), s) ELSE D(b.neg, BSub(mb, ma), s)
DSub(a, b) == DAdd(a, DNeg(b))
DMul(a, b) == D(a.neg # b.neg, BMul(a.mag, b.mag), a.scale + b.scale)
\* truncated remainder, sign of the dividend (b # 0)
DRem(a, b) == LET s == Max2(a.scale, b.scale) IN D(a.neg, BDivMod(Scaled(a, s), Scaled(b, s))[2], s)
\* quotient a / b (b # 0): numerator and denominator are first brought to integers, then DivK extra places are computed;
\* <<exact?, q>> where q is the exact quotient if the division terminates within DivK places, else its truncation
DivK == 40
DDivTry(a, b) ==
  LET s == Max2(a.scale, b.scale)
      qr == BDivMod(BTimesPow10(Scaled(a, s), DivK), Scaled(b, s))
  IN <<BIsZero(qr[2]), D(a.neg # b.neg, qr[1], DivK)>>
DIsIntegral(a) == DCanon(a).scale = 0
DTrunc(a) == D(a.neg, BDivMod(a.mag, BPow10(a.scale))[1], 0)

Representable(d) == LET c == DCanon(d) IN c.scale <= MaxScale /\ BLe(c.mag, MAXMANT)
Overflows(d) == BLe(BTimesPow10(TWO96, d.scale), d.mag)            \* |d| >= 2^96
Class(d) == IF Representable(d) THEN "exact" ELSE IF Overflows(d) THEN "overflow" ELSE "round"

\* a decimal literal: digits [ "." digits ], given as the digit string without the point and the number of fraction digits
InI64(d) == LET c == DCanon(d) IN c.scale = 0 /\ (IF c.neg THEN BLe(c.mag, TWO63) ELSE BLt(c.mag, TWO63))
====
