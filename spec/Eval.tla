---- MODULE Eval ----
(***************************************************************************)
(* The tree-walking evaluator (ExprAST::exec, src/parser.rs:109-243 and    *)
(* src/context.rs), twice:                                                 *)
(*                                                                         *)
(*  Den      reference layer: a big-step denotation of a program in a      *)
(*           context, returning status, value, final context and the log   *)
(*           of observable handler invocations                             *)
(*  machine  small-step evaluator with an explicit work stack and value    *)
(*           stack, one action per evaluator branch in the code's order    *)
(*           (registry lookup before operands; assignment: type lookup,    *)
(*           target read, right side, name check, handler lookup, handler, *)
(*           store), the context lock as a state variable, and handler     *)
(*           invocations as separate steps taken with no lock held         *)
(*                                                                         *)
(* Programs: <<"lit",v>> <<"ref",x>> <<"call",f,args>> <<"un",op,e>>        *)
(*   <<"bin",op,l,r>> <<"post",e,op>> <<"tern",c,a,b>> <<"list",es>>        *)
(*   <<"map",kvs>> <<"stmt",es>> <<"none">>                                 *)
(* Context: a function from names to <<"var", value>> | <<"fn", handler>>. *)
(* Environment E: [handlers |-> [h |-> [ret |-> value, act |-> action,      *)
(*   copy |-> <<>> | <<from, to>>]] (a handler may lock the context it is  *)
(*   evaluated in and write to it: copy rebinds `to` to `from`'s entry),   *)
(*   gfun / gprefix / gpostfix |-> [name |-> h], ginfix |-> [op |-> <<h,   *)
(*   "CALC"|"SETTER">>], fault |-> <<k, "err"|"panic">>] - user handlers   *)
(*   are scripted: the k-th invocation overall faults, every other one     *)
(*   returns the handler's fixed value.                                    *)
(***************************************************************************)
EXTENDS Builtins, OpTable

NoFault == <<0, "none">>
InDom(f, x) == x \in DOMAIN f
Bind(ctx, x, e) == (x :> e) @@ ctx
BuiltinInfixOps == DOMAIN BuiltinInfix

\* ---- handler resolution (what a registry / context lookup yields) -----------------------------
\* <<"user", h>> | <<"builtin", name>> | <<"none">>
ResolveCall(E, ctx, f) ==
  IF InDom(ctx, f) /\ ctx[f][1] = "fn" THEN <<"user", ctx[f][2]>>
  ELSE IF InDom(E.gfun, f) THEN <<"user", E.gfun[f]>>
  ELSE IF f \in BuiltinFunctions THEN <<"builtin", f>> ELSE <<"none">>
ResolvePrefix(E, op) == IF InDom(E.gprefix, op) THEN <<"user", E.gprefix[op]>> ELSE IF op \in BuiltinPrefix THEN <<"builtin", op>> ELSE <<"none">>
ResolvePostfix(E, op) == IF InDom(E.gpostfix, op) THEN <<"user", E.gpostfix[op]>> ELSE IF op \in BuiltinPostfix THEN <<"builtin", op>> ELSE <<"none">>
ResolveInfix(E, op) == IF InDom(E.ginfix, op) THEN <<"user", E.ginfix[op][1]>> ELSE IF op \in BuiltinInfixOps THEN <<"builtin", op>> ELSE <<"none">>
InfixType(E, op) == IF InDom(E.ginfix, op) THEN E.ginfix[op][2] ELSE IF op \in BuiltinInfixOps THEN BuiltinInfix[op][3] ELSE "none"

\* result of invoking a resolved handler; n = user-handler invocations so far (before this one)
\* <<status, value, logged?>> with status ok | err | panic | dc
\* the effect a user handler has on the context it is evaluated in (it runs with no lock held, so it may take the lock itself)
HandlerCopy(E, h) == IF "copy" \in DOMAIN E.handlers[h] THEN E.handlers[h].copy ELSE <<>>
CtxAfter(E, r, ctx, n) ==
  IF r[1] = "user" /\ E.fault[1] # n + 1 /\ HandlerCopy(E, r[2]) # <<>> /\ InDom(ctx, HandlerCopy(E, r[2])[1])
  THEN Bind(ctx, HandlerCopy(E, r[2])[2], ctx[HandlerCopy(E, r[2])[1]]) ELSE ctx
Invoke(E, r, kind, args, n) ==
  IF r[1] = "user" THEN
     IF E.fault[1] = n + 1 THEN <<E.fault[2], VNone, TRUE>> ELSE <<"ok", E.handlers[r[2]].ret, TRUE>>
  ELSE LET o == CASE kind = "call" -> ApplyFn(r[2], args)
                  [] kind = "prefix" -> Apply1(r[2], args[1])
                  [] kind = "postfix" -> ApplyPost(r[2], args[1])
                  [] kind = "infix" -> Apply2(r[2], args[1], args[2])
       IN IF o[1] = "ok" THEN <<"ok", o[2], FALSE>> ELSE IF o[1] = "err" THEN <<"err", VNone, FALSE>> ELSE <<"dc", VNone, FALSE>>

\* ---- reference layer: Den --------------------------------------------------------------------
\* state threaded through: [st, val, ctx, log, n]
R(st, val, ctx, log, n) == [st |-> st, val |-> val, ctx |-> ctx, log |-> log, n |-> n]
LogEntry(h, args) == <<h, args>>
RECURSIVE Den(_, _, _, _, _), DenSeq(_, _, _, _, _, _, _), DenPairs(_, _, _, _, _, _, _)
Call(E, r, kind, args, ctx, log, n) ==
  LET o == Invoke(E, r, kind, args, n)
      log2 == IF o[3] THEN Append(log, LogEntry(r[2], args)) ELSE log
      n2 == IF o[3] THEN n + 1 ELSE n
  IN R(o[1], o[2], CtxAfter(E, r, ctx, n), log2, n2)
Den(E, t, ctx, log, n) ==
  CASE t[1] = "lit" -> R("ok", t[2], ctx, log, n)
    [] t[1] = "none" -> R("ok", VNone, ctx, log, n)
    [] t[1] = "ref" ->
         IF ~InDom(ctx, t[2]) THEN R("ok", VNone, ctx, log, n)
         ELSE IF ctx[t[2]][1] = "var" THEN R("ok", ctx[t[2]][2], ctx, log, n)
         ELSE Call(E, <<"user", ctx[t[2]][2]>>, "call", <<>>, ctx, log, n)
    [] t[1] = "call" ->
         LET a == DenSeq(E, t[3], 1, <<>>, ctx, log, n) IN
         IF a.st # "ok" THEN a
         ELSE LET r == ResolveCall(E, a.ctx, t[2]) IN
              IF r[1] = "none" THEN R("err", VNone, a.ctx, a.log, a.n) ELSE Call(E, r, "call", a.val, a.ctx, a.log, a.n)
    [] t[1] = "un" ->
         LET r == ResolvePrefix(E, t[2]) IN
         IF r[1] = "none" THEN R("err", VNone, ctx, log, n)
         ELSE LET a == Den(E, t[3], ctx, log, n) IN
              IF a.st # "ok" THEN a ELSE Call(E, r, "prefix", <<a.val>>, a.ctx, a.log, a.n)
    [] t[1] = "post" ->
         LET r == ResolvePostfix(E, t[3]) IN
         IF r[1] = "none" THEN R("err", VNone, ctx, log, n)
         ELSE LET a == Den(E, t[2], ctx, log, n) IN
              IF a.st # "ok" THEN a ELSE Call(E, r, "postfix", <<a.val>>, a.ctx, a.log, a.n)
    [] t[1] = "bin" ->
         LET ty == InfixType(E, t[2]) r == ResolveInfix(E, t[2]) IN
         IF ty = "none" THEN R("err", VNone, ctx, log, n)
         ELSE LET a == Den(E, t[3], ctx, log, n) IN
              IF a.st # "ok" THEN a
              ELSE LET b == Den(E, t[4], a.ctx, a.log, a.n) IN
                   IF b.st # "ok" THEN b
                   ELSE IF ty = "CALC" THEN Call(E, r, "infix", <<a.val, b.val>>, b.ctx, b.log, b.n)
                   ELSE IF t[3][1] # "ref" THEN R("err", VNone, b.ctx, b.log, b.n)      \* assignment to something that is not a plain name
                   ELSE LET h == Call(E, r, "infix", <<a.val, b.val>>, b.ctx, b.log, b.n) IN
                        IF h.st # "ok" THEN h
                        ELSE R("ok", VNone, Bind(h.ctx, t[3][2], <<"var", h.val>>), h.log, h.n)
    [] t[1] = "tern" ->
         LET c == Den(E, t[2], ctx, log, n) IN
         IF c.st # "ok" THEN c
         ELSE IF c.val[1] # "bool" THEN R("err", VNone, c.ctx, c.log, c.n)
         ELSE IF c.val[2] THEN Den(E, t[3], c.ctx, c.log, c.n) ELSE Den(E, t[4], c.ctx, c.log, c.n)
    [] t[1] = "list" ->
         LET a == DenSeq(E, t[2], 1, <<>>, ctx, log, n) IN IF a.st # "ok" THEN a ELSE [a EXCEPT !.val = VList(a.val)]
    [] t[1] = "map" ->
         LET a == DenPairs(E, t[2], 1, <<>>, ctx, log, n) IN IF a.st # "ok" THEN a ELSE [a EXCEPT !.val = VMap(a.val)]
    [] t[1] = "stmt" ->
         LET a == DenSeq(E, t[2], 1, <<>>, ctx, log, n) IN
         IF a.st # "ok" THEN a ELSE [a EXCEPT !.val = IF a.val = <<>> THEN VNone ELSE a.val[Len(a.val)]]
\* a sequence of sub-expressions, left to right; val is the sequence of their values
DenSeq(E, es, i, acc, ctx, log, n) ==
  IF i > Len(es) THEN R("ok", acc, ctx, log, n)
  ELSE LET a == Den(E, es[i], ctx, log, n) IN
       IF a.st # "ok" THEN a ELSE DenSeq(E, es, i + 1, Append(acc, a.val), a.ctx, a.log, a.n)
DenPairs(E, kvs, i, acc, ctx, log, n) ==
  IF i > Len(kvs) THEN R("ok", acc, ctx, log, n)
  ELSE LET k == Den(E, kvs[i][1], ctx, log, n) IN
       IF k.st # "ok" THEN k
       ELSE LET v == Den(E, kvs[i][2], k.ctx, k.log, k.n) IN
            IF v.st # "ok" THEN v ELSE DenPairs(E, kvs, i + 1, Append(acc, <<k.val, v.val>>), v.ctx, v.log, v.n)
Denote(E, p, c) == Den(E, p, c, <<>>, 0)

\* ---- machine layer -------------------------------------------------------------------------------
CONSTANTS BareRefHoldsLock,   \* TRUE reproduces the pinned tree: a context function reached by bare name runs under the context lock
          BothBranches,       \* negative control: a conditional evaluates both branches and then selects
          ContinueAfterErr    \* negative control: a failing user handler yields None and evaluation goes on
VARIABLES env, prog, ctx0,    \* the case being evaluated (constant during a run)
          work,               \* work stack, head first: <<"eval", node>> | <<"k", tag, ...>> | <<"invoke", r, kind, args>>
          vals,               \* value stack, head first
          ctx, ctxLock,       \* the context and its mutex: "free" | "held" | "poisoned"
          log,                \* observable invocations: <<handler, args, context lock free at entry>>
          n,                  \* user-handler invocations so far
          status              \* "run" | "ok" | "err" | "panic" | "dc" | "deadlock"
mvars == <<env, prog, ctx0, work, vals, ctx, ctxLock, log, n, status>>

Start(E, p, c) == /\ env = E /\ prog = p /\ ctx0 = c /\ work = <<<<"eval", p>>>> /\ vals = <<>> /\ ctx = c /\ ctxLock = "free"
                  /\ log = <<>> /\ n = 0 /\ status = "run"
Replace(items) == work' = items \o Tail(work)
PushVal(v) == vals' = <<v>> \o vals
Fail(st) == status' = st /\ UNCHANGED <<work, vals>>
TakeVals(k) == [i \in 1..k |-> vals[k + 1 - i]]          \* the k most recent values, oldest first
DropVals(k) == SubSeq(vals, k + 1, Len(vals))

\* one evaluator step: dispatch on a node (no handler runs here; registry / context lookups are atomic critical sections)
EvalNode ==
  /\ status = "run" /\ work # <<>> /\ Head(work)[1] = "eval"
  /\ LET t == Head(work)[2] IN
     CASE t[1] = "lit" -> PushVal(t[2]) /\ work' = Tail(work) /\ UNCHANGED <<status, ctxLock>>
       [] t[1] = "none" -> PushVal(VNone) /\ work' = Tail(work) /\ UNCHANGED <<status, ctxLock>>
       [] t[1] = "ref" ->        \* Context::value: one critical section on the context
            IF ~InDom(ctx, t[2]) THEN PushVal(VNone) /\ work' = Tail(work) /\ UNCHANGED <<status, ctxLock>>
            ELSE IF ctx[t[2]][1] = "var" THEN PushVal(ctx[t[2]][2]) /\ work' = Tail(work) /\ UNCHANGED <<status, ctxLock>>
            ELSE /\ UNCHANGED <<vals, status>>
                 /\ IF BareRefHoldsLock
                    THEN ctxLock' = "held" /\ Replace(<<<<"invoke", <<"user", ctx[t[2]][2]>>, "call", <<>>>>, <<"k", "unlock">>>>)
                    ELSE ctxLock' = ctxLock /\ Replace(<<<<"invoke", <<"user", ctx[t[2]][2]>>, "call", <<>>>>>>)
       [] t[1] = "call" -> Replace([i \in 1..Len(t[3]) |-> <<"eval", t[3][i]>>] \o <<<<"k", "call", t[2], Len(t[3])>>>>) /\ UNCHANGED <<vals, status, ctxLock>>
       [] t[1] = "un" ->         \* the prefix registry is consulted before the operand is evaluated
            LET r == ResolvePrefix(env, t[2]) IN
            IF r[1] = "none" THEN Fail("err") /\ UNCHANGED ctxLock
            ELSE Replace(<<<<"eval", t[3]>>, <<"k", "apply1", r, "prefix">>>>) /\ UNCHANGED <<vals, status, ctxLock>>
       [] t[1] = "post" ->
            LET r == ResolvePostfix(env, t[3]) IN
            IF r[1] = "none" THEN Fail("err") /\ UNCHANGED ctxLock
            ELSE Replace(<<<<"eval", t[2]>>, <<"k", "apply1", r, "postfix">>>>) /\ UNCHANGED <<vals, status, ctxLock>>
       [] t[1] = "bin" ->        \* type lookup first; CALC: handler lookup, then operands; SETTER: operands, then the rest
            LET ty == InfixType(env, t[2]) IN
            IF ty = "none" THEN Fail("err") /\ UNCHANGED ctxLock
            ELSE IF ty = "CALC" THEN Replace(<<<<"eval", t[3]>>, <<"eval", t[4]>>, <<"k", "calc", ResolveInfix(env, t[2])>>>>) /\ UNCHANGED <<vals, status, ctxLock>>
            ELSE Replace(<<<<"eval", t[3]>>, <<"eval", t[4]>>, <<"k", "set", t[2], t[3]>>>>) /\ UNCHANGED <<vals, status, ctxLock>>
       [] t[1] = "tern" ->
            IF BothBranches THEN Replace(<<<<"eval", t[2]>>, <<"eval", t[3]>>, <<"eval", t[4]>>, <<"k", "select">>>>) /\ UNCHANGED <<vals, status, ctxLock>>
            ELSE Replace(<<<<"eval", t[2]>>, <<"k", "tern", t[3], t[4]>>>>) /\ UNCHANGED <<vals, status, ctxLock>>
       [] t[1] = "list" -> Replace([i \in 1..Len(t[2]) |-> <<"eval", t[2][i]>>] \o <<<<"k", "list", Len(t[2])>>>>) /\ UNCHANGED <<vals, status, ctxLock>>
       [] t[1] = "map" -> Replace([i \in 1..2 * Len(t[2]) |-> <<"eval", t[2][(i + 1) \div 2][IF i % 2 = 1 THEN 1 ELSE 2]>>] \o <<<<"k", "map", Len(t[2])>>>>)
                          /\ UNCHANGED <<vals, status, ctxLock>>
       [] t[1] = "stmt" ->
            IF t[2] = <<>> THEN PushVal(VNone) /\ work' = Tail(work) /\ UNCHANGED <<status, ctxLock>>
            ELSE Replace([i \in 1..2 * Len(t[2]) - 1 |-> IF i % 2 = 1 THEN <<"eval", t[2][(i + 1) \div 2]>> ELSE <<"k", "drop">>]) /\ UNCHANGED <<vals, status, ctxLock>>
  /\ UNCHANGED <<env, prog, ctx0, ctx, log, n>>

\* a continuation: combine values, look handlers up, store
Continue ==
  /\ status = "run" /\ work # <<>> /\ Head(work)[1] = "k"
  /\ LET w == Head(work) IN
     CASE w[2] = "call" ->       \* arguments are evaluated; now Context::get_func, then the global registry
            LET args == TakeVals(w[4]) r == ResolveCall(env, ctx, w[3]) IN
            IF r[1] = "none" THEN Fail("err") /\ UNCHANGED <<ctx, ctxLock>>
            ELSE vals' = DropVals(w[4]) /\ Replace(<<<<"invoke", r, "call", args>>>>) /\ UNCHANGED <<status, ctx, ctxLock>>
       [] w[2] = "apply1" -> vals' = Tail(vals) /\ Replace(<<<<"invoke", w[3], w[4], <<vals[1]>>>>>>) /\ UNCHANGED <<status, ctx, ctxLock>>
       [] w[2] = "calc" -> vals' = DropVals(2) /\ Replace(<<<<"invoke", w[3], "infix", TakeVals(2)>>>>) /\ UNCHANGED <<status, ctx, ctxLock>>
       [] w[2] = "set" ->        \* both sides are evaluated; the target must be a plain name; then the handler is looked up
            IF w[4][1] # "ref" THEN Fail("err") /\ UNCHANGED <<ctx, ctxLock>>
            ELSE vals' = DropVals(2) /\ Replace(<<<<"invoke", ResolveInfix(env, w[3]), "infix", TakeVals(2)>>, <<"k", "store", w[4][2]>>>>) /\ UNCHANGED <<status, ctx, ctxLock>>
       [] w[2] = "store" ->      \* Context::set_variable: one critical section; the assignment yields None
            /\ ctx' = Bind(ctx, w[3], <<"var", vals[1]>>) /\ vals' = <<VNone>> \o Tail(vals) /\ work' = Tail(work) /\ UNCHANGED <<status, ctxLock>>
       [] w[2] = "tern" ->
            IF vals[1][1] # "bool" THEN Fail("err") /\ UNCHANGED <<ctx, ctxLock>>
            ELSE vals' = Tail(vals) /\ Replace(<<<<"eval", IF vals[1][2] THEN w[3] ELSE w[4]>>>>) /\ UNCHANGED <<status, ctx, ctxLock>>
       [] w[2] = "select" ->
            IF vals[3][1] # "bool" THEN Fail("err") /\ UNCHANGED <<ctx, ctxLock>>
            ELSE vals' = <<IF vals[3][2] THEN vals[2] ELSE vals[1]>> \o DropVals(3) /\ work' = Tail(work) /\ UNCHANGED <<status, ctx, ctxLock>>
       [] w[2] = "list" -> vals' = <<VList(TakeVals(w[3]))>> \o DropVals(w[3]) /\ work' = Tail(work) /\ UNCHANGED <<status, ctx, ctxLock>>
       [] w[2] = "map" -> LET flat == TakeVals(2 * w[3]) IN
                          vals' = <<VMap([i \in 1..w[3] |-> <<flat[2 * i - 1], flat[2 * i]>>])>> \o DropVals(2 * w[3]) /\ work' = Tail(work) /\ UNCHANGED <<status, ctx, ctxLock>>
       [] w[2] = "drop" -> vals' = Tail(vals) /\ work' = Tail(work) /\ UNCHANGED <<status, ctx, ctxLock>>
       [] w[2] = "unlock" -> ctxLock' = "free" /\ work' = Tail(work) /\ UNCHANGED <<status, ctx, vals>>
  /\ UNCHANGED <<env, prog, ctx0, log, n>>

\* a handler runs: a step of its own, which must find no engine lock held.  A user handler is logged; one scripted to
\* lock the context it is evaluated in blocks forever if the evaluator still holds that lock.
InvokeHandler ==
  /\ status = "run" /\ work # <<>> /\ Head(work)[1] = "invoke"
  /\ LET w == Head(work) r == w[2] o == Invoke(env, r, w[3], w[4], n) IN
     /\ IF o[3] THEN log' = Append(log, <<r[2], w[4], ctxLock = "free">>) /\ n' = n + 1 ELSE UNCHANGED <<log, n>>
     /\ ctx' = IF o[3] /\ ~(env.handlers[r[2]].act = "lockctx" /\ ctxLock = "held") THEN CtxAfter(env, r, ctx, n) ELSE ctx
     /\ IF o[3] /\ env.handlers[r[2]].act = "lockctx" /\ ctxLock = "held" THEN Fail("deadlock") /\ UNCHANGED ctxLock
        ELSE IF o[1] = "ok" THEN PushVal(o[2]) /\ work' = Tail(work) /\ UNCHANGED <<status, ctxLock>>
        ELSE IF o[1] = "err" /\ ContinueAfterErr /\ o[3] THEN PushVal(VNone) /\ work' = Tail(work) /\ UNCHANGED <<status, ctxLock>>
        ELSE /\ Fail(o[1])
             /\ ctxLock' = IF o[1] = "panic" /\ ctxLock = "held" THEN "poisoned" ELSE IF ctxLock = "held" THEN "free" ELSE ctxLock
  /\ UNCHANGED <<env, prog, ctx0>>

Finish == /\ status = "run" /\ work = <<>> /\ status' = "ok" /\ UNCHANGED <<env, prog, ctx0, work, vals, ctx, ctxLock, log, n>>
MStep == EvalNode \/ Continue \/ InvokeHandler \/ Finish
MDone == status # "run" /\ UNCHANGED mvars

\* ---- properties (C06, C07, C14, C15) ------------------------------------------------------------
Ref == Denote(env, prog, ctx0)
LogProj == [i \in 1..Len(log) |-> <<log[i][1], log[i][2]>>]
CtxEq(a, b) == DOMAIN a = DOMAIN b /\ \A x \in DOMAIN a : a[x][1] = b[x][1] /\ (IF a[x][1] = "var" THEN VEq(a[x][2], b[x][2]) ELSE a[x][2] = b[x][2])
\* the machine's outcome is the denotation: value, final context (also at the point of a fault), and the handler log
AgreesWithDen == status \in {"ok", "err", "panic", "dc"} =>
                   /\ status = Ref.st /\ LogProj = Ref.log /\ CtxEq(ctx, Ref.ctx)
                   /\ (status = "ok" => (Len(vals) = 1 /\ VEq(vals[1], Ref.val)))
NoLockAcrossHandler == \A i \in 1..Len(log) : log[i][3]
NoPoison == status # "run" => ctxLock = "free"
NoDeadlock == status # "deadlock"
StopAtFault == (status \in {"err", "panic"} /\ env.fault[1] > 0 /\ env.fault[1] <= n) => env.fault[1] = n
MTypeOK == status \in {"run", "ok", "err", "panic", "dc", "deadlock"} /\ ctxLock \in {"free", "held", "poisoned"}
====
