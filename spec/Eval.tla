---- MODULE Eval ----
(***************************************************************************)
(* The tree-walking evaluator (ExprAST::exec, src/parser.rs:109-243 and    *)
(* src/context.rs), twice:                                                 *)
(*                                                                         *)
(*  Den      reference layer: a big-step denotation of a program in a      *)
(*           context, returning status, value, final context and the log   *)
(*           of observable handler invocations                             *)
(*  machine  small-step evaluator with an explicit work stack and value    *)
(*           stack, one action per evaluator branch in the code's order    *)
(*           (registry lookup before operands; assignment: type lookup,    *)
(*           target read, right side, name check, handler lookup, handler, *)
(*           store), the context lock as a state variable, and handler     *)
(*           invocations as separate steps taken with no lock held         *)
(*                                                                         *)
(* Programs: <<"lit",v>> <<"ref",x>> <<"call",f,args>> <<"un",op,e>>        *)
(*   <<"bin",op,l,r>> <<"post",e,op>> <<"tern",c,a,b>> <<"list",es>>        *)
(*   <<"map",kvs>> <<"stmt",es>> <<"none">>                                 *)
(* Context: a function from names to <<"var", value>> | <<"fn", handler>>. *)
(* Environment E: [handlers |-> [h |-> [ret |-> value, act |-> action]],   *)
(*   gfun / gprefix / gpostfix |-> [name |-> h], ginfix |-> [op |-> <<h,   *)
(*   "CALC"|"SETTER">>], fault |-> <<k, "err"|"panic">>] - user handlers   *)
(*   are scripted: the k-th invocation overall faults, every other one     *)
(*   returns the handler's fixed value.                                    *)
(***************************************************************************)
EXTENDS Builtins, OpTable

NoFault == <<0, "none">>
InDom(f, x) == x \in DOMAIN f
Bind(ctx, x, e) == (x :> e) @@ ctx
BuiltinInfixOps == DOMAIN BuiltinInfix

\* ---- handler resolution (what a registry / context lookup yields) -----------------------------
\* <<"user", h>> | <<"builtin", name>> | <<"none">>
ResolveCall(E, ctx, f) ==
  IF InDom(ctx, f) /\ ctx[f][1] = "fn" THEN <<"user", ctx[f][2]>>
  ELSE IF InDom(E.gfun, f) THEN <<"user", E.gfun[f]>>
  ELSE IF f \in BuiltinFunctions THEN <<"builtin", f>> ELSE <<"none">>
ResolvePrefix(E, op) == IF InDom(E.gprefix, op) THEN <<"user", E.gprefix[op]>> ELSE IF op \in BuiltinPrefix THEN <<"builtin", op>> ELSE <<"none">>
ResolvePostfix(E, op) == IF InDom(E.gpostfix, op) THEN <<"user", E.gpostfix[op]>> ELSE IF op \in BuiltinPostfix THEN <<"builtin", op>> ELSE <<"none">>
ResolveInfix(E, op) == IF InDom(E.ginfix, op) THEN <<"user", E.ginfix[op][1]>> ELSE IF op \in BuiltinInfixOps THEN <<"builtin", op>> ELSE <<"none">>
InfixType(E, op) == IF InDom(E.ginfix, op) THEN E.ginfix[op][2] ELSE IF op \in BuiltinInfixOps THEN BuiltinInfix[op][3] ELSE "none"

\* result of invoking a resolved handler; n = user-handler invocations so far (before this one)
\* <<status, value, logged?>> with status ok | err | panic | dc
Invoke(E, r, kind, args, n) ==
  IF r[1] = "user" THEN
     IF E.fault[1] = n + 1 THEN <<E.fault[2], VNone, TRUE>> ELSE <<"ok", E.handlers[r[2]].ret, TRUE>>
  ELSE LET o == CASE kind = "call" -> ApplyFn(r[2], args)
                  [] kind = "prefix" -> Apply1(r[2], args[1])
                  [] kind = "postfix" -> ApplyPost(r[2], args[1])
                  [] kind = "infix" -> Apply2(r[2], args[1], args[2])
       IN IF o[1] = "ok" THEN <<"ok", o[2], FALSE>> ELSE IF o[1] = "err" THEN <<"err", VNone, FALSE>> ELSE <<"dc", VNone, FALSE>>

\* ---- reference layer: Den --------------------------------------------------------------------
\* state threaded through: [st, val, ctx, log, n]
R(st, val, ctx, log, n) == [st |-> st, val |-> val, ctx |-> ctx, log |-> log, n |-> n]
LogEntry(h, args) == <<h, args>>
RECURSIVE Den(_, _, _, _, _), DenSeq(_, _, _, _, _, _, _), DenPairs(_, _, _, _, _, _, _)
Call(E, r, kind, args, ctx, log, n) ==
  LET o == Invoke(E, r, kind, args, n)
      log2 == IF o[3] THEN Append(log, LogEntry(r[2], args)) ELSE log
      n2 == IF o[3] THEN n + 1 ELSE n
  IN R(o[1], o[2], ctx, log2, n2)
Den(E, t, ctx, log, n) ==
  CASE t[1] = "lit" -> R("ok", t[2], ctx, log, n)
    [] t[1] = "none" -> R("ok", VNone, ctx, log, n)
    [] t[1] = "ref" ->
         IF ~InDom(ctx, t[2]) THEN R("ok", VNone, ctx, log, n)
         ELSE IF ctx[t[2]][1] = "var" THEN R("ok", ctx[t[2]][2], ctx, log, n)
         ELSE Call(E, <<"user", ctx[t[2]][2]>>, "call", <<>>, ctx, log, n)
    [] t[1] = "call" ->
         LET a == DenSeq(E, t[3], 1, <<>>, ctx, log, n) IN
         IF a.st # "ok" THEN a
         ELSE LET r == ResolveCall(E, a.ctx, t[2]) IN
              IF r[1] = "none" THEN R("err", VNone, a.ctx, a.log, a.n) ELSE Call(E, r, "call", a.val, a.ctx, a.log, a.n)
    [] t[1] = "un" ->
         LET r == ResolvePrefix(E, t[2]) IN
         IF r[1] = "none" THEN R("err", VNone, ctx, log, n)
         ELSE LET a == Den(E, t[3], ctx, log, n) IN
              IF a.st # "ok" THEN a ELSE Call(E, r, "prefix", <<a.val>>, a.ctx, a.log, a.n)
    [] t[1] = "post" ->
         LET r == ResolvePostfix(E, t[3]) IN
         IF r[1] = "none" THEN R("err", VNone, ctx, log, n)
         ELSE LET a == Den(E, t[2], ctx, log, n) IN
              IF a.st # "ok" THEN a ELSE Call(E, r, "postfix", <<a.val>>, a.ctx, a.log, a.n)
    [] t[1] = "bin" ->
         LET ty == InfixType(E, t[2]) r == ResolveInfix(E, t[2]) IN
         IF ty = "none" THEN R("err", VNone, ctx, log, n)
         ELSE LET a == Den(E, t[3], ctx, log, n) IN
              IF a.st # "ok" THEN a
              ELSE LET b == Den(E, t[4], a.ctx, a.log, a.n) IN
                   IF b.st # "ok" THEN b
                   ELSE IF ty = "CALC" THEN Call(E, r, "infix", <<a.val, b.val>>, b.ctx, b.log, b.n)
                   ELSE IF t[3][1] # "ref" THEN R("err", VNone, b.ctx, b.log, b.n)      \* assignment to something that is not a plain name
                   ELSE LET h == Call(E, r, "infix", <<a.val, b.val>>, b.ctx, b.log, b.n) IN
                        IF h.st # "ok" THEN h
                        ELSE R("ok", VNone, Bind(h.ctx, t[3][2], <<"var", h.val>>), h.log, h.n)
    [] t[1] = "tern" ->
         LET c == Den(E, t[2], ctx, log, n) IN
         IF c.st # "ok" THEN c
         ELSE IF c.val[1] # "bool" THEN R("err", VNone, c.ctx, c.log, c.n)
         ELSE IF c.val[2] THEN Den(E, t[3], c.ctx, c.log, c.n) ELSE Den(E, t[4], c.ctx, c.log, c.n)
    [] t[1] = "list" ->
         LET a == DenSeq(E, t[2], 1, <<>>, ctx, log, n) IN IF a.st # "ok" THEN a ELSE [a EXCEPT !.val = VList(a.val)]
    [] t[1] = "map" ->
         LET a == DenPairs(E, t[2], 1, <<>>, ctx, log, n) IN IF a.st # "ok" THEN a ELSE [a EXCEPT !.val = VMap(a.val)]
    [] t[1] = "stmt" ->
         LET a == DenSeq(E, t[2], 1, <<>>, ctx, log, n) IN
         IF a.st # "ok" THEN a ELSE [a EXCEPT !.val = IF a.val = <<>> THEN VNone ELSE a.val[Len(a.val)]]
\* a sequence of sub-expressions, left to right; val is the sequence of their values
DenSeq(E, es, i, acc, ctx, log, n) ==
  IF i > Len(es) THEN R("ok", acc, ctx, log, n)
  ELSE LET a == Den(E, es[i], ctx, log, n) IN
       IF a.st # "ok" THEN a ELSE DenSeq(E, es, i + 1, Append(acc, a.val), a.ctx, a.log, a.n)
DenPairs(E, kvs, i, acc, ctx, log, n) ==
  IF i > Len(kvs) THEN R("ok", acc, ctx, log, n)
  ELSE LET k == Den(E, kvs[i][1], ctx, log, n) IN
       IF k.st # "ok" THEN k
       ELSE LET v == Den(E, kvs[i][2], k.ctx, k.log, k.n) IN
            IF v.st # "ok" THEN v ELSE DenPairs(E, kvs, i + 1, Append(acc, <<k.val, v.val>>), v.ctx, v.log, v.n)
Denote(E, prog, ctx0) == Den(E, prog, ctx0, <<>>, 0)
====
