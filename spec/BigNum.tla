---- MODULE BigNum ----
(***************************************************************************)
(* Natural numbers as little-endian sequences of base-10^4 limbs (TLC      *)
(* integers are 32-bit; 10^4 keeps every limb product below 2^31).         *)
(* Normal form: no most-significant zero limbs; zero is <<>>.              *)
(***************************************************************************)
EXTENDS Integers, Sequences, TLC
BASE == 10000
RECURSIVE BNorm(_)
BNorm(a) == IF a = <<>> THEN a ELSE IF a[Len(a)] = 0 THEN BNorm(SubSeq(a, 1, Len(a) - 1)) ELSE a
BZero == <<>>
BIsZero(a) == BNorm(a) = <<>>
Limb(a, i) == IF i <= Len(a) THEN a[i] ELSE 0
Max2(x, y) == IF x > y THEN x ELSE y

RECURSIVE BAddAcc(_, _, _, _, _)
BAddAcc(a, b, i, carry, acc) ==
  IF i > Max2(Len(a), Len(b)) THEN (IF carry = 0 THEN acc ELSE Append(acc, carry))
  ELSE LET s == Limb(a, i) + Limb(b, i) + carry IN BAddAcc(a, b, i + 1, s \div BASE, Append(acc, s % BASE))
BAdd(a, b) == BNorm(BAddAcc(a, b, 1, 0, <<>>))

\* comparison: -1, 0, 1
RECURSIVE BCmpFrom(_, _, _)
BCmpFrom(a, b, i) == IF i = 0 THEN 0 ELSE IF a[i] < b[i] THEN -1 ELSE IF a[i] > b[i] THEN 1 ELSE BCmpFrom(a, b, i - 1)
BCmp(x, y) == LET a == BNorm(x) b == BNorm(y) IN
              IF Len(a) < Len(b) THEN -1 ELSE IF Len(a) > Len(b) THEN 1 ELSE BCmpFrom(a, b, Len(a))
BLt(a, b) == BCmp(a, b) = -1
BLe(a, b) == BCmp(a, b) <= 0
BEq(a, b) == BCmp(a, b) = 0

\* a - b for a >= b
RECURSIVE BSubAcc(_, _, _, _, _)
BSubAcc(a, b, i, borrow, acc) ==
  IF i > Len(a) THEN acc
  ELSE LET d == a[i] - Limb(b, i) - borrow IN
       IF d < 0 THEN BSubAcc(a, b, i + 1, 1, Append(acc, d + BASE)) ELSE BSubAcc(a, b, i + 1, 0, Append(acc, d))
BSub(a, b) == BNorm(BSubAcc(BNorm(a), BNorm(b), 1, 0, <<>>))

\* a * m for a small m (0 <= m < BASE * 2)
RECURSIVE BMulSmallAcc(_, _, _, _, _)
BMulSmallAcc(a, m, i, carry, acc) ==
  IF i > Len(a) THEN (IF carry = 0 THEN acc ELSE Append(acc, carry))
  ELSE LET p == a[i] * m + carry IN BMulSmallAcc(a, m, i + 1, p \div BASE, Append(acc, p % BASE))
BMulSmall(a, m) == BNorm(BMulSmallAcc(a, m, 1, 0, <<>>))
BShiftLimbs(a, k) == IF BIsZero(a) THEN <<>> ELSE [i \in 1..k |-> 0] \o a
RECURSIVE BMulAcc(_, _, _, _)
BMulAcc(a, b, i, acc) == IF i > Len(b) THEN acc ELSE BMulAcc(a, b, i + 1, BAdd(acc, BShiftLimbs(BMulSmall(a, b[i]), i - 1)))
BMul(a, b) == BMulAcc(BNorm(a), BNorm(b), 1, <<>>)

\* <<quotient, remainder>> of a by a small d (0 < d < BASE * 2)
RECURSIVE BDivSmallAcc(_, _, _, _, _)
BDivSmallAcc(a, d, i, rem, acc) ==
  IF i = 0 THEN <<BNorm(acc), rem>>
  ELSE LET cur == rem * BASE + a[i] IN BDivSmallAcc(a, d, i - 1, cur % d, <<cur \div d>> \o acc)
BDivSmall(a, d) == BDivSmallAcc(BNorm(a), d, Len(BNorm(a)), 0, <<>>)
\* general division: <<quotient, remainder>> for b # 0 (schoolbook, one base-10^4 digit at a time, digit by bisection)
RECURSIVE BFindDigit(_, _, _, _)
BFindDigit(b, rem, lo, hi) ==   \* largest d in lo..hi with b * d <= rem   (b * lo <= rem holds)
  IF lo = hi THEN lo
  ELSE LET mid == (lo + hi + 1) \div 2 IN
       IF BLe(BMulSmall(b, mid), rem) THEN BFindDigit(b, rem, mid, hi) ELSE BFindDigit(b, rem, lo, mid - 1)
RECURSIVE BDivModAcc(_, _, _, _, _)
BDivModAcc(a, b, i, rem, q) ==
  IF i = 0 THEN <<BNorm(q), BNorm(rem)>>
  ELSE LET cur == BNorm(<<a[i]>> \o rem)
           d == BFindDigit(b, cur, 0, BASE - 1) IN
       BDivModAcc(a, b, i - 1, BSub(cur, BMulSmall(b, d)), <<d>> \o q)
BDivMod(x, y) == LET a == BNorm(x) b == BNorm(y) IN BDivModAcc(a, b, Len(a), <<>>, <<>>)
BIsEven(a) == BIsZero(a) \/ a[1] % 2 = 0

RECURSIVE BPow10(_)
BPow10(k) == IF k = 0 THEN <<1>> ELSE IF k >= 4 THEN <<0>> \o BPow10(k - 4) ELSE BMulSmall(BPow10(k - 1), 10)
BTimesPow10(a, k) == IF BIsZero(a) THEN <<>> ELSE BMul(a, BPow10(k))
RECURSIVE BPow2(_)
BPow2(k) == IF k = 0 THEN <<1>> ELSE BMulSmall(BPow2(k - 1), 2)

BFromInt(n) == IF n = 0 THEN <<>> ELSE IF n < BASE THEN <<n>> ELSE
               IF n < BASE * BASE THEN BNorm(<<n % BASE, n \div BASE>>) ELSE BNorm(<<n % BASE, (n \div BASE) % BASE, n \div (BASE * BASE)>>)
\* value as a TLC integer (only for numbers below 2^31)
BSmall(a) == Len(BNorm(a)) <= 2 \/ (Len(BNorm(a)) = 3 /\ a[3] < 21)
BToInt(a) == LET n == BNorm(a) IN Limb(n, 1) + BASE * Limb(n, 2) + BASE * BASE * Limb(n, 3)
\* number of decimal digits
RECURSIVE DigitsOfInt(_)
DigitsOfInt(n) == IF n < 10 THEN 1 ELSE 1 + DigitsOfInt(n \div 10)
BDigits(a) == LET n == BNorm(a) IN IF n = <<>> THEN 0 ELSE 4 * (Len(n) - 1) + DigitsOfInt(n[Len(n)])
\* strip trailing decimal zeros, at most k of them: <<stripped, how many>>
RECURSIVE BStripZeros(_, _, _)
BStripZeros(a, k, done) ==
  IF k = 0 \/ BIsZero(a) THEN <<a, done>>
  ELSE LET qr == BDivSmall(a, 10) IN IF qr[2] = 0 THEN BStripZeros(qr[1], k - 1, done + 1) ELSE <<a, done>>

\* constants
TWO63 == <<5808, 5477, 368, 3372, 922>>
TWO64 == <<1616, 955, 737, 6744, 1844>>
TWO96 == <<336, 4395, 5935, 4337, 1426, 1625, 9228, 7>>
MAXMANT == <<335, 4395, 5935, 4337, 1426, 1625, 9228, 7>>     \* 2^96 - 1
====
