---- MODULE Describe ----
(***************************************************************************)
(* describe() and the descriptor store (C18).                              *)
(*                                                                         *)
(* Reference layer  D(t, desc): every node is rendered with the descriptor *)
(*   registered under the node's own key - its kind and, for operators,    *)
(*   calls and references, its name - and with the documented default      *)
(*   rendering when none is registered.                                    *)
(* Machine layer    the store as the code keeps it (a map from key to a    *)
(*   tagged descriptor), SetDescriptor as the only transition, and the     *)
(*   lookups get_*_descriptor as the code writes them (key construction +  *)
(*   variant match + fallback).  BinaryKeyIsUnary = TRUE reproduces the    *)
(*   pinned tree (binary descriptors looked up under the unary key).       *)
(*                                                                         *)
(* Descriptors are markers: the one registered with identity id renders a  *)
(* node as "<id|...>" with the node's name and its children's renderings,  *)
(* so the output string says exactly which descriptor rendered which node. *)
(* Programs use the evaluator's AST encoding (module Eval); literals are   *)
(* numbers and booleans.                                                   *)
(***************************************************************************)
EXTENDS Integers, Sequences, FiniteSets, TLC
CONSTANT BinaryKeyIsUnary

Kinds == {"unary", "binary", "postfix", "ternary", "function", "reference", "list", "map", "chain"}
NamedKinds == {"unary", "binary", "postfix", "function", "reference"}
Key(kind, name) == IF kind \in NamedKinds THEN <<kind, name>> ELSE <<kind>>

RECURSIVE Join(_, _)
Join(ss, sep) == IF ss = <<>> THEN "" ELSE IF Len(ss) = 1 THEN ss[1] ELSE ss[1] \o sep \o Join(Tail(ss), sep)

\* the documented default renderings (src/descriptor.rs default_*_descriptor)
Default(kind, name, kids) ==
  CASE kind = "unary" -> name \o kids[1]
    [] kind = "binary" -> kids[1] \o name \o kids[2]
    [] kind = "postfix" -> kids[1] \o name
    [] kind = "ternary" -> kids[1] \o "?" \o kids[2] \o ":" \o kids[3]
    [] kind = "function" -> name \o "(" \o Join(kids, ",") \o ")"
    [] kind = "reference" -> name
    [] kind = "list" -> "[" \o Join(kids, ",") \o "]"
    [] kind = "map" -> "{" \o Join([i \in 1..(Len(kids) \div 2) |-> kids[2 * i - 1] \o ":" \o kids[2 * i]], ",") \o "}"
    [] kind = "chain" -> Join(kids, ";")
\* a marker descriptor with identity id
Marker(id, kind, name, kids) ==
  "<" \o id \o "|" \o
  (CASE kind \in {"unary", "binary", "function"} -> name \o "|" \o Join(kids, ",")
     [] kind = "postfix" -> Join(kids, ",") \o "|" \o name
     [] kind = "reference" -> name
     [] kind = "map" -> Join([i \in 1..(Len(kids) \div 2) |-> kids[2 * i - 1] \o "=" \o kids[2 * i]], ",")
     [] OTHER -> Join(kids, ","))
  \o ">"

\* node kind / name / children of a program node (Eval's encoding); literals and None have no descriptor
NodeKind(t) == CASE t[1] = "un" -> "unary" [] t[1] = "bin" -> "binary" [] t[1] = "post" -> "postfix" [] t[1] = "tern" -> "ternary"
                 [] t[1] = "call" -> "function" [] t[1] = "ref" -> "reference" [] t[1] = "list" -> "list" [] t[1] = "map" -> "map"
                 [] t[1] = "stmt" -> "chain" [] OTHER -> "leaf"
NodeName(t) == CASE t[1] \in {"un", "bin", "call", "ref"} -> t[2] [] t[1] = "post" -> t[3] [] OTHER -> ""
NodeKids(t) == CASE t[1] = "un" -> <<t[3]>> [] t[1] = "bin" -> <<t[3], t[4]>> [] t[1] = "post" -> <<t[2]>> [] t[1] = "tern" -> <<t[2], t[3], t[4]>>
                 [] t[1] = "call" -> t[3] [] t[1] \in {"list", "stmt"} -> t[2]
                 [] t[1] = "map" -> [i \in 1..2 * Len(t[2]) |-> t[2][(i + 1) \div 2][IF i % 2 = 1 THEN 1 ELSE 2]]
                 [] OTHER -> <<>>
\* literal text: <<"lit", text>> carries its own rendering (numbers and booleans render as written)
LeafText(t) == IF t[1] = "lit" THEN t[2] ELSE ""

\* ---- reference layer --------------------------------------------------------------------------
\* desc: a function from keys to descriptor identities
RECURSIVE D(_, _)
D(t, desc) ==
  IF NodeKind(t) = "leaf" THEN LeafText(t)
  ELSE LET kind == NodeKind(t) name == NodeName(t)
           kids == [i \in 1..Len(NodeKids(t)) |-> D(NodeKids(t)[i], desc)]
           k == Key(kind, name) IN
       IF k \in DOMAIN desc THEN Marker(desc[k], kind, name, kids) ELSE Default(kind, name, kids)

\* ---- machine layer ------------------------------------------------------------------------------
\* store: key -> <<variant, id>> exactly as DescriptorManager keeps it
VARIABLES store, history
dvars == <<store, history>>
DInit == store = <<>> /\ history = <<>>
SetDescriptor(kind, name, id) ==
  /\ store' = (Key(kind, name) :> <<kind, id>>) @@ store
  /\ history' = Append(history, <<kind, name, id>>)
\* get_<kind>_descriptor: build the key, fetch, match the variant, fall back to the kind's default
LookupKey(kind, name) == IF kind = "binary" /\ BinaryKeyIsUnary THEN <<"unary", name>> ELSE Key(kind, name)
Get(kind, name) == LET k == LookupKey(kind, name) IN
                   IF k \in DOMAIN store /\ store[k][1] = kind THEN <<TRUE, store[k][2]>> ELSE <<FALSE, "">>
RECURSIVE Dm(_)
Dm(t) ==
  IF NodeKind(t) = "leaf" THEN LeafText(t)
  ELSE LET kind == NodeKind(t) name == NodeName(t)
           kids == [i \in 1..Len(NodeKids(t)) |-> Dm(NodeKids(t)[i])]
           g == Get(kind, name) IN
       IF g[1] THEN Marker(g[2], kind, name, kids) ELSE Default(kind, name, kids)
\* the abstract descriptor state the store stands for: last registration per key
DescOf(s) == [k \in DOMAIN s |-> s[k][2]]
====
