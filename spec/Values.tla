---- MODULE Values ----
(***************************************************************************)
(* Values of the expression language as tag-first tuples:                  *)
(*   <<"num", neg, mag, scale>>  <<"bool", b>>  <<"str", code points>>      *)
(*   <<"list", vs>>  <<"map", <<k, v>> pairs>>  <<"none">>                  *)
(* VEq is the engine's structural equality: numbers numerically (1.0 =     *)
(* 1.00), everything else by structure, different types never equal.       *)
(***************************************************************************)
EXTENDS Decimal
VNum(d) == <<"num", d.neg, d.mag, d.scale>>
VDec(v) == D(v[2], v[3], v[4])
VInt(n) == VNum(DFromInt(n))
VBool(b) == <<"bool", b>>
VStr(s) == <<"str", s>>
VList(vs) == <<"list", vs>>
VMap(kvs) == <<"map", kvs>>
VNone == <<"none">>
VTag(v) == v[1]
IsNum(v) == v[1] = "num"
RECURSIVE VEq(_, _)
VEq(a, b) ==
  IF a[1] # b[1] THEN FALSE
  ELSE CASE a[1] = "num" -> DEq(VDec(a), VDec(b))
         [] a[1] = "bool" -> a[2] = b[2]
         [] a[1] = "str" -> a[2] = b[2]
         [] a[1] = "list" -> Len(a[2]) = Len(b[2]) /\ \A i \in 1..Len(a[2]) : VEq(a[2][i], b[2][i])
         [] a[1] = "map" -> Len(a[2]) = Len(b[2]) /\ \A i \in 1..Len(a[2]) : VEq(a[2][i][1], b[2][i][1]) /\ VEq(a[2][i][2], b[2][i][2])
         [] OTHER -> TRUE
\* canonical form (numbers without trailing zeros) so that structural equality of canonical values is VEq
RECURSIVE VCanon(_)
VCanon(v) ==
  CASE v[1] = "num" -> VNum(DCanon(VDec(v)))
    [] v[1] = "list" -> <<"list", [i \in 1..Len(v[2]) |-> VCanon(v[2][i])]>>
    [] v[1] = "map" -> <<"map", [i \in 1..Len(v[2]) |-> <<VCanon(v[2][i][1]), VCanon(v[2][i][2])>>]>>
    [] OTHER -> v
====
