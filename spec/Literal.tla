---- MODULE Literal ----
(***************************************************************************)
(* Reference layer for number literals (C09): a literal is digits with at  *)
(* most one decimal point (the tokenizer also swallows e, E and signs      *)
(* after e into the candidate text, which then is not a decimal).  Its     *)
(* value has exactly the mantissa and scale of the digit string.           *)
(***************************************************************************)
EXTENDS Values, Chars, FiniteSets
\* significant digits: from the first non-zero digit to the end (leading zeros, also those behind the point of 0.00..1, do not count)
DigitsOf(cs) == SelectSeq(cs, LAMBDA c : IsDigit(c))
FirstNonZero(ds) == IF \E k \in 1..Len(ds) : ds[k] # 48 THEN CHOOSE k \in 1..Len(ds) : ds[k] # 48 /\ \A j \in 1..(k - 1) : ds[j] = 48 ELSE Len(ds) + 1
SigDigits(cs) == Len(DigitsOf(cs)) - FirstNonZero(DigitsOf(cs)) + 1
LitScaleOf(cs) == IF \E k \in 1..Len(cs) : cs[k] = DOT THEN Len(cs) - (CHOOSE k \in 1..Len(cs) : cs[k] = DOT) ELSE 0
LitVerdict(cs) ==
  IF cs = <<>> \/ ~IsDigit(cs[1]) THEN "err"
  ELSE IF \E k \in 1..Len(cs) : ~(IsDigit(cs[k]) \/ cs[k] = DOT) THEN "err"
  ELSE IF Cardinality({k \in 1..Len(cs) : cs[k] = DOT}) > 1 THEN "err"
  ELSE IF SigDigits(cs) > 28 \/ LitScaleOf(cs) > 28 THEN "dc"      \* beyond "up to 28 significant digits": rounded or refused, not pinned
  ELSE "ok"
RECURSIVE LitMant(_, _, _)
LitMant(cs, k, acc) == IF k > Len(cs) THEN acc
                       ELSE IF cs[k] = DOT THEN LitMant(cs, k + 1, acc)
                       ELSE LitMant(cs, k + 1, BAdd(BMulSmall(acc, 10), IF cs[k] = 48 THEN <<>> ELSE <<cs[k] - 48>>))
LitScale(cs) == IF \E k \in 1..Len(cs) : cs[k] = DOT THEN Len(cs) - (CHOOSE k \in 1..Len(cs) : cs[k] = DOT) ELSE 0
LitValue(cs) == VNum(D(FALSE, LitMant(cs, 1, <<>>), LitScale(cs)))
\* exactly that decimal: digits *and* scale preserved
LitOk(cs, actual) ==
  LET v == LitVerdict(cs) IN
  CASE v = "ok" -> actual[1] = "ok" /\ actual[2][1] = "num" /\ actual[2][2] = FALSE /\ BNorm(actual[2][3]) = LitValue(cs)[3] /\ actual[2][4] = LitScale(cs)
    [] v = "err" -> actual[1] = "err"
    [] v = "dc" -> actual[1] \in {"ok", "err"}
====
