---- MODULE Pratt ----
(***************************************************************************)
(* Machine layer for parsing: src/parser.rs as PlusCal procedures, one     *)
(* label per call site, in the code's order (parse_stmt, parse_expression, *)
(* parse_primary, parse_token with its delimiter / call / prefix branches, *)
(* parse_op with the nesting counter of the repaired engine).              *)
(*                                                                         *)
(* Token source: Lazy = FALSE feeds the token sequence Source(idx) (replay, *)
(* trace validation, sentence families); otherwise the next token is       *)
(* chosen nondeterministically from Alphabet only when the parser looks at *)
(* it, so TLC explores the trie of all token strings up to MaxLen.         *)
(*                                                                         *)
(* Switches reproduce the pinned tree's behaviour for negative controls    *)
(* and for attributing a divergence to a known repair:                     *)
(*   TernaryGate  FALSE: `?` is taken at whatever recursion level meets it *)
(*   NotGate      FALSE: `not` is consumed before looking at the operator  *)
(*   ExpectStrict FALSE: expect() accepts any delimiter/operator/comma     *)
(*   DoubledBP    FALSE: binding powers are p, p+-1 instead of 2p, 2p+-1   *)
(***************************************************************************)
EXTENDS Integers, Sequences, TLC, FiniteSets, OpTable
CONSTANTS Lazy,            \* TRUE: tokens chosen lazily from Alphabet up to MaxLen; FALSE: tokens come from Source(idx)
          MaxLen, Alphabet,
          Source(_),       \* fixed token sources, numbered from 1
          FirstSet,        \* the run starts with idx \in FirstSet
          Chain,           \* TRUE: run Source(idx), Source(idx+1), ... Source(NRuns) one after the other (trace validation);
                           \* FALSE: each behaviour runs exactly one source (families: TLC explores them in parallel)
          NRuns,
          Report(_, _, _, _),   \* evaluated once per run at label Fin with (idx, tokens, ok, tree); must be TRUE (prints as a side effect)
          Table, MaxDepth, TernaryGate, NotGate, ExpectStrict, DoubledBP

EOFTOK == <<"eof", "">>
NOTOK == <<"none", "">>
IsOpTok(t) == t[1] = "op"
IsInfixT(t) == t[1] = "op" /\ IsInfix(Table, t[2])
IsPostfixT(t) == t[1] = "op" /\ IsPostfix(Table, t[2])
IsText(t, k, s) == t[1] = k /\ t[2] = s
LBP(t) == IF IsInfixT(t) THEN LBPd(Table, t[2], DoubledBP) ELSE -1
RBP(t) == IF IsInfixT(t) THEN RBPd(Table, t[2], DoubledBP) ELSE -1
\* Tokenizer::expect: the token must be a delimiter, operator or comma with exactly this text
ExpectOk(t, s) == IF ExpectStrict THEN t[1] \in {"delim", "op", "comma"} /\ t[2] = s
                  ELSE t[1] \in {"delim", "op", "comma"}

(* --algorithm pratt
variables idx \in FirstSet,
          last = IF Chain THEN NRuns ELSE idx,
          consumed = <<>>,   \* tokens the parser has moved past or is looking at (history; hidden by VIEW where only invariants are checked)
          cur = NOTOK,       \* Tokenizer::cur_token
          la = <<>>,         \* one token of look-ahead (Tokenizer::peek), if taken
          ret = <<>>,        \* return value of the last procedure
          err = FALSE,
          etag = "",        \* which Error variant the parser reports (informational: no listed property fixes it)
          result = <<>>,
          done = FALSE,
          depth = 0,         \* Parser::depth
          maxdepth = 0,      \* high-water mark of depth (for DepthBounded)
          steps = 0;         \* token-consuming and call steps (termination as safety)

\* a token of kind "bad" is where Tokenizer::next returns a lexical error: the parse fails there and nothing further is read
define
  HasBad == \E k \in 1..Len(consumed) : consumed[k][1] = "bad"
end define;
macro Fetch(v) begin
  if HasBad \/ (la # <<>> /\ la[1][1] = "bad") then
     v := EOFTOK;
  elsif ~Lazy then
     v := IF Len(consumed) + Len(la) + 1 <= Len(Source(idx)) THEN Source(idx)[Len(consumed) + Len(la) + 1] ELSE EOFTOK;
  elsif Len(consumed) + Len(la) >= MaxLen then
     v := EOFTOK;
  else
     with t \in Alphabet \cup {EOFTOK} do v := t; end with;
  end if;
end macro;

procedure advance()
  variable tk = NOTOK;
begin
Adv:
  steps := steps + 1;
  if la # <<>> then
     cur := la[1]; la := <<>>;
     consumed := Append(consumed, cur);
  else
     Fetch(tk);
     cur := tk;
     consumed := Append(consumed, tk);
  end if;
  if cur[1] = "bad" then err := TRUE; etag := "LexicalError"; end if;
AdvR: return;
end procedure;

procedure peek()
  variable tk = NOTOK;
begin
Pk:
  if la = <<>> then
     Fetch(tk);
     la := <<tk>>;
  end if;
  if la[1][1] = "bad" then err := TRUE; etag := "LexicalError"; end if;
PkR: return;
end procedure;

\* Parser::enter
procedure enter()
begin
En: depth := depth + 1;
    maxdepth := IF depth > maxdepth THEN depth ELSE maxdepth;
    if depth > MaxDepth then err := TRUE; etag := "NestingTooDeep"; end if;
EnR: return;
end procedure;

procedure parse_stmt()
  variable ans = <<>>;
begin
S0: call advance();
S1: while cur # EOFTOK /\ ~err do
      steps := steps + 1;
      call parse_expression();
S2:   if ~err then
        ans := Append(ans, ret);
        if cur[1] = "semi" then call advance(); end if;
      end if;
    end while;
S3: if ~err then result := IF Len(ans) = 1 THEN ans[1] ELSE <<"stmt", ans>>; end if;
    done := TRUE;
    return;
end procedure;

procedure parse_expression()
begin
E0: call parse_primary();
E1: if ~err then call parse_op(0, ret); end if;
E2: return;
end procedure;

procedure parse_primary()
begin
P0: call enter();
P0a: if err then return; end if;
P0b: call parse_token();
P1: if ~err then
       depth := depth - 1;
       if IsPostfixT(cur) then
          ret := <<"post", ret, cur[2]>>;
          call advance();
       end if;
    end if;
P2: return;
end procedure;

procedure parse_token()
  variables items = <<>>, key = <<>>, op = "", name = "";
begin
T0: if cur[1] \in {"num", "str", "bool", "ref"} then
       ret := cur; call advance();
T0r:   return;
    elsif cur[1] = "fun" then
       \* parse_function: next(); expect("("); ...
       name := cur[2];
       call advance();
F1:    if ~ExpectOk(cur, "(") then err := TRUE; etag := "ExpectedOpNotExist"; return; end if;
F2:    call advance();
F3:    if IsText(cur, "delim", ")") then
          ret := <<"call", name, <<>>>>; call advance();
F3r:      return;
       end if;
F4:    steps := steps + 1;
       call parse_expression();
F5:    if err then return; end if;
F6:    items := Append(items, ret);
       if IsText(cur, "delim", ")") then
          ret := <<"call", name, items>>; call advance();
F6r:      return;
       elsif ExpectOk(cur, ",") then
          call advance();
F7:       goto F4;
       else err := TRUE; etag := "ExpectedOpNotExist";
F8:       return;
       end if;
    elsif cur[1] = "op" then
       \* parse_unary: any operator token in prefix position
       op := cur[2]; call advance();
U1:    call parse_primary();
U2:    if ~err then ret := <<"un", op, ret>>; end if;
       return;
    elsif IsText(cur, "delim", "(") then
       call advance();
L1:    call parse_expression();
L2:    if err then return;
       elsif ~IsText(cur, "delim", ")") then err := TRUE; etag := "NoCloseDelim"; return;
       else call advance();
L3:      return;
       end if;
    elsif IsText(cur, "delim", "[") then
       call advance();
B1:    steps := steps + 1;
       if IsText(cur, "delim", "]") \/ cur = EOFTOK then
          \* the loop breaks on `]` or end of input, then expect("]")
          if ExpectOk(cur, "]") then
             ret := <<"list", items>>; call advance();
B1r:         return;
          else err := TRUE; etag := "ExpectedOpNotExist"; return;
          end if;
       end if;
B2:    call parse_expression();
B3:    if err then return; end if;
B4:    items := Append(items, ret);
       if IsText(cur, "delim", "]") then goto B1;
       elsif ExpectOk(cur, ",") then call advance();
B5:       goto B1;
       else err := TRUE; etag := "ExpectedOpNotExist";
B6:       return;
       end if;
    elsif IsText(cur, "delim", "{") then
       call advance();
M1:    steps := steps + 1;
       if IsText(cur, "delim", "}") \/ cur = EOFTOK then
          if ExpectOk(cur, "}") then
             ret := <<"map", items>>; call advance();
M1r:         return;
          else err := TRUE; etag := "ExpectedOpNotExist"; return;
          end if;
       end if;
M2:    call parse_expression();
M3:    if err then return;
       elsif ~ExpectOk(cur, ":") then err := TRUE; etag := "ExpectedOpNotExist"; return;
       else key := ret; call advance();
       end if;
M4:    call parse_expression();
M5:    if err then return; end if;
M6:    items := Append(items, <<key, ret>>);
       if IsText(cur, "delim", "}") then goto M1;
       elsif ExpectOk(cur, ",") then call advance();
M7:       goto M1;
       else err := TRUE; etag := "ExpectedOpNotExist";
M8:       return;
       end if;
    else
       \* closing delimiter, comma, semicolon or end of input where an operand is required
       err := TRUE;
       etag := IF cur = EOFTOK THEN "UnexpectedEOF" ELSE IF cur[1] = "delim" THEN "NoOpenDelim" ELSE "UnexpectedToken";
       return;
    end if;
end procedure;

procedure parse_op(min, lhs)
  variables isnot = FALSE, op = "", rbp = -1, a = <<>>, optok = NOTOK, base = 0, pendingnot = FALSE;
begin
O00: base := depth;
O0: while TRUE do
      steps := steps + 1;
      if ~IsOpTok(cur) then ret := lhs; depth := base; return; end if;
O1:   if IsText(cur, "op", "?") /\ ~(~NotGate /\ pendingnot) then
         if TernaryGate /\ min > 0 then ret := lhs; depth := base; return; end if;
Q0a:     call enter();
Q0b:     if err then return; end if;
Q0:      call advance();
Q1:      call parse_expression();
Q2:      if err then return;
         elsif ~ExpectOk(cur, ":") then err := TRUE; etag := "ExpectedOpNotExist"; return;
         else a := ret; call advance();
         end if;
Q3:      call parse_expression();
Q4:      if ~err then ret := <<"tern", lhs, a, ret>>; depth := base; end if;
         return;
      end if;
O2:   if NotGate then
         \* repaired: look through `not`, decide on the operator's own precedence
         if IsText(cur, "op", "not") then
            call peek();
N1:         if ~IsInfixT(la[1]) then err := TRUE; etag := "ExpectBinOpToken"; return; end if;
N2:         optok := la[1]; isnot := TRUE;
         else
            optok := cur; isnot := FALSE;
         end if;
      else
         \* pinned: consume `not`, require an infix operator, go round the loop again
         if IsText(cur, "op", "not") then
            pendingnot := TRUE;
            call advance();
N3:         if ~IsInfixT(cur) then err := TRUE; etag := "ExpectBinOpToken"; return; end if;
N4:         goto O0;
         else
            optok := cur; isnot := pendingnot;
         end if;
      end if;
O3:   if LBP(optok) < min then ret := lhs; depth := base; return; end if;
O4:   \* `lhs not OP rhs` builds two tree levels (and is rendered as `not (..)`): both count towards the nesting budget
      if NotGate /\ isnot then call enter(); end if;
O4a:  if err then return; end if;
O4b:  if NotGate /\ isnot then call advance(); end if;
O5:   op := cur[2]; rbp := RBP(cur);
      call enter();
O5b:  if err then return; end if;
O5c:  call advance();
O6:   call parse_primary();
O7:   if err then return; end if;
O8:   \* does the right operand extend?  (repaired: look through a `not`)
      if NotGate /\ IsText(cur, "op", "not") then
         call peek();
G1:      optok := la[1];
      else optok := cur;
      end if;
O9:   if IsInfixT(optok) /\ rbp < LBP(optok) then
         call parse_op(rbp, ret);
      end if;
O10:  if err then return; end if;
O11:  lhs := IF isnot THEN <<"un", "not", <<"bin", op, lhs, ret>>>> ELSE <<"bin", op, lhs, ret>>;
      pendingnot := FALSE;
    end while;
end procedure;

process main = 1
begin
D0: while idx <= last do
      consumed := <<>>; cur := NOTOK; la := <<>>; ret := <<>>; err := FALSE; etag := ""; result := <<>>; done := FALSE;
      depth := 0; maxdepth := 0; steps := 0;
M:    call parse_stmt();
Fin:  assert Report(idx, SelectSeq(consumed \o la, LAMBDA x : x # EOFTOK), ~err, IF err THEN <<"error", etag>> ELSE result);
Nxt:  idx := idx + 1;
    end while;
End: skip;
end process;
end algorithm; *)
\* BEGIN TRANSLATION (chksum(pcal) = "2febbc0a" /\ chksum(tla) = "53ecde72")
\* Procedure variable tk of procedure advance at line 75 col 12 changed to tk_
\* Procedure variable op of procedure parse_token at line 152 col 39 changed to op_
CONSTANT defaultInitValue
VARIABLES pc, idx, last, consumed, cur, la, ret, err, etag, result, done, 
          depth, maxdepth, steps, stack

(* define statement *)
HasBad == \E k \in 1..Len(consumed) : consumed[k][1] = "bad"

VARIABLES tk_, tk, ans, items, key, op_, name, min, lhs, isnot, op, rbp, a, 
          optok, base, pendingnot

vars == << pc, idx, last, consumed, cur, la, ret, err, etag, result, done, 
           depth, maxdepth, steps, stack, tk_, tk, ans, items, key, op_, name, 
           min, lhs, isnot, op, rbp, a, optok, base, pendingnot >>

ProcSet == {1}

Init == (* Global variables *)
        /\ idx \in FirstSet
        /\ last = IF Chain THEN NRuns ELSE idx
        /\ consumed = <<>>
        /\ cur = NOTOK
        /\ la = <<>>
        /\ ret = <<>>
        /\ err = FALSE
        /\ etag = ""
        /\ result = <<>>
        /\ done = FALSE
        /\ depth = 0
        /\ maxdepth = 0
        /\ steps = 0
        (* Procedure advance *)
        /\ tk_ = [ self \in ProcSet |-> NOTOK]
        (* Procedure peek *)
        /\ tk = [ self \in ProcSet |-> NOTOK]
        (* Procedure parse_stmt *)
        /\ ans = [ self \in ProcSet |-> <<>>]
        (* Procedure parse_token *)
        /\ items = [ self \in ProcSet |-> <<>>]
        /\ key = [ self \in ProcSet |-> <<>>]
        /\ op_ = [ self \in ProcSet |-> ""]
        /\ name = [ self \in ProcSet |-> ""]
        (* Procedure parse_op *)
        /\ min = [ self \in ProcSet |-> defaultInitValue]
        /\ lhs = [ self \in ProcSet |-> defaultInitValue]
        /\ isnot = [ self \in ProcSet |-> FALSE]
        /\ op = [ self \in ProcSet |-> ""]
        /\ rbp = [ self \in ProcSet |-> -1]
        /\ a = [ self \in ProcSet |-> <<>>]
        /\ optok = [ self \in ProcSet |-> NOTOK]
        /\ base = [ self \in ProcSet |-> 0]
        /\ pendingnot = [ self \in ProcSet |-> FALSE]
        /\ stack = [self \in ProcSet |-> << >>]
        /\ pc = [self \in ProcSet |-> "D0"]

Adv(self) == /\ pc[self] = "Adv"
             /\ steps' = steps + 1
             /\ IF la # <<>>
                   THEN /\ cur' = la[1]
                        /\ la' = <<>>
                        /\ consumed' = Append(consumed, cur')
                        /\ tk_' = tk_
                   ELSE /\ IF HasBad \/ (la # <<>> /\ la[1][1] = "bad")
                              THEN /\ tk_' = [tk_ EXCEPT ![self] = EOFTOK]
                              ELSE /\ IF ~Lazy
                                         THEN /\ tk_' = [tk_ EXCEPT ![self] = IF Len(consumed) + Len(la) + 1 <= Len(Source(idx)) THEN Source(idx)[Len(consumed) + Len(la) + 1] ELSE EOFTOK]
                                         ELSE /\ IF Len(consumed) + Len(la) >= MaxLen
                                                    THEN /\ tk_' = [tk_ EXCEPT ![self] = EOFTOK]
                                                    ELSE /\ \E t \in Alphabet \cup {EOFTOK}:
                                                              tk_' = [tk_ EXCEPT ![self] = t]
                        /\ cur' = tk_'[self]
                        /\ consumed' = Append(consumed, tk_'[self])
                        /\ la' = la
             /\ IF cur'[1] = "bad"
                   THEN /\ err' = TRUE
                        /\ etag' = "LexicalError"
                   ELSE /\ TRUE
                        /\ UNCHANGED << err, etag >>
             /\ pc' = [pc EXCEPT ![self] = "AdvR"]
             /\ UNCHANGED << idx, last, ret, result, done, depth, maxdepth, 
                             stack, tk, ans, items, key, op_, name, min, lhs, 
                             isnot, op, rbp, a, optok, base, pendingnot >>

AdvR(self) == /\ pc[self] = "AdvR"
              /\ pc' = [pc EXCEPT ![self] = Head(stack[self]).pc]
              /\ tk_' = [tk_ EXCEPT ![self] = Head(stack[self]).tk_]
              /\ stack' = [stack EXCEPT ![self] = Tail(stack[self])]
              /\ UNCHANGED << idx, last, consumed, cur, la, ret, err, etag, 
                              result, done, depth, maxdepth, steps, tk, ans, 
                              items, key, op_, name, min, lhs, isnot, op, rbp, 
                              a, optok, base, pendingnot >>

advance(self) == Adv(self) \/ AdvR(self)

Pk(self) == /\ pc[self] = "Pk"
            /\ IF la = <<>>
                  THEN /\ IF HasBad \/ (la # <<>> /\ la[1][1] = "bad")
                             THEN /\ tk' = [tk EXCEPT ![self] = EOFTOK]
                             ELSE /\ IF ~Lazy
                                        THEN /\ tk' = [tk EXCEPT ![self] = IF Len(consumed) + Len(la) + 1 <= Len(Source(idx)) THEN Source(idx)[Len(consumed) + Len(la) + 1] ELSE EOFTOK]
                                        ELSE /\ IF Len(consumed) + Len(la) >= MaxLen
                                                   THEN /\ tk' = [tk EXCEPT ![self] = EOFTOK]
                                                   ELSE /\ \E t \in Alphabet \cup {EOFTOK}:
                                                             tk' = [tk EXCEPT ![self] = t]
                       /\ la' = <<tk'[self]>>
                  ELSE /\ TRUE
                       /\ UNCHANGED << la, tk >>
            /\ IF la'[1][1] = "bad"
                  THEN /\ err' = TRUE
                       /\ etag' = "LexicalError"
                  ELSE /\ TRUE
                       /\ UNCHANGED << err, etag >>
            /\ pc' = [pc EXCEPT ![self] = "PkR"]
            /\ UNCHANGED << idx, last, consumed, cur, ret, result, done, depth, 
                            maxdepth, steps, stack, tk_, ans, items, key, op_, 
                            name, min, lhs, isnot, op, rbp, a, optok, base, 
                            pendingnot >>

PkR(self) == /\ pc[self] = "PkR"
             /\ pc' = [pc EXCEPT ![self] = Head(stack[self]).pc]
             /\ tk' = [tk EXCEPT ![self] = Head(stack[self]).tk]
             /\ stack' = [stack EXCEPT ![self] = Tail(stack[self])]
             /\ UNCHANGED << idx, last, consumed, cur, la, ret, err, etag, 
                             result, done, depth, maxdepth, steps, tk_, ans, 
                             items, key, op_, name, min, lhs, isnot, op, rbp, 
                             a, optok, base, pendingnot >>

peek(self) == Pk(self) \/ PkR(self)

En(self) == /\ pc[self] = "En"
            /\ depth' = depth + 1
            /\ maxdepth' = (IF depth' > maxdepth THEN depth' ELSE maxdepth)
            /\ IF depth' > MaxDepth
                  THEN /\ err' = TRUE
                       /\ etag' = "NestingTooDeep"
                  ELSE /\ TRUE
                       /\ UNCHANGED << err, etag >>
            /\ pc' = [pc EXCEPT ![self] = "EnR"]
            /\ UNCHANGED << idx, last, consumed, cur, la, ret, result, done, 
                            steps, stack, tk_, tk, ans, items, key, op_, name, 
                            min, lhs, isnot, op, rbp, a, optok, base, 
                            pendingnot >>

EnR(self) == /\ pc[self] = "EnR"
             /\ pc' = [pc EXCEPT ![self] = Head(stack[self]).pc]
             /\ stack' = [stack EXCEPT ![self] = Tail(stack[self])]
             /\ UNCHANGED << idx, last, consumed, cur, la, ret, err, etag, 
                             result, done, depth, maxdepth, steps, tk_, tk, 
                             ans, items, key, op_, name, min, lhs, isnot, op, 
                             rbp, a, optok, base, pendingnot >>

enter(self) == En(self) \/ EnR(self)

S0(self) == /\ pc[self] = "S0"
            /\ stack' = [stack EXCEPT ![self] = << [ procedure |->  "advance",
                                                     pc        |->  "S1",
                                                     tk_       |->  tk_[self] ] >>
                                                 \o stack[self]]
            /\ tk_' = [tk_ EXCEPT ![self] = NOTOK]
            /\ pc' = [pc EXCEPT ![self] = "Adv"]
            /\ UNCHANGED << idx, last, consumed, cur, la, ret, err, etag, 
                            result, done, depth, maxdepth, steps, tk, ans, 
                            items, key, op_, name, min, lhs, isnot, op, rbp, a, 
                            optok, base, pendingnot >>

S1(self) == /\ pc[self] = "S1"
            /\ IF cur # EOFTOK /\ ~err
                  THEN /\ steps' = steps + 1
                       /\ stack' = [stack EXCEPT ![self] = << [ procedure |->  "parse_expression",
                                                                pc        |->  "S2" ] >>
                                                            \o stack[self]]
                       /\ pc' = [pc EXCEPT ![self] = "E0"]
                  ELSE /\ pc' = [pc EXCEPT ![self] = "S3"]
                       /\ UNCHANGED << steps, stack >>
            /\ UNCHANGED << idx, last, consumed, cur, la, ret, err, etag, 
                            result, done, depth, maxdepth, tk_, tk, ans, items, 
                            key, op_, name, min, lhs, isnot, op, rbp, a, optok, 
                            base, pendingnot >>

S2(self) == /\ pc[self] = "S2"
            /\ IF ~err
                  THEN /\ ans' = [ans EXCEPT ![self] = Append(ans[self], ret)]
                       /\ IF cur[1] = "semi"
                             THEN /\ stack' = [stack EXCEPT ![self] = << [ procedure |->  "advance",
                                                                           pc        |->  "S1",
                                                                           tk_       |->  tk_[self] ] >>
                                                                       \o stack[self]]
                                  /\ tk_' = [tk_ EXCEPT ![self] = NOTOK]
                                  /\ pc' = [pc EXCEPT ![self] = "Adv"]
                             ELSE /\ pc' = [pc EXCEPT ![self] = "S1"]
                                  /\ UNCHANGED << stack, tk_ >>
                  ELSE /\ pc' = [pc EXCEPT ![self] = "S1"]
                       /\ UNCHANGED << stack, tk_, ans >>
            /\ UNCHANGED << idx, last, consumed, cur, la, ret, err, etag, 
                            result, done, depth, maxdepth, steps, tk, items, 
                            key, op_, name, min, lhs, isnot, op, rbp, a, optok, 
                            base, pendingnot >>

S3(self) == /\ pc[self] = "S3"
            /\ IF ~err
                  THEN /\ result' = (IF Len(ans[self]) = 1 THEN ans[self][1] ELSE <<"stmt", ans[self]>>)
                  ELSE /\ TRUE
                       /\ UNCHANGED result
            /\ done' = TRUE
            /\ pc' = [pc EXCEPT ![self] = Head(stack[self]).pc]
            /\ ans' = [ans EXCEPT ![self] = Head(stack[self]).ans]
            /\ stack' = [stack EXCEPT ![self] = Tail(stack[self])]
            /\ UNCHANGED << idx, last, consumed, cur, la, ret, err, etag, 
                            depth, maxdepth, steps, tk_, tk, items, key, op_, 
                            name, min, lhs, isnot, op, rbp, a, optok, base, 
                            pendingnot >>

parse_stmt(self) == S0(self) \/ S1(self) \/ S2(self) \/ S3(self)

E0(self) == /\ pc[self] = "E0"
            /\ stack' = [stack EXCEPT ![self] = << [ procedure |->  "parse_primary",
                                                     pc        |->  "E1" ] >>
                                                 \o stack[self]]
            /\ pc' = [pc EXCEPT ![self] = "P0"]
            /\ UNCHANGED << idx, last, consumed, cur, la, ret, err, etag, 
                            result, done, depth, maxdepth, steps, tk_, tk, ans, 
                            items, key, op_, name, min, lhs, isnot, op, rbp, a, 
                            optok, base, pendingnot >>

E1(self) == /\ pc[self] = "E1"
            /\ IF ~err
                  THEN /\ /\ lhs' = [lhs EXCEPT ![self] = ret]
                          /\ min' = [min EXCEPT ![self] = 0]
                          /\ stack' = [stack EXCEPT ![self] = << [ procedure |->  "parse_op",
                                                                   pc        |->  "E2",
                                                                   isnot     |->  isnot[self],
                                                                   op        |->  op[self],
                                                                   rbp       |->  rbp[self],
                                                                   a         |->  a[self],
                                                                   optok     |->  optok[self],
                                                                   base      |->  base[self],
                                                                   pendingnot |->  pendingnot[self],
                                                                   min       |->  min[self],
                                                                   lhs       |->  lhs[self] ] >>
                                                               \o stack[self]]
                       /\ isnot' = [isnot EXCEPT ![self] = FALSE]
                       /\ op' = [op EXCEPT ![self] = ""]
                       /\ rbp' = [rbp EXCEPT ![self] = -1]
                       /\ a' = [a EXCEPT ![self] = <<>>]
                       /\ optok' = [optok EXCEPT ![self] = NOTOK]
                       /\ base' = [base EXCEPT ![self] = 0]
                       /\ pendingnot' = [pendingnot EXCEPT ![self] = FALSE]
                       /\ pc' = [pc EXCEPT ![self] = "O00"]
                  ELSE /\ pc' = [pc EXCEPT ![self] = "E2"]
                       /\ UNCHANGED << stack, min, lhs, isnot, op, rbp, a, 
                                       optok, base, pendingnot >>
            /\ UNCHANGED << idx, last, consumed, cur, la, ret, err, etag, 
                            result, done, depth, maxdepth, steps, tk_, tk, ans, 
                            items, key, op_, name >>

E2(self) == /\ pc[self] = "E2"
            /\ pc' = [pc EXCEPT ![self] = Head(stack[self]).pc]
            /\ stack' = [stack EXCEPT ![self] = Tail(stack[self])]
            /\ UNCHANGED << idx, last, consumed, cur, la, ret, err, etag, 
                            result, done, depth, maxdepth, steps, tk_, tk, ans, 
                            items, key, op_, name, min, lhs, isnot, op, rbp, a, 
                            optok, base, pendingnot >>

parse_expression(self) == E0(self) \/ E1(self) \/ E2(self)

P0(self) == /\ pc[self] = "P0"
            /\ stack' = [stack EXCEPT ![self] = << [ procedure |->  "enter",
                                                     pc        |->  "P0a" ] >>
                                                 \o stack[self]]
            /\ pc' = [pc EXCEPT ![self] = "En"]
            /\ UNCHANGED << idx, last, consumed, cur, la, ret, err, etag, 
                            result, done, depth, maxdepth, steps, tk_, tk, ans, 
                            items, key, op_, name, min, lhs, isnot, op, rbp, a, 
                            optok, base, pendingnot >>

P0a(self) == /\ pc[self] = "P0a"
             /\ IF err
                   THEN /\ pc' = [pc EXCEPT ![self] = Head(stack[self]).pc]
                        /\ stack' = [stack EXCEPT ![self] = Tail(stack[self])]
                   ELSE /\ pc' = [pc EXCEPT ![self] = "P0b"]
                        /\ stack' = stack
             /\ UNCHANGED << idx, last, consumed, cur, la, ret, err, etag, 
                             result, done, depth, maxdepth, steps, tk_, tk, 
                             ans, items, key, op_, name, min, lhs, isnot, op, 
                             rbp, a, optok, base, pendingnot >>

P0b(self) == /\ pc[self] = "P0b"
             /\ stack' = [stack EXCEPT ![self] = << [ procedure |->  "parse_token",
                                                      pc        |->  "P1",
                                                      items     |->  items[self],
                                                      key       |->  key[self],
                                                      op_       |->  op_[self],
                                                      name      |->  name[self] ] >>
                                                  \o stack[self]]
             /\ items' = [items EXCEPT ![self] = <<>>]
             /\ key' = [key EXCEPT ![self] = <<>>]
             /\ op_' = [op_ EXCEPT ![self] = ""]
             /\ name' = [name EXCEPT ![self] = ""]
             /\ pc' = [pc EXCEPT ![self] = "T0"]
             /\ UNCHANGED << idx, last, consumed, cur, la, ret, err, etag, 
                             result, done, depth, maxdepth, steps, tk_, tk, 
                             ans, min, lhs, isnot, op, rbp, a, optok, base, 
                             pendingnot >>

P1(self) == /\ pc[self] = "P1"
            /\ IF ~err
                  THEN /\ depth' = depth - 1
                       /\ IF IsPostfixT(cur)
                             THEN /\ ret' = <<"post", ret, cur[2]>>
                                  /\ stack' = [stack EXCEPT ![self] = << [ procedure |->  "advance",
                                                                           pc        |->  "P2",
                                                                           tk_       |->  tk_[self] ] >>
                                                                       \o stack[self]]
                                  /\ tk_' = [tk_ EXCEPT ![self] = NOTOK]
                                  /\ pc' = [pc EXCEPT ![self] = "Adv"]
                             ELSE /\ pc' = [pc EXCEPT ![self] = "P2"]
                                  /\ UNCHANGED << ret, stack, tk_ >>
                  ELSE /\ pc' = [pc EXCEPT ![self] = "P2"]
                       /\ UNCHANGED << ret, depth, stack, tk_ >>
            /\ UNCHANGED << idx, last, consumed, cur, la, err, etag, result, 
                            done, maxdepth, steps, tk, ans, items, key, op_, 
                            name, min, lhs, isnot, op, rbp, a, optok, base, 
                            pendingnot >>

P2(self) == /\ pc[self] = "P2"
            /\ pc' = [pc EXCEPT ![self] = Head(stack[self]).pc]
            /\ stack' = [stack EXCEPT ![self] = Tail(stack[self])]
            /\ UNCHANGED << idx, last, consumed, cur, la, ret, err, etag, 
                            result, done, depth, maxdepth, steps, tk_, tk, ans, 
                            items, key, op_, name, min, lhs, isnot, op, rbp, a, 
                            optok, base, pendingnot >>

parse_primary(self) == P0(self) \/ P0a(self) \/ P0b(self) \/ P1(self)
                          \/ P2(self)

T0(self) == /\ pc[self] = "T0"
            /\ IF cur[1] \in {"num", "str", "bool", "ref"}
                  THEN /\ ret' = cur
                       /\ stack' = [stack EXCEPT ![self] = << [ procedure |->  "advance",
                                                                pc        |->  "T0r",
                                                                tk_       |->  tk_[self] ] >>
                                                            \o stack[self]]
                       /\ tk_' = [tk_ EXCEPT ![self] = NOTOK]
                       /\ pc' = [pc EXCEPT ![self] = "Adv"]
                       /\ UNCHANGED << err, etag, items, key, op_, name >>
                  ELSE /\ IF cur[1] = "fun"
                             THEN /\ name' = [name EXCEPT ![self] = cur[2]]
                                  /\ stack' = [stack EXCEPT ![self] = << [ procedure |->  "advance",
                                                                           pc        |->  "F1",
                                                                           tk_       |->  tk_[self] ] >>
                                                                       \o stack[self]]
                                  /\ tk_' = [tk_ EXCEPT ![self] = NOTOK]
                                  /\ pc' = [pc EXCEPT ![self] = "Adv"]
                                  /\ UNCHANGED << err, etag, items, key, op_ >>
                             ELSE /\ IF cur[1] = "op"
                                        THEN /\ op_' = [op_ EXCEPT ![self] = cur[2]]
                                             /\ stack' = [stack EXCEPT ![self] = << [ procedure |->  "advance",
                                                                                      pc        |->  "U1",
                                                                                      tk_       |->  tk_[self] ] >>
                                                                                  \o stack[self]]
                                             /\ tk_' = [tk_ EXCEPT ![self] = NOTOK]
                                             /\ pc' = [pc EXCEPT ![self] = "Adv"]
                                             /\ UNCHANGED << err, etag, items, 
                                                             key, name >>
                                        ELSE /\ IF IsText(cur, "delim", "(")
                                                   THEN /\ stack' = [stack EXCEPT ![self] = << [ procedure |->  "advance",
                                                                                                 pc        |->  "L1",
                                                                                                 tk_       |->  tk_[self] ] >>
                                                                                             \o stack[self]]
                                                        /\ tk_' = [tk_ EXCEPT ![self] = NOTOK]
                                                        /\ pc' = [pc EXCEPT ![self] = "Adv"]
                                                        /\ UNCHANGED << err, 
                                                                        etag, 
                                                                        items, 
                                                                        key, 
                                                                        op_, 
                                                                        name >>
                                                   ELSE /\ IF IsText(cur, "delim", "[")
                                                              THEN /\ stack' = [stack EXCEPT ![self] = << [ procedure |->  "advance",
                                                                                                            pc        |->  "B1",
                                                                                                            tk_       |->  tk_[self] ] >>
                                                                                                        \o stack[self]]
                                                                   /\ tk_' = [tk_ EXCEPT ![self] = NOTOK]
                                                                   /\ pc' = [pc EXCEPT ![self] = "Adv"]
                                                                   /\ UNCHANGED << err, 
                                                                                   etag, 
                                                                                   items, 
                                                                                   key, 
                                                                                   op_, 
                                                                                   name >>
                                                              ELSE /\ IF IsText(cur, "delim", "{")
                                                                         THEN /\ stack' = [stack EXCEPT ![self] = << [ procedure |->  "advance",
                                                                                                                       pc        |->  "M1",
                                                                                                                       tk_       |->  tk_[self] ] >>
                                                                                                                   \o stack[self]]
                                                                              /\ tk_' = [tk_ EXCEPT ![self] = NOTOK]
                                                                              /\ pc' = [pc EXCEPT ![self] = "Adv"]
                                                                              /\ UNCHANGED << err, 
                                                                                              etag, 
                                                                                              items, 
                                                                                              key, 
                                                                                              op_, 
                                                                                              name >>
                                                                         ELSE /\ err' = TRUE
                                                                              /\ etag' = (IF cur = EOFTOK THEN "UnexpectedEOF" ELSE IF cur[1] = "delim" THEN "NoOpenDelim" ELSE "UnexpectedToken")
                                                                              /\ pc' = [pc EXCEPT ![self] = Head(stack[self]).pc]
                                                                              /\ items' = [items EXCEPT ![self] = Head(stack[self]).items]
                                                                              /\ key' = [key EXCEPT ![self] = Head(stack[self]).key]
                                                                              /\ op_' = [op_ EXCEPT ![self] = Head(stack[self]).op_]
                                                                              /\ name' = [name EXCEPT ![self] = Head(stack[self]).name]
                                                                              /\ stack' = [stack EXCEPT ![self] = Tail(stack[self])]
                                                                              /\ tk_' = tk_
                       /\ ret' = ret
            /\ UNCHANGED << idx, last, consumed, cur, la, result, done, depth, 
                            maxdepth, steps, tk, ans, min, lhs, isnot, op, rbp, 
                            a, optok, base, pendingnot >>

T0r(self) == /\ pc[self] = "T0r"
             /\ pc' = [pc EXCEPT ![self] = Head(stack[self]).pc]
             /\ items' = [items EXCEPT ![self] = Head(stack[self]).items]
             /\ key' = [key EXCEPT ![self] = Head(stack[self]).key]
             /\ op_' = [op_ EXCEPT ![self] = Head(stack[self]).op_]
             /\ name' = [name EXCEPT ![self] = Head(stack[self]).name]
             /\ stack' = [stack EXCEPT ![self] = Tail(stack[self])]
             /\ UNCHANGED << idx, last, consumed, cur, la, ret, err, etag, 
                             result, done, depth, maxdepth, steps, tk_, tk, 
                             ans, min, lhs, isnot, op, rbp, a, optok, base, 
                             pendingnot >>

F1(self) == /\ pc[self] = "F1"
            /\ IF ~ExpectOk(cur, "(")
                  THEN /\ err' = TRUE
                       /\ etag' = "ExpectedOpNotExist"
                       /\ pc' = [pc EXCEPT ![self] = Head(stack[self]).pc]
                       /\ items' = [items EXCEPT ![self] = Head(stack[self]).items]
                       /\ key' = [key EXCEPT ![self] = Head(stack[self]).key]
                       /\ op_' = [op_ EXCEPT ![self] = Head(stack[self]).op_]
                       /\ name' = [name EXCEPT ![self] = Head(stack[self]).name]
                       /\ stack' = [stack EXCEPT ![self] = Tail(stack[self])]
                  ELSE /\ pc' = [pc EXCEPT ![self] = "F2"]
                       /\ UNCHANGED << err, etag, stack, items, key, op_, name >>
            /\ UNCHANGED << idx, last, consumed, cur, la, ret, result, done, 
                            depth, maxdepth, steps, tk_, tk, ans, min, lhs, 
                            isnot, op, rbp, a, optok, base, pendingnot >>

F2(self) == /\ pc[self] = "F2"
            /\ stack' = [stack EXCEPT ![self] = << [ procedure |->  "advance",
                                                     pc        |->  "F3",
                                                     tk_       |->  tk_[self] ] >>
                                                 \o stack[self]]
            /\ tk_' = [tk_ EXCEPT ![self] = NOTOK]
            /\ pc' = [pc EXCEPT ![self] = "Adv"]
            /\ UNCHANGED << idx, last, consumed, cur, la, ret, err, etag, 
                            result, done, depth, maxdepth, steps, tk, ans, 
                            items, key, op_, name, min, lhs, isnot, op, rbp, a, 
                            optok, base, pendingnot >>

F3(self) == /\ pc[self] = "F3"
            /\ IF IsText(cur, "delim", ")")
                  THEN /\ ret' = <<"call", name[self], <<>>>>
                       /\ stack' = [stack EXCEPT ![self] = << [ procedure |->  "advance",
                                                                pc        |->  "F3r",
                                                                tk_       |->  tk_[self] ] >>
                                                            \o stack[self]]
                       /\ tk_' = [tk_ EXCEPT ![self] = NOTOK]
                       /\ pc' = [pc EXCEPT ![self] = "Adv"]
                  ELSE /\ pc' = [pc EXCEPT ![self] = "F4"]
                       /\ UNCHANGED << ret, stack, tk_ >>
            /\ UNCHANGED << idx, last, consumed, cur, la, err, etag, result, 
                            done, depth, maxdepth, steps, tk, ans, items, key, 
                            op_, name, min, lhs, isnot, op, rbp, a, optok, 
                            base, pendingnot >>

F3r(self) == /\ pc[self] = "F3r"
             /\ pc' = [pc EXCEPT ![self] = Head(stack[self]).pc]
             /\ items' = [items EXCEPT ![self] = Head(stack[self]).items]
             /\ key' = [key EXCEPT ![self] = Head(stack[self]).key]
             /\ op_' = [op_ EXCEPT ![self] = Head(stack[self]).op_]
             /\ name' = [name EXCEPT ![self] = Head(stack[self]).name]
             /\ stack' = [stack EXCEPT ![self] = Tail(stack[self])]
             /\ UNCHANGED << idx, last, consumed, cur, la, ret, err, etag, 
                             result, done, depth, maxdepth, steps, tk_, tk, 
                             ans, min, lhs, isnot, op, rbp, a, optok, base, 
                             pendingnot >>

F4(self) == /\ pc[self] = "F4"
            /\ steps' = steps + 1
            /\ stack' = [stack EXCEPT ![self] = << [ procedure |->  "parse_expression",
                                                     pc        |->  "F5" ] >>
                                                 \o stack[self]]
            /\ pc' = [pc EXCEPT ![self] = "E0"]
            /\ UNCHANGED << idx, last, consumed, cur, la, ret, err, etag, 
                            result, done, depth, maxdepth, tk_, tk, ans, items, 
                            key, op_, name, min, lhs, isnot, op, rbp, a, optok, 
                            base, pendingnot >>

F5(self) == /\ pc[self] = "F5"
            /\ IF err
                  THEN /\ pc' = [pc EXCEPT ![self] = Head(stack[self]).pc]
                       /\ items' = [items EXCEPT ![self] = Head(stack[self]).items]
                       /\ key' = [key EXCEPT ![self] = Head(stack[self]).key]
                       /\ op_' = [op_ EXCEPT ![self] = Head(stack[self]).op_]
                       /\ name' = [name EXCEPT ![self] = Head(stack[self]).name]
                       /\ stack' = [stack EXCEPT ![self] = Tail(stack[self])]
                  ELSE /\ pc' = [pc EXCEPT ![self] = "F6"]
                       /\ UNCHANGED << stack, items, key, op_, name >>
            /\ UNCHANGED << idx, last, consumed, cur, la, ret, err, etag, 
                            result, done, depth, maxdepth, steps, tk_, tk, ans, 
                            min, lhs, isnot, op, rbp, a, optok, base, 
                            pendingnot >>

F6(self) == /\ pc[self] = "F6"
            /\ items' = [items EXCEPT ![self] = Append(items[self], ret)]
            /\ IF IsText(cur, "delim", ")")
                  THEN /\ ret' = <<"call", name[self], items'[self]>>
                       /\ stack' = [stack EXCEPT ![self] = << [ procedure |->  "advance",
                                                                pc        |->  "F6r",
                                                                tk_       |->  tk_[self] ] >>
                                                            \o stack[self]]
                       /\ tk_' = [tk_ EXCEPT ![self] = NOTOK]
                       /\ pc' = [pc EXCEPT ![self] = "Adv"]
                       /\ UNCHANGED << err, etag >>
                  ELSE /\ IF ExpectOk(cur, ",")
                             THEN /\ stack' = [stack EXCEPT ![self] = << [ procedure |->  "advance",
                                                                           pc        |->  "F7",
                                                                           tk_       |->  tk_[self] ] >>
                                                                       \o stack[self]]
                                  /\ tk_' = [tk_ EXCEPT ![self] = NOTOK]
                                  /\ pc' = [pc EXCEPT ![self] = "Adv"]
                                  /\ UNCHANGED << err, etag >>
                             ELSE /\ err' = TRUE
                                  /\ etag' = "ExpectedOpNotExist"
                                  /\ pc' = [pc EXCEPT ![self] = "F8"]
                                  /\ UNCHANGED << stack, tk_ >>
                       /\ ret' = ret
            /\ UNCHANGED << idx, last, consumed, cur, la, result, done, depth, 
                            maxdepth, steps, tk, ans, key, op_, name, min, lhs, 
                            isnot, op, rbp, a, optok, base, pendingnot >>

F6r(self) == /\ pc[self] = "F6r"
             /\ pc' = [pc EXCEPT ![self] = Head(stack[self]).pc]
             /\ items' = [items EXCEPT ![self] = Head(stack[self]).items]
             /\ key' = [key EXCEPT ![self] = Head(stack[self]).key]
             /\ op_' = [op_ EXCEPT ![self] = Head(stack[self]).op_]
             /\ name' = [name EXCEPT ![self] = Head(stack[self]).name]
             /\ stack' = [stack EXCEPT ![self] = Tail(stack[self])]
             /\ UNCHANGED << idx, last, consumed, cur, la, ret, err, etag, 
                             result, done, depth, maxdepth, steps, tk_, tk, 
                             ans, min, lhs, isnot, op, rbp, a, optok, base, 
                             pendingnot >>

F7(self) == /\ pc[self] = "F7"
            /\ pc' = [pc EXCEPT ![self] = "F4"]
            /\ UNCHANGED << idx, last, consumed, cur, la, ret, err, etag, 
                            result, done, depth, maxdepth, steps, stack, tk_, 
                            tk, ans, items, key, op_, name, min, lhs, isnot, 
                            op, rbp, a, optok, base, pendingnot >>

F8(self) == /\ pc[self] = "F8"
            /\ pc' = [pc EXCEPT ![self] = Head(stack[self]).pc]
            /\ items' = [items EXCEPT ![self] = Head(stack[self]).items]
            /\ key' = [key EXCEPT ![self] = Head(stack[self]).key]
            /\ op_' = [op_ EXCEPT ![self] = Head(stack[self]).op_]
            /\ name' = [name EXCEPT ![self] = Head(stack[self]).name]
            /\ stack' = [stack EXCEPT ![self] = Tail(stack[self])]
            /\ UNCHANGED << idx, last, consumed, cur, la, ret, err, etag, 
                            result, done, depth, maxdepth, steps, tk_, tk, ans, 
                            min, lhs, isnot, op, rbp, a, optok, base, 
                            pendingnot >>

U1(self) == /\ pc[self] = "U1"
            /\ stack' = [stack EXCEPT ![self] = << [ procedure |->  "parse_primary",
                                                     pc        |->  "U2" ] >>
                                                 \o stack[self]]
            /\ pc' = [pc EXCEPT ![self] = "P0"]
            /\ UNCHANGED << idx, last, consumed, cur, la, ret, err, etag, 
                            result, done, depth, maxdepth, steps, tk_, tk, ans, 
                            items, key, op_, name, min, lhs, isnot, op, rbp, a, 
                            optok, base, pendingnot >>

U2(self) == /\ pc[self] = "U2"
            /\ IF ~err
                  THEN /\ ret' = <<"un", op_[self], ret>>
                  ELSE /\ TRUE
                       /\ ret' = ret
            /\ pc' = [pc EXCEPT ![self] = Head(stack[self]).pc]
            /\ items' = [items EXCEPT ![self] = Head(stack[self]).items]
            /\ key' = [key EXCEPT ![self] = Head(stack[self]).key]
            /\ op_' = [op_ EXCEPT ![self] = Head(stack[self]).op_]
            /\ name' = [name EXCEPT ![self] = Head(stack[self]).name]
            /\ stack' = [stack EXCEPT ![self] = Tail(stack[self])]
            /\ UNCHANGED << idx, last, consumed, cur, la, err, etag, result, 
                            done, depth, maxdepth, steps, tk_, tk, ans, min, 
                            lhs, isnot, op, rbp, a, optok, base, pendingnot >>

L1(self) == /\ pc[self] = "L1"
            /\ stack' = [stack EXCEPT ![self] = << [ procedure |->  "parse_expression",
                                                     pc        |->  "L2" ] >>
                                                 \o stack[self]]
            /\ pc' = [pc EXCEPT ![self] = "E0"]
            /\ UNCHANGED << idx, last, consumed, cur, la, ret, err, etag, 
                            result, done, depth, maxdepth, steps, tk_, tk, ans, 
                            items, key, op_, name, min, lhs, isnot, op, rbp, a, 
                            optok, base, pendingnot >>

L2(self) == /\ pc[self] = "L2"
            /\ IF err
                  THEN /\ pc' = [pc EXCEPT ![self] = Head(stack[self]).pc]
                       /\ items' = [items EXCEPT ![self] = Head(stack[self]).items]
                       /\ key' = [key EXCEPT ![self] = Head(stack[self]).key]
                       /\ op_' = [op_ EXCEPT ![self] = Head(stack[self]).op_]
                       /\ name' = [name EXCEPT ![self] = Head(stack[self]).name]
                       /\ stack' = [stack EXCEPT ![self] = Tail(stack[self])]
                       /\ UNCHANGED << err, etag, tk_ >>
                  ELSE /\ IF ~IsText(cur, "delim", ")")
                             THEN /\ err' = TRUE
                                  /\ etag' = "NoCloseDelim"
                                  /\ pc' = [pc EXCEPT ![self] = Head(stack[self]).pc]
                                  /\ items' = [items EXCEPT ![self] = Head(stack[self]).items]
                                  /\ key' = [key EXCEPT ![self] = Head(stack[self]).key]
                                  /\ op_' = [op_ EXCEPT ![self] = Head(stack[self]).op_]
                                  /\ name' = [name EXCEPT ![self] = Head(stack[self]).name]
                                  /\ stack' = [stack EXCEPT ![self] = Tail(stack[self])]
                                  /\ tk_' = tk_
                             ELSE /\ stack' = [stack EXCEPT ![self] = << [ procedure |->  "advance",
                                                                           pc        |->  "L3",
                                                                           tk_       |->  tk_[self] ] >>
                                                                       \o stack[self]]
                                  /\ tk_' = [tk_ EXCEPT ![self] = NOTOK]
                                  /\ pc' = [pc EXCEPT ![self] = "Adv"]
                                  /\ UNCHANGED << err, etag, items, key, op_, 
                                                  name >>
            /\ UNCHANGED << idx, last, consumed, cur, la, ret, result, done, 
                            depth, maxdepth, steps, tk, ans, min, lhs, isnot, 
                            op, rbp, a, optok, base, pendingnot >>

L3(self) == /\ pc[self] = "L3"
            /\ pc' = [pc EXCEPT ![self] = Head(stack[self]).pc]
            /\ items' = [items EXCEPT ![self] = Head(stack[self]).items]
            /\ key' = [key EXCEPT ![self] = Head(stack[self]).key]
            /\ op_' = [op_ EXCEPT ![self] = Head(stack[self]).op_]
            /\ name' = [name EXCEPT ![self] = Head(stack[self]).name]
            /\ stack' = [stack EXCEPT ![self] = Tail(stack[self])]
            /\ UNCHANGED << idx, last, consumed, cur, la, ret, err, etag, 
                            result, done, depth, maxdepth, steps, tk_, tk, ans, 
                            min, lhs, isnot, op, rbp, a, optok, base, 
                            pendingnot >>

B1(self) == /\ pc[self] = "B1"
            /\ steps' = steps + 1
            /\ IF IsText(cur, "delim", "]") \/ cur = EOFTOK
                  THEN /\ IF ExpectOk(cur, "]")
                             THEN /\ ret' = <<"list", items[self]>>
                                  /\ stack' = [stack EXCEPT ![self] = << [ procedure |->  "advance",
                                                                           pc        |->  "B1r",
                                                                           tk_       |->  tk_[self] ] >>
                                                                       \o stack[self]]
                                  /\ tk_' = [tk_ EXCEPT ![self] = NOTOK]
                                  /\ pc' = [pc EXCEPT ![self] = "Adv"]
                                  /\ UNCHANGED << err, etag, items, key, op_, 
                                                  name >>
                             ELSE /\ err' = TRUE
                                  /\ etag' = "ExpectedOpNotExist"
                                  /\ pc' = [pc EXCEPT ![self] = Head(stack[self]).pc]
                                  /\ items' = [items EXCEPT ![self] = Head(stack[self]).items]
                                  /\ key' = [key EXCEPT ![self] = Head(stack[self]).key]
                                  /\ op_' = [op_ EXCEPT ![self] = Head(stack[self]).op_]
                                  /\ name' = [name EXCEPT ![self] = Head(stack[self]).name]
                                  /\ stack' = [stack EXCEPT ![self] = Tail(stack[self])]
                                  /\ UNCHANGED << ret, tk_ >>
                  ELSE /\ pc' = [pc EXCEPT ![self] = "B2"]
                       /\ UNCHANGED << ret, err, etag, stack, tk_, items, key, 
                                       op_, name >>
            /\ UNCHANGED << idx, last, consumed, cur, la, result, done, depth, 
                            maxdepth, tk, ans, min, lhs, isnot, op, rbp, a, 
                            optok, base, pendingnot >>

B1r(self) == /\ pc[self] = "B1r"
             /\ pc' = [pc EXCEPT ![self] = Head(stack[self]).pc]
             /\ items' = [items EXCEPT ![self] = Head(stack[self]).items]
             /\ key' = [key EXCEPT ![self] = Head(stack[self]).key]
             /\ op_' = [op_ EXCEPT ![self] = Head(stack[self]).op_]
             /\ name' = [name EXCEPT ![self] = Head(stack[self]).name]
             /\ stack' = [stack EXCEPT ![self] = Tail(stack[self])]
             /\ UNCHANGED << idx, last, consumed, cur, la, ret, err, etag, 
                             result, done, depth, maxdepth, steps, tk_, tk, 
                             ans, min, lhs, isnot, op, rbp, a, optok, base, 
                             pendingnot >>

B2(self) == /\ pc[self] = "B2"
            /\ stack' = [stack EXCEPT ![self] = << [ procedure |->  "parse_expression",
                                                     pc        |->  "B3" ] >>
                                                 \o stack[self]]
            /\ pc' = [pc EXCEPT ![self] = "E0"]
            /\ UNCHANGED << idx, last, consumed, cur, la, ret, err, etag, 
                            result, done, depth, maxdepth, steps, tk_, tk, ans, 
                            items, key, op_, name, min, lhs, isnot, op, rbp, a, 
                            optok, base, pendingnot >>

B3(self) == /\ pc[self] = "B3"
            /\ IF err
                  THEN /\ pc' = [pc EXCEPT ![self] = Head(stack[self]).pc]
                       /\ items' = [items EXCEPT ![self] = Head(stack[self]).items]
                       /\ key' = [key EXCEPT ![self] = Head(stack[self]).key]
                       /\ op_' = [op_ EXCEPT ![self] = Head(stack[self]).op_]
                       /\ name' = [name EXCEPT ![self] = Head(stack[self]).name]
                       /\ stack' = [stack EXCEPT ![self] = Tail(stack[self])]
                  ELSE /\ pc' = [pc EXCEPT ![self] = "B4"]
                       /\ UNCHANGED << stack, items, key, op_, name >>
            /\ UNCHANGED << idx, last, consumed, cur, la, ret, err, etag, 
                            result, done, depth, maxdepth, steps, tk_, tk, ans, 
                            min, lhs, isnot, op, rbp, a, optok, base, 
                            pendingnot >>

B4(self) == /\ pc[self] = "B4"
            /\ items' = [items EXCEPT ![self] = Append(items[self], ret)]
            /\ IF IsText(cur, "delim", "]")
                  THEN /\ pc' = [pc EXCEPT ![self] = "B1"]
                       /\ UNCHANGED << err, etag, stack, tk_ >>
                  ELSE /\ IF ExpectOk(cur, ",")
                             THEN /\ stack' = [stack EXCEPT ![self] = << [ procedure |->  "advance",
                                                                           pc        |->  "B5",
                                                                           tk_       |->  tk_[self] ] >>
                                                                       \o stack[self]]
                                  /\ tk_' = [tk_ EXCEPT ![self] = NOTOK]
                                  /\ pc' = [pc EXCEPT ![self] = "Adv"]
                                  /\ UNCHANGED << err, etag >>
                             ELSE /\ err' = TRUE
                                  /\ etag' = "ExpectedOpNotExist"
                                  /\ pc' = [pc EXCEPT ![self] = "B6"]
                                  /\ UNCHANGED << stack, tk_ >>
            /\ UNCHANGED << idx, last, consumed, cur, la, ret, result, done, 
                            depth, maxdepth, steps, tk, ans, key, op_, name, 
                            min, lhs, isnot, op, rbp, a, optok, base, 
                            pendingnot >>

B5(self) == /\ pc[self] = "B5"
            /\ pc' = [pc EXCEPT ![self] = "B1"]
            /\ UNCHANGED << idx, last, consumed, cur, la, ret, err, etag, 
                            result, done, depth, maxdepth, steps, stack, tk_, 
                            tk, ans, items, key, op_, name, min, lhs, isnot, 
                            op, rbp, a, optok, base, pendingnot >>

B6(self) == /\ pc[self] = "B6"
            /\ pc' = [pc EXCEPT ![self] = Head(stack[self]).pc]
            /\ items' = [items EXCEPT ![self] = Head(stack[self]).items]
            /\ key' = [key EXCEPT ![self] = Head(stack[self]).key]
            /\ op_' = [op_ EXCEPT ![self] = Head(stack[self]).op_]
            /\ name' = [name EXCEPT ![self] = Head(stack[self]).name]
            /\ stack' = [stack EXCEPT ![self] = Tail(stack[self])]
            /\ UNCHANGED << idx, last, consumed, cur, la, ret, err, etag, 
                            result, done, depth, maxdepth, steps, tk_, tk, ans, 
                            min, lhs, isnot, op, rbp, a, optok, base, 
                            pendingnot >>

M1(self) == /\ pc[self] = "M1"
            /\ steps' = steps + 1
            /\ IF IsText(cur, "delim", "}") \/ cur = EOFTOK
                  THEN /\ IF ExpectOk(cur, "}")
                             THEN /\ ret' = <<"map", items[self]>>
                                  /\ stack' = [stack EXCEPT ![self] = << [ procedure |->  "advance",
                                                                           pc        |->  "M1r",
                                                                           tk_       |->  tk_[self] ] >>
                                                                       \o stack[self]]
                                  /\ tk_' = [tk_ EXCEPT ![self] = NOTOK]
                                  /\ pc' = [pc EXCEPT ![self] = "Adv"]
                                  /\ UNCHANGED << err, etag, items, key, op_, 
                                                  name >>
                             ELSE /\ err' = TRUE
                                  /\ etag' = "ExpectedOpNotExist"
                                  /\ pc' = [pc EXCEPT ![self] = Head(stack[self]).pc]
                                  /\ items' = [items EXCEPT ![self] = Head(stack[self]).items]
                                  /\ key' = [key EXCEPT ![self] = Head(stack[self]).key]
                                  /\ op_' = [op_ EXCEPT ![self] = Head(stack[self]).op_]
                                  /\ name' = [name EXCEPT ![self] = Head(stack[self]).name]
                                  /\ stack' = [stack EXCEPT ![self] = Tail(stack[self])]
                                  /\ UNCHANGED << ret, tk_ >>
                  ELSE /\ pc' = [pc EXCEPT ![self] = "M2"]
                       /\ UNCHANGED << ret, err, etag, stack, tk_, items, key, 
                                       op_, name >>
            /\ UNCHANGED << idx, last, consumed, cur, la, result, done, depth, 
                            maxdepth, tk, ans, min, lhs, isnot, op, rbp, a, 
                            optok, base, pendingnot >>

M1r(self) == /\ pc[self] = "M1r"
             /\ pc' = [pc EXCEPT ![self] = Head(stack[self]).pc]
             /\ items' = [items EXCEPT ![self] = Head(stack[self]).items]
             /\ key' = [key EXCEPT ![self] = Head(stack[self]).key]
             /\ op_' = [op_ EXCEPT ![self] = Head(stack[self]).op_]
             /\ name' = [name EXCEPT ![self] = Head(stack[self]).name]
             /\ stack' = [stack EXCEPT ![self] = Tail(stack[self])]
             /\ UNCHANGED << idx, last, consumed, cur, la, ret, err, etag, 
                             result, done, depth, maxdepth, steps, tk_, tk, 
                             ans, min, lhs, isnot, op, rbp, a, optok, base, 
                             pendingnot >>

M2(self) == /\ pc[self] = "M2"
            /\ stack' = [stack EXCEPT ![self] = << [ procedure |->  "parse_expression",
                                                     pc        |->  "M3" ] >>
                                                 \o stack[self]]
            /\ pc' = [pc EXCEPT ![self] = "E0"]
            /\ UNCHANGED << idx, last, consumed, cur, la, ret, err, etag, 
                            result, done, depth, maxdepth, steps, tk_, tk, ans, 
                            items, key, op_, name, min, lhs, isnot, op, rbp, a, 
                            optok, base, pendingnot >>

M3(self) == /\ pc[self] = "M3"
            /\ IF err
                  THEN /\ pc' = [pc EXCEPT ![self] = Head(stack[self]).pc]
                       /\ items' = [items EXCEPT ![self] = Head(stack[self]).items]
                       /\ key' = [key EXCEPT ![self] = Head(stack[self]).key]
                       /\ op_' = [op_ EXCEPT ![self] = Head(stack[self]).op_]
                       /\ name' = [name EXCEPT ![self] = Head(stack[self]).name]
                       /\ stack' = [stack EXCEPT ![self] = Tail(stack[self])]
                       /\ UNCHANGED << err, etag, tk_ >>
                  ELSE /\ IF ~ExpectOk(cur, ":")
                             THEN /\ err' = TRUE
                                  /\ etag' = "ExpectedOpNotExist"
                                  /\ pc' = [pc EXCEPT ![self] = Head(stack[self]).pc]
                                  /\ items' = [items EXCEPT ![self] = Head(stack[self]).items]
                                  /\ key' = [key EXCEPT ![self] = Head(stack[self]).key]
                                  /\ op_' = [op_ EXCEPT ![self] = Head(stack[self]).op_]
                                  /\ name' = [name EXCEPT ![self] = Head(stack[self]).name]
                                  /\ stack' = [stack EXCEPT ![self] = Tail(stack[self])]
                                  /\ tk_' = tk_
                             ELSE /\ key' = [key EXCEPT ![self] = ret]
                                  /\ stack' = [stack EXCEPT ![self] = << [ procedure |->  "advance",
                                                                           pc        |->  "M4",
                                                                           tk_       |->  tk_[self] ] >>
                                                                       \o stack[self]]
                                  /\ tk_' = [tk_ EXCEPT ![self] = NOTOK]
                                  /\ pc' = [pc EXCEPT ![self] = "Adv"]
                                  /\ UNCHANGED << err, etag, items, op_, name >>
            /\ UNCHANGED << idx, last, consumed, cur, la, ret, result, done, 
                            depth, maxdepth, steps, tk, ans, min, lhs, isnot, 
                            op, rbp, a, optok, base, pendingnot >>

M4(self) == /\ pc[self] = "M4"
            /\ stack' = [stack EXCEPT ![self] = << [ procedure |->  "parse_expression",
                                                     pc        |->  "M5" ] >>
                                                 \o stack[self]]
            /\ pc' = [pc EXCEPT ![self] = "E0"]
            /\ UNCHANGED << idx, last, consumed, cur, la, ret, err, etag, 
                            result, done, depth, maxdepth, steps, tk_, tk, ans, 
                            items, key, op_, name, min, lhs, isnot, op, rbp, a, 
                            optok, base, pendingnot >>

M5(self) == /\ pc[self] = "M5"
            /\ IF err
                  THEN /\ pc' = [pc EXCEPT ![self] = Head(stack[self]).pc]
                       /\ items' = [items EXCEPT ![self] = Head(stack[self]).items]
                       /\ key' = [key EXCEPT ![self] = Head(stack[self]).key]
                       /\ op_' = [op_ EXCEPT ![self] = Head(stack[self]).op_]
                       /\ name' = [name EXCEPT ![self] = Head(stack[self]).name]
                       /\ stack' = [stack EXCEPT ![self] = Tail(stack[self])]
                  ELSE /\ pc' = [pc EXCEPT ![self] = "M6"]
                       /\ UNCHANGED << stack, items, key, op_, name >>
            /\ UNCHANGED << idx, last, consumed, cur, la, ret, err, etag, 
                            result, done, depth, maxdepth, steps, tk_, tk, ans, 
                            min, lhs, isnot, op, rbp, a, optok, base, 
                            pendingnot >>

M6(self) == /\ pc[self] = "M6"
            /\ items' = [items EXCEPT ![self] = Append(items[self], <<key[self], ret>>)]
            /\ IF IsText(cur, "delim", "}")
                  THEN /\ pc' = [pc EXCEPT ![self] = "M1"]
                       /\ UNCHANGED << err, etag, stack, tk_ >>
                  ELSE /\ IF ExpectOk(cur, ",")
                             THEN /\ stack' = [stack EXCEPT ![self] = << [ procedure |->  "advance",
                                                                           pc        |->  "M7",
                                                                           tk_       |->  tk_[self] ] >>
                                                                       \o stack[self]]
                                  /\ tk_' = [tk_ EXCEPT ![self] = NOTOK]
                                  /\ pc' = [pc EXCEPT ![self] = "Adv"]
                                  /\ UNCHANGED << err, etag >>
                             ELSE /\ err' = TRUE
                                  /\ etag' = "ExpectedOpNotExist"
                                  /\ pc' = [pc EXCEPT ![self] = "M8"]
                                  /\ UNCHANGED << stack, tk_ >>
            /\ UNCHANGED << idx, last, consumed, cur, la, ret, result, done, 
                            depth, maxdepth, steps, tk, ans, key, op_, name, 
                            min, lhs, isnot, op, rbp, a, optok, base, 
                            pendingnot >>

M7(self) == /\ pc[self] = "M7"
            /\ pc' = [pc EXCEPT ![self] = "M1"]
            /\ UNCHANGED << idx, last, consumed, cur, la, ret, err, etag, 
                            result, done, depth, maxdepth, steps, stack, tk_, 
                            tk, ans, items, key, op_, name, min, lhs, isnot, 
                            op, rbp, a, optok, base, pendingnot >>

M8(self) == /\ pc[self] = "M8"
            /\ pc' = [pc EXCEPT ![self] = Head(stack[self]).pc]
            /\ items' = [items EXCEPT ![self] = Head(stack[self]).items]
            /\ key' = [key EXCEPT ![self] = Head(stack[self]).key]
            /\ op_' = [op_ EXCEPT ![self] = Head(stack[self]).op_]
            /\ name' = [name EXCEPT ![self] = Head(stack[self]).name]
            /\ stack' = [stack EXCEPT ![self] = Tail(stack[self])]
            /\ UNCHANGED << idx, last, consumed, cur, la, ret, err, etag, 
                            result, done, depth, maxdepth, steps, tk_, tk, ans, 
                            min, lhs, isnot, op, rbp, a, optok, base, 
                            pendingnot >>

parse_token(self) == T0(self) \/ T0r(self) \/ F1(self) \/ F2(self)
                        \/ F3(self) \/ F3r(self) \/ F4(self) \/ F5(self)
                        \/ F6(self) \/ F6r(self) \/ F7(self) \/ F8(self)
                        \/ U1(self) \/ U2(self) \/ L1(self) \/ L2(self)
                        \/ L3(self) \/ B1(self) \/ B1r(self) \/ B2(self)
                        \/ B3(self) \/ B4(self) \/ B5(self) \/ B6(self)
                        \/ M1(self) \/ M1r(self) \/ M2(self) \/ M3(self)
                        \/ M4(self) \/ M5(self) \/ M6(self) \/ M7(self)
                        \/ M8(self)

O00(self) == /\ pc[self] = "O00"
             /\ base' = [base EXCEPT ![self] = depth]
             /\ pc' = [pc EXCEPT ![self] = "O0"]
             /\ UNCHANGED << idx, last, consumed, cur, la, ret, err, etag, 
                             result, done, depth, maxdepth, steps, stack, tk_, 
                             tk, ans, items, key, op_, name, min, lhs, isnot, 
                             op, rbp, a, optok, pendingnot >>

O0(self) == /\ pc[self] = "O0"
            /\ steps' = steps + 1
            /\ IF ~IsOpTok(cur)
                  THEN /\ ret' = lhs[self]
                       /\ depth' = base[self]
                       /\ pc' = [pc EXCEPT ![self] = Head(stack[self]).pc]
                       /\ isnot' = [isnot EXCEPT ![self] = Head(stack[self]).isnot]
                       /\ op' = [op EXCEPT ![self] = Head(stack[self]).op]
                       /\ rbp' = [rbp EXCEPT ![self] = Head(stack[self]).rbp]
                       /\ a' = [a EXCEPT ![self] = Head(stack[self]).a]
                       /\ optok' = [optok EXCEPT ![self] = Head(stack[self]).optok]
                       /\ base' = [base EXCEPT ![self] = Head(stack[self]).base]
                       /\ pendingnot' = [pendingnot EXCEPT ![self] = Head(stack[self]).pendingnot]
                       /\ min' = [min EXCEPT ![self] = Head(stack[self]).min]
                       /\ lhs' = [lhs EXCEPT ![self] = Head(stack[self]).lhs]
                       /\ stack' = [stack EXCEPT ![self] = Tail(stack[self])]
                  ELSE /\ pc' = [pc EXCEPT ![self] = "O1"]
                       /\ UNCHANGED << ret, depth, stack, min, lhs, isnot, op, 
                                       rbp, a, optok, base, pendingnot >>
            /\ UNCHANGED << idx, last, consumed, cur, la, err, etag, result, 
                            done, maxdepth, tk_, tk, ans, items, key, op_, 
                            name >>

O1(self) == /\ pc[self] = "O1"
            /\ IF IsText(cur, "op", "?") /\ ~(~NotGate /\ pendingnot[self])
                  THEN /\ IF TernaryGate /\ min[self] > 0
                             THEN /\ ret' = lhs[self]
                                  /\ depth' = base[self]
                                  /\ pc' = [pc EXCEPT ![self] = Head(stack[self]).pc]
                                  /\ isnot' = [isnot EXCEPT ![self] = Head(stack[self]).isnot]
                                  /\ op' = [op EXCEPT ![self] = Head(stack[self]).op]
                                  /\ rbp' = [rbp EXCEPT ![self] = Head(stack[self]).rbp]
                                  /\ a' = [a EXCEPT ![self] = Head(stack[self]).a]
                                  /\ optok' = [optok EXCEPT ![self] = Head(stack[self]).optok]
                                  /\ base' = [base EXCEPT ![self] = Head(stack[self]).base]
                                  /\ pendingnot' = [pendingnot EXCEPT ![self] = Head(stack[self]).pendingnot]
                                  /\ min' = [min EXCEPT ![self] = Head(stack[self]).min]
                                  /\ lhs' = [lhs EXCEPT ![self] = Head(stack[self]).lhs]
                                  /\ stack' = [stack EXCEPT ![self] = Tail(stack[self])]
                             ELSE /\ pc' = [pc EXCEPT ![self] = "Q0a"]
                                  /\ UNCHANGED << ret, depth, stack, min, lhs, 
                                                  isnot, op, rbp, a, optok, 
                                                  base, pendingnot >>
                  ELSE /\ pc' = [pc EXCEPT ![self] = "O2"]
                       /\ UNCHANGED << ret, depth, stack, min, lhs, isnot, op, 
                                       rbp, a, optok, base, pendingnot >>
            /\ UNCHANGED << idx, last, consumed, cur, la, err, etag, result, 
                            done, maxdepth, steps, tk_, tk, ans, items, key, 
                            op_, name >>

Q0a(self) == /\ pc[self] = "Q0a"
             /\ stack' = [stack EXCEPT ![self] = << [ procedure |->  "enter",
                                                      pc        |->  "Q0b" ] >>
                                                  \o stack[self]]
             /\ pc' = [pc EXCEPT ![self] = "En"]
             /\ UNCHANGED << idx, last, consumed, cur, la, ret, err, etag, 
                             result, done, depth, maxdepth, steps, tk_, tk, 
                             ans, items, key, op_, name, min, lhs, isnot, op, 
                             rbp, a, optok, base, pendingnot >>

Q0b(self) == /\ pc[self] = "Q0b"
             /\ IF err
                   THEN /\ pc' = [pc EXCEPT ![self] = Head(stack[self]).pc]
                        /\ isnot' = [isnot EXCEPT ![self] = Head(stack[self]).isnot]
                        /\ op' = [op EXCEPT ![self] = Head(stack[self]).op]
                        /\ rbp' = [rbp EXCEPT ![self] = Head(stack[self]).rbp]
                        /\ a' = [a EXCEPT ![self] = Head(stack[self]).a]
                        /\ optok' = [optok EXCEPT ![self] = Head(stack[self]).optok]
                        /\ base' = [base EXCEPT ![self] = Head(stack[self]).base]
                        /\ pendingnot' = [pendingnot EXCEPT ![self] = Head(stack[self]).pendingnot]
                        /\ min' = [min EXCEPT ![self] = Head(stack[self]).min]
                        /\ lhs' = [lhs EXCEPT ![self] = Head(stack[self]).lhs]
                        /\ stack' = [stack EXCEPT ![self] = Tail(stack[self])]
                   ELSE /\ pc' = [pc EXCEPT ![self] = "Q0"]
                        /\ UNCHANGED << stack, min, lhs, isnot, op, rbp, a, 
                                        optok, base, pendingnot >>
             /\ UNCHANGED << idx, last, consumed, cur, la, ret, err, etag, 
                             result, done, depth, maxdepth, steps, tk_, tk, 
                             ans, items, key, op_, name >>

Q0(self) == /\ pc[self] = "Q0"
            /\ stack' = [stack EXCEPT ![self] = << [ procedure |->  "advance",
                                                     pc        |->  "Q1",
                                                     tk_       |->  tk_[self] ] >>
                                                 \o stack[self]]
            /\ tk_' = [tk_ EXCEPT ![self] = NOTOK]
            /\ pc' = [pc EXCEPT ![self] = "Adv"]
            /\ UNCHANGED << idx, last, consumed, cur, la, ret, err, etag, 
                            result, done, depth, maxdepth, steps, tk, ans, 
                            items, key, op_, name, min, lhs, isnot, op, rbp, a, 
                            optok, base, pendingnot >>

Q1(self) == /\ pc[self] = "Q1"
            /\ stack' = [stack EXCEPT ![self] = << [ procedure |->  "parse_expression",
                                                     pc        |->  "Q2" ] >>
                                                 \o stack[self]]
            /\ pc' = [pc EXCEPT ![self] = "E0"]
            /\ UNCHANGED << idx, last, consumed, cur, la, ret, err, etag, 
                            result, done, depth, maxdepth, steps, tk_, tk, ans, 
                            items, key, op_, name, min, lhs, isnot, op, rbp, a, 
                            optok, base, pendingnot >>

Q2(self) == /\ pc[self] = "Q2"
            /\ IF err
                  THEN /\ pc' = [pc EXCEPT ![self] = Head(stack[self]).pc]
                       /\ isnot' = [isnot EXCEPT ![self] = Head(stack[self]).isnot]
                       /\ op' = [op EXCEPT ![self] = Head(stack[self]).op]
                       /\ rbp' = [rbp EXCEPT ![self] = Head(stack[self]).rbp]
                       /\ a' = [a EXCEPT ![self] = Head(stack[self]).a]
                       /\ optok' = [optok EXCEPT ![self] = Head(stack[self]).optok]
                       /\ base' = [base EXCEPT ![self] = Head(stack[self]).base]
                       /\ pendingnot' = [pendingnot EXCEPT ![self] = Head(stack[self]).pendingnot]
                       /\ min' = [min EXCEPT ![self] = Head(stack[self]).min]
                       /\ lhs' = [lhs EXCEPT ![self] = Head(stack[self]).lhs]
                       /\ stack' = [stack EXCEPT ![self] = Tail(stack[self])]
                       /\ UNCHANGED << err, etag, tk_ >>
                  ELSE /\ IF ~ExpectOk(cur, ":")
                             THEN /\ err' = TRUE
                                  /\ etag' = "ExpectedOpNotExist"
                                  /\ pc' = [pc EXCEPT ![self] = Head(stack[self]).pc]
                                  /\ isnot' = [isnot EXCEPT ![self] = Head(stack[self]).isnot]
                                  /\ op' = [op EXCEPT ![self] = Head(stack[self]).op]
                                  /\ rbp' = [rbp EXCEPT ![self] = Head(stack[self]).rbp]
                                  /\ a' = [a EXCEPT ![self] = Head(stack[self]).a]
                                  /\ optok' = [optok EXCEPT ![self] = Head(stack[self]).optok]
                                  /\ base' = [base EXCEPT ![self] = Head(stack[self]).base]
                                  /\ pendingnot' = [pendingnot EXCEPT ![self] = Head(stack[self]).pendingnot]
                                  /\ min' = [min EXCEPT ![self] = Head(stack[self]).min]
                                  /\ lhs' = [lhs EXCEPT ![self] = Head(stack[self]).lhs]
                                  /\ stack' = [stack EXCEPT ![self] = Tail(stack[self])]
                                  /\ tk_' = tk_
                             ELSE /\ a' = [a EXCEPT ![self] = ret]
                                  /\ stack' = [stack EXCEPT ![self] = << [ procedure |->  "advance",
                                                                           pc        |->  "Q3",
                                                                           tk_       |->  tk_[self] ] >>
                                                                       \o stack[self]]
                                  /\ tk_' = [tk_ EXCEPT ![self] = NOTOK]
                                  /\ pc' = [pc EXCEPT ![self] = "Adv"]
                                  /\ UNCHANGED << err, etag, min, lhs, isnot, 
                                                  op, rbp, optok, base, 
                                                  pendingnot >>
            /\ UNCHANGED << idx, last, consumed, cur, la, ret, result, done, 
                            depth, maxdepth, steps, tk, ans, items, key, op_, 
                            name >>

Q3(self) == /\ pc[self] = "Q3"
            /\ stack' = [stack EXCEPT ![self] = << [ procedure |->  "parse_expression",
                                                     pc        |->  "Q4" ] >>
                                                 \o stack[self]]
            /\ pc' = [pc EXCEPT ![self] = "E0"]
            /\ UNCHANGED << idx, last, consumed, cur, la, ret, err, etag, 
                            result, done, depth, maxdepth, steps, tk_, tk, ans, 
                            items, key, op_, name, min, lhs, isnot, op, rbp, a, 
                            optok, base, pendingnot >>

Q4(self) == /\ pc[self] = "Q4"
            /\ IF ~err
                  THEN /\ ret' = <<"tern", lhs[self], a[self], ret>>
                       /\ depth' = base[self]
                  ELSE /\ TRUE
                       /\ UNCHANGED << ret, depth >>
            /\ pc' = [pc EXCEPT ![self] = Head(stack[self]).pc]
            /\ isnot' = [isnot EXCEPT ![self] = Head(stack[self]).isnot]
            /\ op' = [op EXCEPT ![self] = Head(stack[self]).op]
            /\ rbp' = [rbp EXCEPT ![self] = Head(stack[self]).rbp]
            /\ a' = [a EXCEPT ![self] = Head(stack[self]).a]
            /\ optok' = [optok EXCEPT ![self] = Head(stack[self]).optok]
            /\ base' = [base EXCEPT ![self] = Head(stack[self]).base]
            /\ pendingnot' = [pendingnot EXCEPT ![self] = Head(stack[self]).pendingnot]
            /\ min' = [min EXCEPT ![self] = Head(stack[self]).min]
            /\ lhs' = [lhs EXCEPT ![self] = Head(stack[self]).lhs]
            /\ stack' = [stack EXCEPT ![self] = Tail(stack[self])]
            /\ UNCHANGED << idx, last, consumed, cur, la, err, etag, result, 
                            done, maxdepth, steps, tk_, tk, ans, items, key, 
                            op_, name >>

O2(self) == /\ pc[self] = "O2"
            /\ IF NotGate
                  THEN /\ IF IsText(cur, "op", "not")
                             THEN /\ stack' = [stack EXCEPT ![self] = << [ procedure |->  "peek",
                                                                           pc        |->  "N1",
                                                                           tk        |->  tk[self] ] >>
                                                                       \o stack[self]]
                                  /\ tk' = [tk EXCEPT ![self] = NOTOK]
                                  /\ pc' = [pc EXCEPT ![self] = "Pk"]
                                  /\ UNCHANGED << isnot, optok >>
                             ELSE /\ optok' = [optok EXCEPT ![self] = cur]
                                  /\ isnot' = [isnot EXCEPT ![self] = FALSE]
                                  /\ pc' = [pc EXCEPT ![self] = "O3"]
                                  /\ UNCHANGED << stack, tk >>
                       /\ UNCHANGED << tk_, pendingnot >>
                  ELSE /\ IF IsText(cur, "op", "not")
                             THEN /\ pendingnot' = [pendingnot EXCEPT ![self] = TRUE]
                                  /\ stack' = [stack EXCEPT ![self] = << [ procedure |->  "advance",
                                                                           pc        |->  "N3",
                                                                           tk_       |->  tk_[self] ] >>
                                                                       \o stack[self]]
                                  /\ tk_' = [tk_ EXCEPT ![self] = NOTOK]
                                  /\ pc' = [pc EXCEPT ![self] = "Adv"]
                                  /\ UNCHANGED << isnot, optok >>
                             ELSE /\ optok' = [optok EXCEPT ![self] = cur]
                                  /\ isnot' = [isnot EXCEPT ![self] = pendingnot[self]]
                                  /\ pc' = [pc EXCEPT ![self] = "O3"]
                                  /\ UNCHANGED << stack, tk_, pendingnot >>
                       /\ tk' = tk
            /\ UNCHANGED << idx, last, consumed, cur, la, ret, err, etag, 
                            result, done, depth, maxdepth, steps, ans, items, 
                            key, op_, name, min, lhs, op, rbp, a, base >>

N1(self) == /\ pc[self] = "N1"
            /\ IF ~IsInfixT(la[1])
                  THEN /\ err' = TRUE
                       /\ etag' = "ExpectBinOpToken"
                       /\ pc' = [pc EXCEPT ![self] = Head(stack[self]).pc]
                       /\ isnot' = [isnot EXCEPT ![self] = Head(stack[self]).isnot]
                       /\ op' = [op EXCEPT ![self] = Head(stack[self]).op]
                       /\ rbp' = [rbp EXCEPT ![self] = Head(stack[self]).rbp]
                       /\ a' = [a EXCEPT ![self] = Head(stack[self]).a]
                       /\ optok' = [optok EXCEPT ![self] = Head(stack[self]).optok]
                       /\ base' = [base EXCEPT ![self] = Head(stack[self]).base]
                       /\ pendingnot' = [pendingnot EXCEPT ![self] = Head(stack[self]).pendingnot]
                       /\ min' = [min EXCEPT ![self] = Head(stack[self]).min]
                       /\ lhs' = [lhs EXCEPT ![self] = Head(stack[self]).lhs]
                       /\ stack' = [stack EXCEPT ![self] = Tail(stack[self])]
                  ELSE /\ pc' = [pc EXCEPT ![self] = "N2"]
                       /\ UNCHANGED << err, etag, stack, min, lhs, isnot, op, 
                                       rbp, a, optok, base, pendingnot >>
            /\ UNCHANGED << idx, last, consumed, cur, la, ret, result, done, 
                            depth, maxdepth, steps, tk_, tk, ans, items, key, 
                            op_, name >>

N2(self) == /\ pc[self] = "N2"
            /\ optok' = [optok EXCEPT ![self] = la[1]]
            /\ isnot' = [isnot EXCEPT ![self] = TRUE]
            /\ pc' = [pc EXCEPT ![self] = "O3"]
            /\ UNCHANGED << idx, last, consumed, cur, la, ret, err, etag, 
                            result, done, depth, maxdepth, steps, stack, tk_, 
                            tk, ans, items, key, op_, name, min, lhs, op, rbp, 
                            a, base, pendingnot >>

N3(self) == /\ pc[self] = "N3"
            /\ IF ~IsInfixT(cur)
                  THEN /\ err' = TRUE
                       /\ etag' = "ExpectBinOpToken"
                       /\ pc' = [pc EXCEPT ![self] = Head(stack[self]).pc]
                       /\ isnot' = [isnot EXCEPT ![self] = Head(stack[self]).isnot]
                       /\ op' = [op EXCEPT ![self] = Head(stack[self]).op]
                       /\ rbp' = [rbp EXCEPT ![self] = Head(stack[self]).rbp]
                       /\ a' = [a EXCEPT ![self] = Head(stack[self]).a]
                       /\ optok' = [optok EXCEPT ![self] = Head(stack[self]).optok]
                       /\ base' = [base EXCEPT ![self] = Head(stack[self]).base]
                       /\ pendingnot' = [pendingnot EXCEPT ![self] = Head(stack[self]).pendingnot]
                       /\ min' = [min EXCEPT ![self] = Head(stack[self]).min]
                       /\ lhs' = [lhs EXCEPT ![self] = Head(stack[self]).lhs]
                       /\ stack' = [stack EXCEPT ![self] = Tail(stack[self])]
                  ELSE /\ pc' = [pc EXCEPT ![self] = "N4"]
                       /\ UNCHANGED << err, etag, stack, min, lhs, isnot, op, 
                                       rbp, a, optok, base, pendingnot >>
            /\ UNCHANGED << idx, last, consumed, cur, la, ret, result, done, 
                            depth, maxdepth, steps, tk_, tk, ans, items, key, 
                            op_, name >>

N4(self) == /\ pc[self] = "N4"
            /\ pc' = [pc EXCEPT ![self] = "O0"]
            /\ UNCHANGED << idx, last, consumed, cur, la, ret, err, etag, 
                            result, done, depth, maxdepth, steps, stack, tk_, 
                            tk, ans, items, key, op_, name, min, lhs, isnot, 
                            op, rbp, a, optok, base, pendingnot >>

O3(self) == /\ pc[self] = "O3"
            /\ IF LBP(optok[self]) < min[self]
                  THEN /\ ret' = lhs[self]
                       /\ depth' = base[self]
                       /\ pc' = [pc EXCEPT ![self] = Head(stack[self]).pc]
                       /\ isnot' = [isnot EXCEPT ![self] = Head(stack[self]).isnot]
                       /\ op' = [op EXCEPT ![self] = Head(stack[self]).op]
                       /\ rbp' = [rbp EXCEPT ![self] = Head(stack[self]).rbp]
                       /\ a' = [a EXCEPT ![self] = Head(stack[self]).a]
                       /\ optok' = [optok EXCEPT ![self] = Head(stack[self]).optok]
                       /\ base' = [base EXCEPT ![self] = Head(stack[self]).base]
                       /\ pendingnot' = [pendingnot EXCEPT ![self] = Head(stack[self]).pendingnot]
                       /\ min' = [min EXCEPT ![self] = Head(stack[self]).min]
                       /\ lhs' = [lhs EXCEPT ![self] = Head(stack[self]).lhs]
                       /\ stack' = [stack EXCEPT ![self] = Tail(stack[self])]
                  ELSE /\ pc' = [pc EXCEPT ![self] = "O4"]
                       /\ UNCHANGED << ret, depth, stack, min, lhs, isnot, op, 
                                       rbp, a, optok, base, pendingnot >>
            /\ UNCHANGED << idx, last, consumed, cur, la, err, etag, result, 
                            done, maxdepth, steps, tk_, tk, ans, items, key, 
                            op_, name >>

O4(self) == /\ pc[self] = "O4"
            /\ IF NotGate /\ isnot[self]
                  THEN /\ stack' = [stack EXCEPT ![self] = << [ procedure |->  "enter",
                                                                pc        |->  "O4a" ] >>
                                                            \o stack[self]]
                       /\ pc' = [pc EXCEPT ![self] = "En"]
                  ELSE /\ pc' = [pc EXCEPT ![self] = "O4a"]
                       /\ stack' = stack
            /\ UNCHANGED << idx, last, consumed, cur, la, ret, err, etag, 
                            result, done, depth, maxdepth, steps, tk_, tk, ans, 
                            items, key, op_, name, min, lhs, isnot, op, rbp, a, 
                            optok, base, pendingnot >>

O4a(self) == /\ pc[self] = "O4a"
             /\ IF err
                   THEN /\ pc' = [pc EXCEPT ![self] = Head(stack[self]).pc]
                        /\ isnot' = [isnot EXCEPT ![self] = Head(stack[self]).isnot]
                        /\ op' = [op EXCEPT ![self] = Head(stack[self]).op]
                        /\ rbp' = [rbp EXCEPT ![self] = Head(stack[self]).rbp]
                        /\ a' = [a EXCEPT ![self] = Head(stack[self]).a]
                        /\ optok' = [optok EXCEPT ![self] = Head(stack[self]).optok]
                        /\ base' = [base EXCEPT ![self] = Head(stack[self]).base]
                        /\ pendingnot' = [pendingnot EXCEPT ![self] = Head(stack[self]).pendingnot]
                        /\ min' = [min EXCEPT ![self] = Head(stack[self]).min]
                        /\ lhs' = [lhs EXCEPT ![self] = Head(stack[self]).lhs]
                        /\ stack' = [stack EXCEPT ![self] = Tail(stack[self])]
                   ELSE /\ pc' = [pc EXCEPT ![self] = "O4b"]
                        /\ UNCHANGED << stack, min, lhs, isnot, op, rbp, a, 
                                        optok, base, pendingnot >>
             /\ UNCHANGED << idx, last, consumed, cur, la, ret, err, etag, 
                             result, done, depth, maxdepth, steps, tk_, tk, 
                             ans, items, key, op_, name >>

O4b(self) == /\ pc[self] = "O4b"
             /\ IF NotGate /\ isnot[self]
                   THEN /\ stack' = [stack EXCEPT ![self] = << [ procedure |->  "advance",
                                                                 pc        |->  "O5",
                                                                 tk_       |->  tk_[self] ] >>
                                                             \o stack[self]]
                        /\ tk_' = [tk_ EXCEPT ![self] = NOTOK]
                        /\ pc' = [pc EXCEPT ![self] = "Adv"]
                   ELSE /\ pc' = [pc EXCEPT ![self] = "O5"]
                        /\ UNCHANGED << stack, tk_ >>
             /\ UNCHANGED << idx, last, consumed, cur, la, ret, err, etag, 
                             result, done, depth, maxdepth, steps, tk, ans, 
                             items, key, op_, name, min, lhs, isnot, op, rbp, 
                             a, optok, base, pendingnot >>

O5(self) == /\ pc[self] = "O5"
            /\ op' = [op EXCEPT ![self] = cur[2]]
            /\ rbp' = [rbp EXCEPT ![self] = RBP(cur)]
            /\ stack' = [stack EXCEPT ![self] = << [ procedure |->  "enter",
                                                     pc        |->  "O5b" ] >>
                                                 \o stack[self]]
            /\ pc' = [pc EXCEPT ![self] = "En"]
            /\ UNCHANGED << idx, last, consumed, cur, la, ret, err, etag, 
                            result, done, depth, maxdepth, steps, tk_, tk, ans, 
                            items, key, op_, name, min, lhs, isnot, a, optok, 
                            base, pendingnot >>

O5b(self) == /\ pc[self] = "O5b"
             /\ IF err
                   THEN /\ pc' = [pc EXCEPT ![self] = Head(stack[self]).pc]
                        /\ isnot' = [isnot EXCEPT ![self] = Head(stack[self]).isnot]
                        /\ op' = [op EXCEPT ![self] = Head(stack[self]).op]
                        /\ rbp' = [rbp EXCEPT ![self] = Head(stack[self]).rbp]
                        /\ a' = [a EXCEPT ![self] = Head(stack[self]).a]
                        /\ optok' = [optok EXCEPT ![self] = Head(stack[self]).optok]
                        /\ base' = [base EXCEPT ![self] = Head(stack[self]).base]
                        /\ pendingnot' = [pendingnot EXCEPT ![self] = Head(stack[self]).pendingnot]
                        /\ min' = [min EXCEPT ![self] = Head(stack[self]).min]
                        /\ lhs' = [lhs EXCEPT ![self] = Head(stack[self]).lhs]
                        /\ stack' = [stack EXCEPT ![self] = Tail(stack[self])]
                   ELSE /\ pc' = [pc EXCEPT ![self] = "O5c"]
                        /\ UNCHANGED << stack, min, lhs, isnot, op, rbp, a, 
                                        optok, base, pendingnot >>
             /\ UNCHANGED << idx, last, consumed, cur, la, ret, err, etag, 
                             result, done, depth, maxdepth, steps, tk_, tk, 
                             ans, items, key, op_, name >>

O5c(self) == /\ pc[self] = "O5c"
             /\ stack' = [stack EXCEPT ![self] = << [ procedure |->  "advance",
                                                      pc        |->  "O6",
                                                      tk_       |->  tk_[self] ] >>
                                                  \o stack[self]]
             /\ tk_' = [tk_ EXCEPT ![self] = NOTOK]
             /\ pc' = [pc EXCEPT ![self] = "Adv"]
             /\ UNCHANGED << idx, last, consumed, cur, la, ret, err, etag, 
                             result, done, depth, maxdepth, steps, tk, ans, 
                             items, key, op_, name, min, lhs, isnot, op, rbp, 
                             a, optok, base, pendingnot >>

O6(self) == /\ pc[self] = "O6"
            /\ stack' = [stack EXCEPT ![self] = << [ procedure |->  "parse_primary",
                                                     pc        |->  "O7" ] >>
                                                 \o stack[self]]
            /\ pc' = [pc EXCEPT ![self] = "P0"]
            /\ UNCHANGED << idx, last, consumed, cur, la, ret, err, etag, 
                            result, done, depth, maxdepth, steps, tk_, tk, ans, 
                            items, key, op_, name, min, lhs, isnot, op, rbp, a, 
                            optok, base, pendingnot >>

O7(self) == /\ pc[self] = "O7"
            /\ IF err
                  THEN /\ pc' = [pc EXCEPT ![self] = Head(stack[self]).pc]
                       /\ isnot' = [isnot EXCEPT ![self] = Head(stack[self]).isnot]
                       /\ op' = [op EXCEPT ![self] = Head(stack[self]).op]
                       /\ rbp' = [rbp EXCEPT ![self] = Head(stack[self]).rbp]
                       /\ a' = [a EXCEPT ![self] = Head(stack[self]).a]
                       /\ optok' = [optok EXCEPT ![self] = Head(stack[self]).optok]
                       /\ base' = [base EXCEPT ![self] = Head(stack[self]).base]
                       /\ pendingnot' = [pendingnot EXCEPT ![self] = Head(stack[self]).pendingnot]
                       /\ min' = [min EXCEPT ![self] = Head(stack[self]).min]
                       /\ lhs' = [lhs EXCEPT ![self] = Head(stack[self]).lhs]
                       /\ stack' = [stack EXCEPT ![self] = Tail(stack[self])]
                  ELSE /\ pc' = [pc EXCEPT ![self] = "O8"]
                       /\ UNCHANGED << stack, min, lhs, isnot, op, rbp, a, 
                                       optok, base, pendingnot >>
            /\ UNCHANGED << idx, last, consumed, cur, la, ret, err, etag, 
                            result, done, depth, maxdepth, steps, tk_, tk, ans, 
                            items, key, op_, name >>

O8(self) == /\ pc[self] = "O8"
            /\ IF NotGate /\ IsText(cur, "op", "not")
                  THEN /\ stack' = [stack EXCEPT ![self] = << [ procedure |->  "peek",
                                                                pc        |->  "G1",
                                                                tk        |->  tk[self] ] >>
                                                            \o stack[self]]
                       /\ tk' = [tk EXCEPT ![self] = NOTOK]
                       /\ pc' = [pc EXCEPT ![self] = "Pk"]
                       /\ optok' = optok
                  ELSE /\ optok' = [optok EXCEPT ![self] = cur]
                       /\ pc' = [pc EXCEPT ![self] = "O9"]
                       /\ UNCHANGED << stack, tk >>
            /\ UNCHANGED << idx, last, consumed, cur, la, ret, err, etag, 
                            result, done, depth, maxdepth, steps, tk_, ans, 
                            items, key, op_, name, min, lhs, isnot, op, rbp, a, 
                            base, pendingnot >>

G1(self) == /\ pc[self] = "G1"
            /\ optok' = [optok EXCEPT ![self] = la[1]]
            /\ pc' = [pc EXCEPT ![self] = "O9"]
            /\ UNCHANGED << idx, last, consumed, cur, la, ret, err, etag, 
                            result, done, depth, maxdepth, steps, stack, tk_, 
                            tk, ans, items, key, op_, name, min, lhs, isnot, 
                            op, rbp, a, base, pendingnot >>

O9(self) == /\ pc[self] = "O9"
            /\ IF IsInfixT(optok[self]) /\ rbp[self] < LBP(optok[self])
                  THEN /\ /\ lhs' = [lhs EXCEPT ![self] = ret]
                          /\ min' = [min EXCEPT ![self] = rbp[self]]
                          /\ stack' = [stack EXCEPT ![self] = << [ procedure |->  "parse_op",
                                                                   pc        |->  "O10",
                                                                   isnot     |->  isnot[self],
                                                                   op        |->  op[self],
                                                                   rbp       |->  rbp[self],
                                                                   a         |->  a[self],
                                                                   optok     |->  optok[self],
                                                                   base      |->  base[self],
                                                                   pendingnot |->  pendingnot[self],
                                                                   min       |->  min[self],
                                                                   lhs       |->  lhs[self] ] >>
                                                               \o stack[self]]
                       /\ isnot' = [isnot EXCEPT ![self] = FALSE]
                       /\ op' = [op EXCEPT ![self] = ""]
                       /\ rbp' = [rbp EXCEPT ![self] = -1]
                       /\ a' = [a EXCEPT ![self] = <<>>]
                       /\ optok' = [optok EXCEPT ![self] = NOTOK]
                       /\ base' = [base EXCEPT ![self] = 0]
                       /\ pendingnot' = [pendingnot EXCEPT ![self] = FALSE]
                       /\ pc' = [pc EXCEPT ![self] = "O00"]
                  ELSE /\ pc' = [pc EXCEPT ![self] = "O10"]
                       /\ UNCHANGED << stack, min, lhs, isnot, op, rbp, a, 
                                       optok, base, pendingnot >>
            /\ UNCHANGED << idx, last, consumed, cur, la, ret, err, etag, 
                            result, done, depth, maxdepth, steps, tk_, tk, ans, 
                            items, key, op_, name >>

O10(self) == /\ pc[self] = "O10"
             /\ IF err
                   THEN /\ pc' = [pc EXCEPT ![self] = Head(stack[self]).pc]
                        /\ isnot' = [isnot EXCEPT ![self] = Head(stack[self]).isnot]
                        /\ op' = [op EXCEPT ![self] = Head(stack[self]).op]
                        /\ rbp' = [rbp EXCEPT ![self] = Head(stack[self]).rbp]
                        /\ a' = [a EXCEPT ![self] = Head(stack[self]).a]
                        /\ optok' = [optok EXCEPT ![self] = Head(stack[self]).optok]
                        /\ base' = [base EXCEPT ![self] = Head(stack[self]).base]
                        /\ pendingnot' = [pendingnot EXCEPT ![self] = Head(stack[self]).pendingnot]
                        /\ min' = [min EXCEPT ![self] = Head(stack[self]).min]
                        /\ lhs' = [lhs EXCEPT ![self] = Head(stack[self]).lhs]
                        /\ stack' = [stack EXCEPT ![self] = Tail(stack[self])]
                   ELSE /\ pc' = [pc EXCEPT ![self] = "O11"]
                        /\ UNCHANGED << stack, min, lhs, isnot, op, rbp, a, 
                                        optok, base, pendingnot >>
             /\ UNCHANGED << idx, last, consumed, cur, la, ret, err, etag, 
                             result, done, depth, maxdepth, steps, tk_, tk, 
                             ans, items, key, op_, name >>

O11(self) == /\ pc[self] = "O11"
             /\ lhs' = [lhs EXCEPT ![self] = IF isnot[self] THEN <<"un", "not", <<"bin", op[self], lhs[self], ret>>>> ELSE <<"bin", op[self], lhs[self], ret>>]
             /\ pendingnot' = [pendingnot EXCEPT ![self] = FALSE]
             /\ pc' = [pc EXCEPT ![self] = "O0"]
             /\ UNCHANGED << idx, last, consumed, cur, la, ret, err, etag, 
                             result, done, depth, maxdepth, steps, stack, tk_, 
                             tk, ans, items, key, op_, name, min, isnot, op, 
                             rbp, a, optok, base >>

parse_op(self) == O00(self) \/ O0(self) \/ O1(self) \/ Q0a(self)
                     \/ Q0b(self) \/ Q0(self) \/ Q1(self) \/ Q2(self)
                     \/ Q3(self) \/ Q4(self) \/ O2(self) \/ N1(self)
                     \/ N2(self) \/ N3(self) \/ N4(self) \/ O3(self)
                     \/ O4(self) \/ O4a(self) \/ O4b(self) \/ O5(self)
                     \/ O5b(self) \/ O5c(self) \/ O6(self) \/ O7(self)
                     \/ O8(self) \/ G1(self) \/ O9(self) \/ O10(self)
                     \/ O11(self)

D0 == /\ pc[1] = "D0"
      /\ IF idx <= last
            THEN /\ consumed' = <<>>
                 /\ cur' = NOTOK
                 /\ la' = <<>>
                 /\ ret' = <<>>
                 /\ err' = FALSE
                 /\ etag' = ""
                 /\ result' = <<>>
                 /\ done' = FALSE
                 /\ depth' = 0
                 /\ maxdepth' = 0
                 /\ steps' = 0
                 /\ pc' = [pc EXCEPT ![1] = "M"]
            ELSE /\ pc' = [pc EXCEPT ![1] = "End"]
                 /\ UNCHANGED << consumed, cur, la, ret, err, etag, result, 
                                 done, depth, maxdepth, steps >>
      /\ UNCHANGED << idx, last, stack, tk_, tk, ans, items, key, op_, name, 
                      min, lhs, isnot, op, rbp, a, optok, base, pendingnot >>

M == /\ pc[1] = "M"
     /\ stack' = [stack EXCEPT ![1] = << [ procedure |->  "parse_stmt",
                                           pc        |->  "Fin",
                                           ans       |->  ans[1] ] >>
                                       \o stack[1]]
     /\ ans' = [ans EXCEPT ![1] = <<>>]
     /\ pc' = [pc EXCEPT ![1] = "S0"]
     /\ UNCHANGED << idx, last, consumed, cur, la, ret, err, etag, result, 
                     done, depth, maxdepth, steps, tk_, tk, items, key, op_, 
                     name, min, lhs, isnot, op, rbp, a, optok, base, 
                     pendingnot >>

Fin == /\ pc[1] = "Fin"
       /\ Assert(Report(idx, SelectSeq(consumed \o la, LAMBDA x : x # EOFTOK), ~err, IF err THEN <<"error", etag>> ELSE result), 
                 "Failure of assertion at line 319, column 7.")
       /\ pc' = [pc EXCEPT ![1] = "Nxt"]
       /\ UNCHANGED << idx, last, consumed, cur, la, ret, err, etag, result, 
                       done, depth, maxdepth, steps, stack, tk_, tk, ans, 
                       items, key, op_, name, min, lhs, isnot, op, rbp, a, 
                       optok, base, pendingnot >>

Nxt == /\ pc[1] = "Nxt"
       /\ idx' = idx + 1
       /\ pc' = [pc EXCEPT ![1] = "D0"]
       /\ UNCHANGED << last, consumed, cur, la, ret, err, etag, result, done, 
                       depth, maxdepth, steps, stack, tk_, tk, ans, items, key, 
                       op_, name, min, lhs, isnot, op, rbp, a, optok, base, 
                       pendingnot >>

End == /\ pc[1] = "End"
       /\ TRUE
       /\ pc' = [pc EXCEPT ![1] = "Done"]
       /\ UNCHANGED << idx, last, consumed, cur, la, ret, err, etag, result, 
                       done, depth, maxdepth, steps, stack, tk_, tk, ans, 
                       items, key, op_, name, min, lhs, isnot, op, rbp, a, 
                       optok, base, pendingnot >>

main == D0 \/ M \/ Fin \/ Nxt \/ End

(* Allow infinite stuttering to prevent deadlock on termination. *)
Terminating == /\ \A self \in ProcSet: pc[self] = "Done"
               /\ UNCHANGED vars

Next == main
           \/ (\E self \in ProcSet:  \/ advance(self) \/ peek(self) \/ enter(self)
                                     \/ parse_stmt(self) \/ parse_expression(self)
                                     \/ parse_primary(self) \/ parse_token(self)
                                     \/ parse_op(self))
           \/ Terminating

Spec == Init /\ [][Next]_vars

Termination == <>(\A self \in ProcSet: pc[self] = "Done")

\* END TRANSLATION 
====
